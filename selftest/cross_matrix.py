#!/venv/bin/python
"""For every seeded change: which of the 20 checks raise an alarm?

Writes selftest/CROSS_MATRIX.json: {seed id: {target property, alarms: [..],
errors: [..]}} and prints the seeds whose own check is silent and the
off-target alarms (to be read for plausibility: a change that breaks
property P often breaks neighbouring properties too)."""
import json
import os
import shutil
import subprocess
import sys
import tempfile
from concurrent.futures import ThreadPoolExecutor

VERIF = os.path.dirname(os.path.dirname(os.path.abspath(__file__)))
PIDS = ['C%02d' % i for i in range(1, 21)]


def one(seed):
    d = tempfile.mkdtemp(prefix='pgsa-cross.')
    out = {'target': None, 'alarms': [], 'errors': [], 'applies': True}
    try:
        meta = json.load(open(os.path.join(VERIF, 'seeded', seed,
                                           'meta.json')))
        out['target'] = meta['property']
        subprocess.check_call('rsync -a --exclude .git --exclude __pycache__ '
                              '/repo/ %s/' % d, shell=True)
        r = subprocess.run('patch -p1 -s < %s' % os.path.join(
            VERIF, 'seeded', seed, 'patch.diff'), shell=True, cwd=d,
            stdout=subprocess.PIPE, stderr=subprocess.STDOUT)
        if r.returncode != 0:
            out['applies'] = False
            return seed, out
        for pid in PIDS:
            r = subprocess.run(
                'VERIF_EVIDENCE_DIR=%s/.ev /venv/bin/python %s/run.py %s '
                '--repo %s' % (d, VERIF, pid, d), shell=True,
                stdout=subprocess.PIPE, stderr=subprocess.STDOUT)
            if r.returncode == 1:
                out['alarms'].append(pid)
            elif r.returncode != 0:
                out['errors'].append(pid)
    finally:
        shutil.rmtree(d, ignore_errors=True)
    return seed, out


def main():
    seeds = sorted(os.listdir(os.path.join(VERIF, 'seeded')))
    if len(sys.argv) > 1:
        seeds = [s for s in seeds if any(a in s for a in sys.argv[1:])]
    res = {}
    with ThreadPoolExecutor(max_workers=14) as ex:
        for seed, out in ex.map(one, seeds):
            res[seed] = out
    path = os.path.join(VERIF, 'selftest', 'CROSS_MATRIX.json')
    if len(sys.argv) > 1 and os.path.exists(path):
        # a subset was re-run: merge it into the stored matrix
        old = json.load(open(path))
        old.update(res)
        res = dict((k, v) for k, v in old.items() if os.path.isdir(
            os.path.join(VERIF, 'seeded', k)))
    json.dump(res, open(path, 'w'), indent=1, sort_keys=True)
    missed = [s for s, o in res.items() if o['applies']
              and o['target'] not in o['alarms']]
    print('%d seeds; own check silent on: %s' % (len(res), missed))
    noapply = [s for s, o in res.items() if not o['applies']]
    print('patch no longer applies:', noapply)
    errs = [(s, o['errors']) for s, o in res.items() if o['errors']]
    print('analysis errors:', errs)
    for s, o in sorted(res.items()):
        off = [p for p in o['alarms'] if p != o['target']]
        print('%-10s own=%s off-target=%s' % (
            s, 'Y' if o['target'] in o['alarms'] else 'n', ' '.join(off)))


if __name__ == '__main__':
    main()

#!/venv/bin/python
"""For every `fixed` entry of known_findings.json: revert that commit in a
scratch worktree of /repo and run the property's checker; it must report a
violation (the defect is back).  Results -> selftest/REVERT_RESULTS.json."""
import json, os, subprocess, sys
from concurrent.futures import ThreadPoolExecutor
VERIF = os.path.dirname(os.path.dirname(os.path.abspath(__file__)))
kf = json.load(open(os.path.join(VERIF, 'known_findings.json')))


def one(ent):
    r = subprocess.run([os.path.join(VERIF, 'selftest', 'try_patch.sh'),
                        '-R:' + ent['commit'], ent['property']],
                       stdout=subprocess.PIPE, stderr=subprocess.STDOUT)
    out = r.stdout.decode()
    viol = [l.strip() for l in out.splitlines() if l.startswith('  pgradd')]
    return ent, r.returncode, viol[:3], 'PATCH-FAILED' in out


res = []
with ThreadPoolExecutor(max_workers=8) as ex:
    for ent, rc, viol, pf in ex.map(one, kf['fixed']):
        res.append({'commit': ent['commit'], 'property': ent['property'],
                    'rule': ent.get('rule'), 'rc': rc, 'revert_applies': not pf,
                    'violations': viol})
        print(ent['commit'], ent['property'], 'rc=%d' % rc,
              'REVERT-CONFLICT' if pf else '', (viol[0][:110] if viol else ''))
json.dump(res, open(os.path.join(VERIF, 'selftest', 'REVERT_RESULTS.json'), 'w'), indent=1)
bad = [r for r in res if r['revert_applies'] and r['rc'] != 1]
print('%d fixes, %d reverted cleanly, %d of those not reported' % (
    len(res), sum(r['revert_applies'] for r in res), len(bad)))
sys.exit(1 if bad else 0)

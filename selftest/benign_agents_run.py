#!/venv/bin/python
"""Re-evaluate every stored behaviour-preserving refactoring
(selftest/benign_agents/<id>/patch.diff, written by independent agents that
saw only the repository) against all 20 checks.

usage: benign_agents_run.py [id-substring ...] [--props C05,C06]
Writes selftest/BENIGN_AGENTS_RESULTS.json and each <id>/result.json."""
import json
import os
import shutil
import subprocess
import sys
import tempfile
from concurrent.futures import ThreadPoolExecutor

VERIF = os.path.dirname(os.path.dirname(os.path.abspath(__file__)))
BASE = os.path.join(VERIF, 'selftest', 'benign_agents')
PIDS = ['C%02d' % i for i in range(1, 21)]


def one(bid):
    d = tempfile.mkdtemp(prefix='pgsa-ben.')
    res = {'id': bid}
    try:
        subprocess.check_call('rsync -a --exclude .git --exclude __pycache__ '
                              '/repo/ %s/' % d, shell=True)
        r = subprocess.run('patch -p1 -s < %s/%s/patch.diff' % (BASE, bid),
                           shell=True, cwd=d, stdout=subprocess.PIPE,
                           stderr=subprocess.STDOUT)
        res['applies'] = r.returncode == 0
        alarms = {}
        if res['applies']:
            for pid in PROPS:
                r = subprocess.run(
                    'VERIF_EVIDENCE_DIR=%s/.ev /venv/bin/python %s/run.py %s '
                    '--repo %s' % (d, VERIF, pid, d), shell=True,
                    stdout=subprocess.PIPE, stderr=subprocess.STDOUT)
                if r.returncode != 0:
                    alarms[pid] = {'rc': r.returncode, 'lines': [
                        l.strip()[:400] for l in r.stdout.decode().splitlines()
                        if l.startswith('  pgradd') or l.startswith('ANALYSIS')
                        or l.strip().startswith(('found', 'required'))][:12]}
        res['alarms'] = alarms
    finally:
        shutil.rmtree(d, ignore_errors=True)
    return res


def main():
    global PROPS
    args = sys.argv[1:]
    PROPS = PIDS
    if '--props' in args:
        i = args.index('--props')
        PROPS = args[i + 1].split(',')
        del args[i:i + 2]
    ids = sorted(x for x in os.listdir(BASE)
                 if os.path.exists(os.path.join(BASE, x, 'patch.diff')))
    if args:
        ids = [x for x in ids if any(a in x for a in args)]
    out = {}
    with ThreadPoolExecutor(max_workers=14) as ex:
        for res in ex.map(one, ids):
            out[res['id']] = res
            if PROPS == PIDS:
                json.dump(res, open(os.path.join(BASE, res['id'],
                                                 'result.json'), 'w'),
                          indent=1)
            print('%-8s %s' % (res['id'], ' '.join(
                '%s(%d)' % (p, a['rc']) for p, a in sorted(
                    res['alarms'].items())) or 'silent'))
    if PROPS == PIDS and not args:
        json.dump(dict((k, sorted(v['alarms'])) for k, v in out.items()),
                  open(os.path.join(VERIF, 'selftest',
                                    'BENIGN_AGENTS_RESULTS.json'), 'w'),
                  indent=1, sort_keys=True)
    n = sum(1 for v in out.values() if v['alarms'])
    print('%d refactorings, %d with an alarm' % (len(out), n))


if __name__ == '__main__':
    main()

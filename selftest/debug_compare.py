import sys
sys.path.insert(0,'/verif')
from pgsa.source import Repo
from pgsa import sym, refcmp, reviewed
root, rel, q = sys.argv[1:4]
repo=Repo(root, canonical=False)
f=repo.func(rel,q)
ref=reviewed.reference(rel,q)
ref=refcmp.rename_params(ref,f)
a=set(refcmp.signature(p) for p in sym.Summarizer().summarize(f))
b=set(refcmp.signature(p) for p in sym.Summarizer().summarize(ref))
print('equal', a==b, 'equiv', refcmp.equivalent(a,b), len(a), len(b))
bdd=refcmp.BDD(); eqs={}; refcmp._eq_atoms(a,eqs); refcmp._eq_atoms(b,eqs); care=bdd.apply("and", refcmp._care(bdd,eqs), refcmp._str_facts(bdd, a|b))
ca=refcmp.canon(a,bdd,care); cb=refcmp.canon(b,bdd,care)
import textwrap
def sh(oe):
    (out,eff)=oe
    return refcmp.show_sig((frozenset(),out,eff))
print('only in code:')
for oe,fn in ca-cb: print('   ', sh(oe)[:int(sys.argv[4]) if len(sys.argv)>4 else 1500])
print('only in ref:')
for oe,fn in cb-ca: print('   ', sh(oe)[:int(sys.argv[4]) if len(sys.argv)>4 else 1500])
# first point of difference between the (single) differing outcomes
A = sorted(repr(oe) for oe, fn in ca - cb)
B = sorted(repr(oe) for oe, fn in cb - ca)
for x, y in list(zip(A, B))[:int(__import__('os').environ.get('NDIFF','1'))]:
    i = next((i for i in range(min(len(x), len(y))) if x[i] != y[i]), None)
    if i is not None:
        print('first difference at', i)
        print('  code:', x[max(0, i-200):i+300])
        print('  ref :', y[max(0, i-200):i+300])
# a witness: an assignment of the predicate atoms on which the two differ
import itertools
atoms = set()
for sg in a | b:
    for lit in sg[0]:
        atoms.update(sym.bool_atoms(lit))
atoms = sorted(atoms, key=repr)
if len(atoms) <= 16 and not refcmp.equivalent(a, b):
    def ev(k, env):
        if k[0] == 'const': return bool(k[1])
        if k[0] == 'not': return not ev(k[1], env)
        if k[0] == 'and': return all(ev(x, env) for x in k[1])
        if k[0] == 'or': return any(ev(x, env) for x in k[1])
        at, pol = sym.atom_of(k)
        return env[at] if pol else not env[at]
    def bddval(u, env):
        while u is not True and u is not False:
            at, lo, hi = bdd.nodes[u]
            u = hi if env[at] else lo
        return u
    n = 0
    for vals in itertools.product([False, True], repeat=len(atoms)):
        env = dict(zip(atoms, vals))
        if not bddval(care, env):
            continue
        ra = set((sg[1], sg[2]) for sg in a if all(ev(l, env) for l in sg[0]))
        rb = set((sg[1], sg[2]) for sg in b if all(ev(l, env) for l in sg[0]))
        if ra != rb:
            print('WITNESS:')
            for at in atoms:
                print('   ', env[at], sym.show(at)[:200])
            print('  code ->', [refcmp.show_sig((frozenset(),) + x)[:200] for x in ra])
            print('  ref  ->', [refcmp.show_sig((frozenset(),) + x)[:200] for x in rb])
            n += 1
            if n >= 2: break

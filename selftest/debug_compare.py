import sys
sys.path.insert(0,'/verif')
from pgsa.source import Repo
from pgsa import sym, refcmp, reviewed
root, rel, q = sys.argv[1:4]
repo=Repo(root, canonical=False)
f=repo.func(rel,q)
ref=reviewed.reference(rel,q)
ref=refcmp.rename_params(ref,f)
a=set(refcmp.signature(p) for p in sym.Summarizer().summarize(f))
b=set(refcmp.signature(p) for p in sym.Summarizer().summarize(ref))
print('equal', a==b, 'equiv', refcmp.equivalent(a,b), len(a), len(b))
bdd=refcmp.BDD(); eqs={}; refcmp._eq_atoms(a,eqs); refcmp._eq_atoms(b,eqs); care=refcmp._care(bdd,eqs)
ca=refcmp.canon(a,bdd,care); cb=refcmp.canon(b,bdd,care)
import textwrap
def sh(oe):
    (out,eff)=oe
    return refcmp.show_sig((frozenset(),out,eff))
print('only in code:')
for oe,fn in ca-cb: print('   ', sh(oe)[:int(sys.argv[4]) if len(sys.argv)>4 else 1500])
print('only in ref:')
for oe,fn in cb-ca: print('   ', sh(oe)[:int(sys.argv[4]) if len(sys.argv)>4 else 1500])
# first point of difference between the (single) differing outcomes
A = sorted(repr(oe) for oe, fn in ca - cb)
B = sorted(repr(oe) for oe, fn in cb - ca)
for x, y in list(zip(A, B))[:int(__import__('os').environ.get('NDIFF','1'))]:
    i = next((i for i in range(min(len(x), len(y))) if x[i] != y[i]), None)
    if i is not None:
        print('first difference at', i)
        print('  code:', x[max(0, i-200):i+300])
        print('  ref :', y[max(0, i-200):i+300])

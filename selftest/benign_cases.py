#!/venv/bin/python
"""Behaviour-preserving variants: every check must stay silent on each.

Each case is a list of (file, old text, new text) edits applied to a scratch
copy of /repo's working tree."""
import os, shutil, subprocess, sys, tempfile, json

CASES = {
 'rename-locals-and-flip-comparisons-in-get_HoRT': [
  ('pgradd/ThermoChem/raw_data.py',
   """        rH = self.ND_H_ref*T_a

        if T_a <= min_T:
            if T_b <= min_T:
                return (rH + self.min_ND_Cp*(T_b - T_a))/T
            rH += self.min_ND_Cp*(min_T - T_a)
            T_a = min_T
        elif T_b <= min_T:
            rH += self.min_ND_Cp*(T_b - min_T)
            T_b = min_T
""",
   """        acc = T_a*self.ND_H_ref

        if min_T >= T_a:
            if min_T >= T_b:
                return (self.min_ND_Cp*(T_b - T_a) + acc)/T
            acc = acc + (min_T - T_a)*self.min_ND_Cp
            T_a = min_T
        elif min_T >= T_b:
            acc += self.min_ND_Cp*(T_b - min_T)
            T_b = min_T
        rH = acc
""")],
 'estimator-sum-as-accumulate-loop': [
  ('pgradd/ThermoChem/group_data.py',
   """        return sum((count*correlation.get_CpoR(T)
                    for (correlation, count) in self.correlations))
""",
   """        total = 0
        for (corr, n) in self.correlations:
            total += corr.get_CpoR(T)*n
        return total
""")],
 'check_range-operands-swapped': [
  ('pgradd/ThermoChem/base.py',
   "        if np.any(T < self.range[0]) or np.any(T > self.range[1]):",
   "        if np.any(self.range[1] < T) or np.any(self.range[0] > T):")],
 'messages-changed': [
  ('pgradd/ThermoChem/incomplete.py',
   '"Cannot evaluate ND_H: no enthalpy data is available"',
   '"ND_H cannot be evaluated (no enthalpy data)"'),
  ('pgradd/Units/db.py', "'Unknown units: %r' % name", "'No such unit: %r' % (name,)"),
  ('pgradd/RINGParser/Parser.py', "stream.error('<digit>')", "stream.error('<a digit>')"),
  ('pgradd/GroupAdd/Library.py', "'Multiple definitions of group %s' % group", "'Group %s is defined twice' % group")],
 'lookup-with-temporaries': [
  ('pgradd/Units/db.py',
   """        if name[1:] in self.db and name[:1] in self.prefixes:
            return self.prefixes[name[:1]]*self.db[name[1:]]
""",
   """        pre, rest = name[:1], name[1:]
        if rest in self.db and pre in self.prefixes:
            return self.prefixes[pre]*self.db[rest]
""")],
 'quantity-add-renamed': [
  ('pgradd/Units/qty.py',
   """        return self._build(self_value + other_value, self_units)

    def __radd__""",
   """        total = other_value + self_value
        return self._build(total, self_units)

    def __radd__""")],
 'assign-group-explicit-increment': [
  ('pgradd/GroupAdd/Scheme.py',
   "                groups[group.name] += 1\n",
   "                groups[group.name] = groups[group.name] + 1\n")],
 'remap-iterates-list-of-dict': [
  ('pgradd/GroupAdd/Scheme.py',
   "            for descriptor in list(descriptors.keys()):",
   "            for descriptor in list(descriptors):")],
 'debug-prints-added': [
  ('pgradd/GroupAdd/Library.py',
   "        estimator_type = self._property_set_estimator_types[property_set_name]\n",
   "        estimator_type = self._property_set_estimator_types[property_set_name]\n        print('estimating with', estimator_type)\n"),
  ('pgradd/ThermoChem/raw_data.py',
   "        self.check_range(T)\n        T_a = self.T_ref\n        T_b = T\n        min_T = self.min_T\n        max_T = self.max_T\n\n        ND_S = self.ND_S_ref\n",
   "        self.check_range(T)\n        T_a = self.T_ref\n        T_b = T\n        min_T = self.min_T\n        max_T = self.max_T\n\n        ND_S = self.ND_S_ref\n        print('S at', T)\n")],
 'canonical-name-sorted-keys': [
  ('pgradd/GroupAdd/Group.py',
   "        for name in sorted(psg_counts):",
   "        for name in sorted(psg_counts.keys()):")],
 'update-reordered-commit': [
  ('pgradd/ThermoChem/incomplete.py',
   """        self.set_range(data_range)
        self.T_ref = T_ref
        self.ND_H_ref = ND_H_ref
        self.ND_S_ref = ND_S_ref
        self.ND_Cp_data = ND_Cp_data
        self._setup_correlation()""",
   """        self.set_range(data_range)
        self.T_ref = T_ref
        self.ND_H_ref = ND_H_ref
        self.ND_S_ref = ND_S_ref
        self.ND_Cp_data = ND_Cp_data
        # rebuild the interpolant
        self._setup_correlation()""")],
}


def main():
    only = sys.argv[1:]
    results = {}
    for name, edits in CASES.items():
        if only and name not in only:
            continue
        d = tempfile.mkdtemp(prefix='pgsa-benign.')
        subprocess.check_call('rsync -a --exclude .git --exclude __pycache__ /repo/ %s/' % d, shell=True)
        ok_edit = True
        for f, old, new in edits:
            p = os.path.join(d, f)
            s = open(p).read()
            if old not in s:
                ok_edit = False
                print('EDIT-FAILED', name, f)
                continue
            open(p, 'w').write(s.replace(old, new, 1))
        # the variant must still compile
        rc = subprocess.call('/venv/bin/python -m compileall -q %s/pgradd >/dev/null' % d, shell=True)
        alarms = []
        for i in range(1, 21):
            pid = 'C%02d' % i
            r = subprocess.run('VERIF_EVIDENCE_DIR=%s/.ev /venv/bin/python /verif/run.py %s --repo %s' % (d, pid, d),
                               shell=True, stdout=subprocess.PIPE, stderr=subprocess.STDOUT)
            if r.returncode != 0:
                lines = [l for l in r.stdout.decode().splitlines() if l.startswith('  pgradd') or l.startswith('ANALYSIS')]
                alarms.append((pid, r.returncode, lines[:3]))
        shutil.rmtree(d)
        results[name] = {'edits_applied': ok_edit, 'compiles': rc == 0, 'alarms': alarms}
        print(name, 'OK' if (ok_edit and not alarms) else 'ALARM', alarms)
    json.dump(results, open(os.path.join(os.path.dirname(__file__), 'BENIGN_RESULTS.json'), 'w'), indent=1)
    bad = [n for n, r in results.items() if r['alarms'] or not r['edits_applied']]
    print('%d benign cases, %d with alarms' % (len(results), len(bad)))
    return 1 if bad else 0


if __name__ == '__main__':
    sys.exit(main())

#!/venv/bin/python
"""Benign variant: every module rewritten through ast.unparse (comments gone,
layout, quoting, parenthesisation and line numbers all changed; semantics
unchanged).  All checks must stay silent."""
import ast, os, shutil, subprocess, sys, tempfile
d = tempfile.mkdtemp(prefix='pgsa-benign.')
subprocess.check_call('rsync -a --exclude .git --exclude __pycache__ /repo/ %s/' % d, shell=True)
n = 0
for dp, dn, fn in os.walk(os.path.join(d, 'pgradd')):
    if 'tests' in dp:
        continue
    for f in fn:
        if f.endswith('.py'):
            p = os.path.join(dp, f)
            src = open(p).read()
            open(p, 'w').write(ast.unparse(ast.parse(src)) + '\n')
            n += 1
print('rewrote', n, 'modules in', d)
bad = 0
for i in range(1, 21):
    pid = 'C%02d' % i
    r = subprocess.run('VERIF_EVIDENCE_DIR=%s/.ev /venv/bin/python /verif/run.py %s --repo %s' % (d, pid, d),
                       shell=True, stdout=subprocess.PIPE, stderr=subprocess.STDOUT)
    out = r.stdout.decode()
    if r.returncode != 0:
        bad += 1
        print(pid, 'rc', r.returncode)
        print('\n'.join(l for l in out.splitlines() if not l.startswith('KNOWN'))[:1500])
shutil.rmtree(d)
print('benign reflow: %d checks raised an alarm' % bad)
sys.exit(1 if bad else 0)

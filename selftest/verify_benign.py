#!/venv/bin/python
"""Run every check on a behaviour-preserving refactoring delivered by an
independent agent: usage verify_benign.py <dir with patch.diff> <id>.
Stores patch + result under selftest/benign_agents/<id>/."""
import json, os, shutil, subprocess, sys, tempfile
VERIF = os.path.dirname(os.path.dirname(os.path.abspath(__file__)))
src, bid = sys.argv[1], sys.argv[2]
d = tempfile.mkdtemp(prefix='pgsa-ben.')
res = {'id': bid}
try:
    subprocess.check_call('rsync -a --exclude .git --exclude __pycache__ --exclude out /repo/ %s/' % d, shell=True)
    r = subprocess.run('patch -p1 -s < %s/patch.diff' % src, shell=True, cwd=d, stdout=subprocess.PIPE, stderr=subprocess.STDOUT)
    res['applies'] = r.returncode == 0
    if res['applies']:
        r = subprocess.run('/venv/bin/python -m pytest -q -p no:cacheprovider --timeout=900 -x 2>&1 | tail -2', shell=True, cwd=d, stdout=subprocess.PIPE)
        res['tests_pass'] = '41 passed' in r.stdout.decode()
        alarms = {}
        for i in range(1, 21):
            pid = 'C%02d' % i
            r = subprocess.run('VERIF_EVIDENCE_DIR=%s/.ev /venv/bin/python %s/run.py %s --repo %s' % (d, VERIF, pid, d), shell=True, stdout=subprocess.PIPE, stderr=subprocess.STDOUT)
            if r.returncode != 0:
                alarms[pid] = {'rc': r.returncode, 'lines': [l.strip()[:260] for l in r.stdout.decode().splitlines() if l.startswith('  pgradd') or l.startswith('ANALYSIS')][:4]}
        res['alarms'] = alarms
finally:
    shutil.rmtree(d, ignore_errors=True)
out = os.path.join(VERIF, 'selftest', 'benign_agents', bid)
os.makedirs(out, exist_ok=True)
shutil.copy(os.path.join(src, 'patch.diff'), os.path.join(out, 'patch.diff'))
if os.path.exists(os.path.join(src, 'notes.md')):
    shutil.copy(os.path.join(src, 'notes.md'), os.path.join(out, 'notes.md'))
json.dump(res, open(os.path.join(out, 'result.json'), 'w'), indent=1)
print(json.dumps({'id': bid, 'applies': res.get('applies'), 'tests': res.get('tests_pass'), 'alarms': sorted(res.get('alarms', {}))}))

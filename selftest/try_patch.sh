#!/bin/bash
# usage: try_patch.sh <patch.diff | -R:<commit>> <Cxx> [tier]
# Applies a patch to a scratch copy of /repo's working tree (never to /repo),
# runs the property's checker against the copy, removes the copy.
set -u
PATCH="$1"; PID="$2"; TIER="${3:-quick}"
D=$(mktemp -d /tmp/pgsa-scratch.XXXXXX)
rsync -a --exclude .git --exclude __pycache__ /repo/ "$D/"
cd "$D"
if [[ "$PATCH" == -R:* ]]; then
  git -C /repo show "${PATCH#-R:}" | patch -p1 -R -s || { echo "PATCH-FAILED"; rm -rf "$D"; exit 3; }
else
  patch -p1 -s < "$PATCH" || { echo "PATCH-FAILED"; rm -rf "$D"; exit 3; }
fi
VERIF_EVIDENCE_DIR="$D/.evidence" /venv/bin/python /verif/run.py "$PID" --tier "$TIER" --repo "$D"
rc=$?
rm -rf "$D"
exit $rc

#!/bin/bash
# usage: try_patch.sh <patch.diff | -R:<commit>> <Cxx> [tier]
# Applies a patch to a scratch copy of /repo (never to /repo itself), or
# reverts one commit in a scratch worktree, runs the property's checker
# against the copy, removes the copy.
set -u
PATCH="$1"; PID="$2"; TIER="${3:-quick}"
D=$(mktemp -d /tmp/pgsa-scratch.XXXXXX)
if [[ "$PATCH" == -R:* ]]; then
  rmdir "$D"
  git -C /repo worktree add -q --detach "$D" HEAD || exit 3
  git -C "$D" revert -n "${PATCH#-R:}" >/dev/null 2>&1 || { echo "PATCH-FAILED"; git -C /repo worktree remove --force "$D"; exit 3; }
  WT=1
else
  rsync -a --exclude .git --exclude __pycache__ /repo/ "$D/"
  ( cd "$D" && patch -p1 -s < "$PATCH" ) || { echo "PATCH-FAILED"; rm -rf "$D"; exit 3; }
  WT=0
fi
VERIF_EVIDENCE_DIR="$D/.evidence" /venv/bin/python /verif/run.py "$PID" --tier "$TIER" --repo "$D"
rc=$?
if [ $WT = 1 ]; then git -C /repo worktree remove --force "$D"; else rm -rf "$D"; fi
exit $rc

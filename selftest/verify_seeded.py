#!/venv/bin/python
"""Confirm a seeded change and record it under /verif/seeded/<id>/.

usage: verify_seeded.py <source dir with patch.diff, demo.py, notes.md>
                        <property id> <seed id>

Steps (all in a scratch copy of /repo's working tree, removed afterwards):
 1. demo on the clean copy            -> must PASS (exit 0)
 2. apply patch.diff                  -> must apply
 3. pinned test suite                 -> must pass completely
 4. demo on the patched copy          -> must FAIL (exit != 0)
 5. the property's checker (quick) against the patched copy -> recorded
Nothing is applied to /repo itself.
"""
import json
import os
import shutil
import subprocess
import sys
import tempfile
import time

VERIF = os.path.dirname(os.path.dirname(os.path.abspath(__file__)))


def sh(cmd, cwd=None, timeout=900):
    p = subprocess.run(cmd, shell=True, cwd=cwd, stdout=subprocess.PIPE,
                       stderr=subprocess.STDOUT, timeout=timeout)
    return p.returncode, p.stdout.decode('utf-8', 'replace')


def main():
    srcdir, pid, sid = sys.argv[1], sys.argv[2], sys.argv[3]
    also = sys.argv[4:]          # further property checkers to try
    d = tempfile.mkdtemp(prefix='pgsa-seed.')
    meta = {'id': sid, 'property': pid, 'source': srcdir,
            'confirmed_at': time.strftime('%Y-%m-%dT%H:%M:%SZ',
                                          time.gmtime())}
    try:
        sh('rsync -a --exclude .git --exclude __pycache__ --exclude out '
           '/repo/ %s/' % d)
        # demos locate the package either through the current directory or
        # through their own position (<root>/out/<m>/demo.py): give both
        os.makedirs(os.path.join(d, 'out', 'm'), exist_ok=True)
        demo_src = os.path.join(srcdir, 'demo.py')
        demo = os.path.join(d, 'out', 'm', 'demo.py')
        shutil.copy(demo_src, demo)
        rc, out = sh('/venv/bin/python %s' % demo, cwd=d)
        meta['demo_clean_rc'] = rc
        meta['demo_clean_tail'] = out[-300:]
        rc, out = sh('patch -p1 -s < %s' % os.path.join(srcdir,
                                                        'patch.diff'), cwd=d)
        meta['patch_applies'] = rc == 0
        if rc != 0:
            meta['patch_output'] = out[-400:]
        else:
            rc, out = sh('/venv/bin/python -m pytest -q -p no:cacheprovider '
                         '--timeout=900 -x 2>&1 | tail -3', cwd=d)
            meta['tests_tail'] = out.strip()[-200:]
            meta['tests_pass'] = '41 passed' in out and 'failed' not in out
            rc, out = sh('/venv/bin/python %s' % demo, cwd=d)
            meta['demo_patched_rc'] = rc
            meta['demo_patched_tail'] = out[-400:]
            checks = {}
            for p in [pid] + also:
                rc, out = sh('VERIF_EVIDENCE_DIR=%s/.ev /venv/bin/python '
                             '%s/run.py %s --tier quick --repo %s'
                             % (d, VERIF, p, d))
                checks[p] = {
                    'rc': rc,
                    'violations': [l for l in out.splitlines()
                                   if l.startswith('  pgradd')][:6]}
            meta['checks'] = checks
        meta['confirmed'] = bool(
            meta.get('patch_applies') and meta.get('tests_pass')
            and meta.get('demo_clean_rc') == 0
            and meta.get('demo_patched_rc') not in (0, None))
        meta['detected_by_own_check'] = bool(
            meta.get('checks', {}).get(pid, {}).get('rc') == 1)
    finally:
        shutil.rmtree(d, ignore_errors=True)
    meta['how_to_run_demo'] = ('copy demo.py to <scratch copy of /repo>/out/'
                               'm/demo.py and run it with the scratch copy '
                               'as current directory')
    notes = ''
    np_ = os.path.join(srcdir, 'notes.md')
    if os.path.exists(np_):
        notes = open(np_).read()
    meta['breaks'] = notes[:1500]
    meta['ran'] = ['demo.py on clean scratch copy', 'patch -p1',
                   'pytest (41 pinned tests)', 'demo.py on patched copy',
                   'run.py %s --tier quick --repo <scratch>' % pid]
    if meta['confirmed']:
        out_dir = os.path.join(VERIF, 'seeded', sid)
        os.makedirs(out_dir, exist_ok=True)
        shutil.copy(os.path.join(srcdir, 'patch.diff'),
                    os.path.join(out_dir, 'patch.diff'))
        shutil.copy(os.path.join(srcdir, 'demo.py'),
                    os.path.join(out_dir, 'demo.py'))
        with open(os.path.join(out_dir, 'meta.json'), 'w') as f:
            json.dump(meta, f, indent=1)
    print(json.dumps({k: meta.get(k) for k in (
        'id', 'confirmed', 'detected_by_own_check', 'patch_applies',
        'tests_pass', 'demo_clean_rc', 'demo_patched_rc')}))
    if not meta['confirmed']:
        print(json.dumps(meta, indent=1)[:1500])


if __name__ == '__main__':
    main()

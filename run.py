#!/venv/bin/python
"""Driver: run.py <Cxx> [--tier quick|thorough] [--repo DIR]

Decides one property by static analysis of the repository's current source.
Exit 0: every obligation discharged (known findings printed);
exit 1: `VIOLATION property=<id> replay=<path>`;
exit 2: `ANALYSIS-ERROR property=<id> reason=...` (fail-closed).
"""
import argparse
import importlib
import os
import sys
import traceback

HERE = os.path.dirname(os.path.abspath(__file__))
sys.path.insert(0, HERE)


def main(argv=None):
    ap = argparse.ArgumentParser()
    ap.add_argument('pid')
    ap.add_argument('--tier', default=os.environ.get('VERIF_TIER', 'quick'),
                    choices=['quick', 'thorough'])
    ap.add_argument('--repo', default=None)
    ap.add_argument('--replay', default=None,
                    help='replay file of an earlier violation: re-evaluates '
                         'the property and reports whether that finding '
                         'is still present')
    args = ap.parse_args(argv)
    if args.repo:
        os.environ['VERIF_REPO'] = args.repo
    from pgsa import report
    from pgsa.source import Repo, AnalysisError
    pid = args.pid.upper()
    try:
        mod = importlib.import_module('pgsa.props.%s' % pid.lower())
    except ImportError as exc:
        return report.analysis_error(pid, 'no checker module: %s' % exc)
    chk = None
    try:
        repo = Repo(os.environ.get('VERIF_REPO', '/repo'))
        chk = report.Check(pid, args.tier, repo, mod.EXPLANATION,
                           mod.NOT_DECIDED, mod.ASSUMPTIONS)
        from pgsa import sweeps as _sw
        _sw.static_binding(chk, repo, scope=_sw.BINDING_SCOPE.get(pid))
        mod.run(chk, repo, args.tier)
        if args.tier == 'thorough':
            from pgsa import sweeps
            if hasattr(mod, 'thorough'):
                mod.thorough(chk, repo)
            sweeps.definite_assignment(chk, repo)
            sweeps.py2_dunders(chk, repo)
            sweeps.py2_api(chk, repo)
            sweeps.format_arity(chk, repo)
            sweeps.purity_inventory(chk, repo)
            sweeps.reviewed_audit(chk, repo)
        rc = chk.finish()
        if args.replay:
            import json
            with open(args.replay) as f:
                want = json.load(f)['finding']['id']
            still = any(f['id'] == want for f in chk.findings)
            print('REPLAY %s: finding %s' % (args.replay,
                                             'still present' if still
                                             else 'no longer present'))
            return 1 if still else 0
        return rc
    except AnalysisError as exc:
        # obligations that already failed before an anchor went missing are
        # violations in their own right: report them (exit 1) together with
        # the analysis error; with none, the run is analysis-broken (exit 2)
        if chk is not None and chk.has_new_findings():
            chk.infos.append('analysis stopped early: %s' % exc)
            chk.deferred = []
            rc = chk.finish()
            report.analysis_error(pid, str(exc).replace('\n', ' '))
            return rc
        return report.analysis_error(pid, str(exc).replace('\n', ' '))
    except Exception:
        traceback.print_exc()
        if chk is not None and chk.has_new_findings():
            chk.deferred = []
            rc = chk.finish()
            report.analysis_error(pid, 'internal checker error after the '
                                       'violations above (traceback above)')
            return rc
        return report.analysis_error(pid, 'internal checker error (traceback '
                                          'above)')


if __name__ == '__main__':
    sys.exit(main())

#!/venv/bin/python
"""Record reviewed references: tools/snapshot_reviewed.py <relpath> [qualname..]

Without qualnames every function/method of the module is recorded (nested
functions included, keyed by their dotted path).  Run by hand after reading
the functions against the property they serve; never run by a check."""
import ast
import json
import os
import sys

HERE = os.path.dirname(os.path.dirname(os.path.abspath(__file__)))
sys.path.insert(0, HERE)
from pgsa.source import Repo, qual  # noqa: E402
from pgsa import sym  # noqa: E402

STORE = os.path.join(HERE, 'reviewed', 'functions.json')


def main():
    rel = sys.argv[1]
    wanted = sys.argv[2:]
    repo = Repo(canonical=False)
    m = repo.mod(rel)
    os.makedirs(os.path.dirname(STORE), exist_ok=True)
    data = {}
    if os.path.exists(STORE):
        data = json.load(open(STORE))
    n = 0
    commit = os.popen('git -C %s rev-parse --short HEAD' % repo.root).read(
        ).strip()
    seen = {}
    for node in ast.walk(m.tree):
        if isinstance(node, ast.FunctionDef):
            seen[qual(node)] = node      # last definition wins
    # class-body aliases (a = b) are resolved by Repo.func at check time
    for q, node in sorted(seen.items()):
        if wanted and q not in wanted:
            continue
        try:
            sym.Summarizer().summarize(node)
        except sym.Unmodelled as exc:
            print('SKIP (unmodelled: %s): %s' % (exc, q))
            continue
        src_ = ast.get_source_segment(m.src, node, padded=True)
        data['%s::%s' % (rel, q)] = {'source': src_, 'repo_commit': commit}
        n += 1
    with open(STORE, 'w') as f:
        json.dump(data, f, indent=1, sort_keys=True)
        f.write('\n')
    print('recorded %d function(s) of %s at %s' % (n, rel, commit))


if __name__ == '__main__':
    main()

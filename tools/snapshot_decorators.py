#!/venv/bin/python
"""Record the decorator list of every reviewed function:
tools/snapshot_decorators.py   (writes reviewed/decorators.json)

Run by hand together with snapshot_reviewed.py; never run by a check."""
import ast
import json
import os
import sys

HERE = os.path.dirname(os.path.dirname(os.path.abspath(__file__)))
sys.path.insert(0, HERE)
from pgsa.source import Repo, qual  # noqa: E402

OUT = os.path.join(HERE, 'reviewed', 'decorators.json')


def main():
    repo = Repo(canonical=False)
    store = json.load(open(os.path.join(HERE, 'reviewed', 'functions.json')))
    data = {}
    for m in repo.all_mods():
        seen = {}
        for node in ast.walk(m.tree):
            if isinstance(node, ast.FunctionDef):
                seen[qual(node)] = node
        for q, node in seen.items():
            k = '%s::%s' % (m.rel, q)
            if k in store and node.decorator_list:
                data[k] = [ast.unparse(d) for d in node.decorator_list]
    json.dump(data, open(OUT, 'w'), indent=1, sort_keys=True)
    print('recorded decorators of %d function(s)' % len(data))
    from pgsa.sweeps import class_ancestors
    anc = class_ancestors(repo, known=None)
    json.dump(anc, open(os.path.join(HERE, 'reviewed', 'classes.json'), 'w'),
              indent=1, sort_keys=True)
    print('recorded ancestors of %d class(es)' % len(anc))


if __name__ == '__main__':
    main()

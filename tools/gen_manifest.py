#!/venv/bin/python
"""Regenerate MANIFEST.json from the checker modules that exist.

A property with a module pgsa/props/cXX.py is claimed; the others are listed
under not_applicable with the reason recorded in NOT_YET below (kept honest:
"no checker built yet" is a reason too, and is replaced when one exists)."""
import importlib
import json
import os
import sys

HERE = os.path.dirname(os.path.dirname(os.path.abspath(__file__)))
sys.path.insert(0, HERE)

TECH = {
    'C01': 'polynomial normal form of the estimator methods + guard-dominance '
           'over enumerated paths + who-may-write and purity (effect) scans',
    'C02': 'AST path/loop-shape rules on the decomposition stages, sibling '
           'comparison of remap blocks, canonical-key typing of dedup sets',
    'C03': 'definite-assignment over enumerated paths, canonical-key typing, '
           'loop-carried read/write dependence scan, effect (cache) scan',
    'C04': 'complete-traversal loop rules, per-atom locality who-may-call, '
           'grammar-IR audit of shipped patterns',
    'C05': 'mirror (sibling) comparison of polynomial normal forms over '
           'enumerated paths; stale-parameter dataflow; interval evaluation '
           'of the spline-order expression',
    'C06': 'must-pass-through of the range check over enumerated paths; '
           'decision tables of the range predicates; handler discipline',
    'C07': 'polynomial normal form of the dimensional getters and an '
           'algebraic identity check in the checker\'s own algebra',
    'C08': 'negation-flip decision tables per constraint evaluator; '
           'grammar/reader/evaluator vocabulary table agreement; def-use '
           'completeness of the match pipeline',
    'C09': 'grammar IR lifted from the AST: closure, nullability, '
           'left-recursion, end-of-input; exception-escape analysis over the '
           'reader call graph; scanner-loop progress rules',
    'C10': 'unit tables lifted from the AST and evaluated by an independent '
           'exact-rational evaluator against SI reference definitions; '
           'guard/use agreement and layering rules on the parser',
    'C11': 'special-method/operator table agreement in normal form; shared '
           'guard decision table; dimension-algebra normal forms',
    'C12': 'dimension typing of the loader from its own schema; path rules '
           'on the quantity helpers; three-way decision table of the loader',
    'C13': 'commit-after-last-raise over enumerated paths; copy-not-alias '
           'effect rule; conflict-guard dominance per datum',
    'C14': 'exhaustive static audit of the shipped YAML databases against '
           'the grammar IR and their own cross-references; sibling rule on '
           'the name-versus-path predicate',
    'C15': 'whole-package effect inventory: module/class state, mutable '
           'defaults, cross-call attribute channels, purity of evaluators, '
           'copy-before-mutate ownership',
    'C16': 'reader/grammar table agreement, antisymmetry of electron-balance '
           'increments in normal form, who-may-index on edits, balance check '
           'dominance',
    'C17': 'work-list typestate rules: transfer, insertion guard covering '
           'both lists, filter-before-insert ordering',
    'C18': 'writer/reader key and form table agreement, inverse dimensional '
           'algebra in normal form, numeric provenance of formatted values',
    'C19': 'hash/eq field agreement, canonical-name dataflow, delimiter '
           'table agreement between split regex and formatter, immutability '
           'who-may-write scan',
    'C20': 'placement-by-index path rule, non-commutative normal form of the '
           'quadratic form, sibling agreement of the three SE methods, shape '
           'typing',
}


def main():
    props = [json.loads(l) for l in open(os.path.join(HERE,
                                                      'properties.jsonl'))]
    checks, na = [], []
    for p in props:
        pid = p['id']
        path = os.path.join(HERE, 'pgsa', 'props', pid.lower() + '.py')
        if os.path.exists(path):
            mod = importlib.import_module('pgsa.props.' + pid.lower())
            checks.append({
                'property_id': pid,
                'quick_cmd': '/venv/bin/python run.py %s --tier quick' % pid,
                'thorough_cmd': '/venv/bin/python run.py %s --tier thorough'
                                % pid,
                'evidence_file': '/verif/evidence/%s.json' % pid,
                'replay_cmd_template': '/venv/bin/python run.py %s --replay '
                                       '{path}' % pid,
                'engine': 'pgsa',
                'level_claimed': {
                    'category': 'other',
                    'text': 'Static analysis of the current source: '
                            + mod.EXPLANATION + ' This decides the '
                            'structural clauses named here on every path of '
                            'the analysed functions, not the numerical '
                            'behaviour.',
                    'design_ref': 'DESIGN.md section 4, ' + pid,
                },
                'level_note': 'Not decided: ' + mod.NOT_DECIDED
                              + '. Trusted: ' + '; '.join(mod.ASSUMPTIONS),
                'technique': 'static analysis: ' + TECH[pid],
            })
        else:
            na.append({'property_id': pid,
                       'reason': 'no static checker is registered for this '
                                 'property in this revision (see DESIGN.md '
                                 'section 4 for the planned rules); nothing '
                                 'is claimed'})
    man = {
        'version': 1,
        'setup_cmd': '/venv/bin/python -c "import ast, yaml, numpy, '
                     'networkx" && /venv/bin/python -m compileall -q pgsa '
                     'run.py',
        'hooks': {
            'guard': 'PGRADD_VERIF',
            'enable': 'none needed: the checks read the source of /repo and '
                      'execute nothing from it; no hook or instrumentation '
                      'was added to the repository',
            'baseline_off_cmd': 'cd /repo && /venv/bin/python -m pytest -ra '
                                '-q -p no:cacheprovider --timeout=900 '
                                '--continue-on-collection-errors',
            'source_commits': [],
            'add_only': True,
        },
        'engines': [{
            'name': 'pgsa',
            'path': '/verif/pgsa',
            'serves_properties': [c['property_id'] for c in checks],
            'kind_free_text': 'repository-specific static analysis over '
                              'Python ast: path summaries with polynomial/'
                              'boolean normal forms, effect analysis, '
                              'grammar IR, dimension algebra, data audit',
        }],
        'checks': checks,
        'not_applicable': na,
        'notes': 'Every check inspects /repo (or $VERIF_REPO) at run time, '
                 'imports nothing from it, and exits 2 with ANALYSIS-ERROR '
                 'when an anchor it needs has vanished. Genuine defects '
                 'found while building are repaired by fix: commits in /repo '
                 'or listed in known_findings.json.',
    }
    with open(os.path.join(HERE, 'MANIFEST.json'), 'w') as f:
        json.dump(man, f, indent=1)
        f.write('\n')
    print('claimed:', ' '.join(c['property_id'] for c in checks))
    print('not_applicable:', ' '.join(n['property_id'] for n in na))


if __name__ == '__main__':
    main()

#!/bin/bash
# run every registered check (quick or thorough) in parallel; summary at end
TIER="${1:-quick}"
cd "$(dirname "$0")"
ls pgsa/props/c*.py | sed 's/.*\/c\([0-9]*\)\.py/C\1/' | xargs -P 16 -I{} sh -c "/venv/bin/python run.py {} --tier $TIER > /tmp/pgsa-run-{}.log 2>&1; echo {} rc=\$?"

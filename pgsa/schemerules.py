"""Rules on GroupAdd/Scheme.py shared by C02, C03, C04 (and C15)."""
import ast
from fractions import Fraction

from . import sym, reviewed
from .match import SELF, params, is_call, loop_has_exit, whole_iter
from .effects import FuncEffects, describe
from .source import AnalysisError, dotted, src
from .sym import show, Poly

SCH = 'pgradd/GroupAdd/Scheme.py'
MQ = 'pgradd/RDkitWrapper/MolQuery.py'
MQR = 'pgradd/RINGParser/MolQueryRead.py'

STAGES = ['Chem.AddHs', 'Chem.Kekulize', '_aromatization_Benson',
          'self._AssignCenterPattern', 'self._AssignGroup',
          'self._AssignDescriptor']


def call_name(k):
    return sym.Evaluator()._call_name(k[1]) if is_call(k) else None


def supported_paths(f):
    """Paths of GetDescriptors for the two documented input forms (a path on
    which both isinstance tests fail is outside the documented inputs)."""
    mp = params(f)[1]
    out = []
    for p in sym.summarize(f):
        forms = [a for a, v in p.facts().items()
                 if a[0] == 'truthy' and is_call(a[1])
                 and a[1][1] == ('name', 'isinstance') and v]
        if not forms:
            continue
        out.append((p, src_form(forms[0])))
    return out


def src_form(atom):
    t = atom[1][2][1]
    return 'str' if t == ('name', 'str') else 'mol'


def stage_order(chk, repo, rule):
    f = repo.func(SCH, 'GroupAdditivityScheme.GetDescriptors')
    n = 0
    for p, form in supported_paths(f):
        if p.outcome[0] != 'return':
            continue
        n += 1
        names = [call_name(c) for c in p.calls()]
        seq = [x for x in names if x in STAGES]
        # weak-bond rewrite loop sits between Kekulize and aromatisation
        loop_pos = [i for i, e in enumerate(p.trace) if e[0] == 'loop']
        arom_pos = [i for i, e in enumerate(p.trace) if e[0] == 'call'
                    and call_name(e[1]) == '_aromatization_Benson']
        kek_pos = [i for i, e in enumerate(p.trace) if e[0] == 'call'
                   and call_name(e[1]) == 'Chem.Kekulize']
        ok = seq == STAGES and loop_pos and arom_pos and kek_pos and \
            kek_pos[-1] < loop_pos[0] < arom_pos[0]
        chk.ob(rule, bool(ok), SCH, f, key='stage-order:' + form,
               what='input form %s: AddHs, Kekulize, weak-bond rewrite, '
                    'aromatic perception, centre assignment, groups, '
                    'correction descriptors, in this order' % form,
               found=' -> '.join(seq))
        # the result derives from both groups and descriptors
        v = p.outcome[1]
        g = [c for c in p.calls() if call_name(c) == 'self._AssignGroup']
        d = [c for c in p.calls() if call_name(c) == 'self._AssignDescriptor']
        # the correction descriptors are *added* to a copy of the groups (a
        # descriptor and a group may share a name: `update` would let the
        # descriptor count replace the group count)
        ok2 = len(g) == 1 and len(d) == 1 and is_call(v) \
            and v == ('call', ('attr', g[0], 'copy'), (), ())
        found = show(v)[:120]
        if ok2:
            loops = [e for e in p.trace if e[0] == 'loop'
                     and e[1][0][1] == d[0]]
            bad_calls = [e for e in p.trace if e[0] == 'expr' and is_call(
                e[1]) and e[1][1][0] == 'attr' and e[1][1][1] == v]
            ok2 = len(loops) == 1 and not bad_calls
            found = '%d loop(s) over the descriptors, other calls on the ' \
                    'result: %s' % (len(loops), [show(e[1])[:40]
                                                 for e in bad_calls])
            if ok2:
                bv = loops[0][1][0][0]
                bodies = loops[0][2]
                stores = [e for e in bodies[0][0] if e[0] in (
                    'store', 'expr', 'cond', 'loop')] if len(
                    bodies) == 1 else []
                want_t = ('sub', v, bv)
                want_v = (sym.Poly.atom(('call', ('attr', v, 'get'),
                                         (bv, ('num', Fraction(0))), ()))
                          + sym.Poly.atom(('sub', d[0], bv))).key()
                alt_v = (sym.Poly.atom(('sub', v, bv))
                         + sym.Poly.atom(('sub', d[0], bv))).key()
                ok2 = (len(stores) == 1 and stores[0][0] == 'store'
                       and stores[0][1] == want_t
                       and stores[0][2] in (want_v, alt_v)
                       and bodies[0][1] is None)
                found = '; '.join('%s := %s' % (show(e[1])[:50],
                                                show(e[2])[:80])
                                  for e in stores if e[0] == 'store')
        chk.ob(rule, ok2, SCH, f, key='result=groups+descriptors:' + form,
               what='the result is a copy of the groups to which every '
                    'correction descriptor count is added (complete loop, '
                    'no replacement)', found=found)
    chk.need(rule, n, 2, 'returning paths of GetDescriptors (one per input '
                         'form)')
    return f


def one_centre(chk, repo, rule):
    f = repo.func(SCH, 'GroupAdditivityScheme._AssignCenterPattern')
    molp = params(f)[1]
    outer = [n for n in f.body if isinstance(n, ast.For)]
    chk.ob(rule, len(outer) == 2, SCH, f, key='two-loops',
           what='a pattern loop followed by an every-atom check loop',
           found='%d top-level loops' % len(outer))
    if len(outer) != 2:
        return
    pl, al = outer
    chk.ob(rule, src(pl.iter) == 'self.patterns' and not loop_has_exit(
        pl, (ast.Break, ast.Return, ast.Continue)), SCH, pl,
        key='all-patterns', what='every pattern of the scheme is tried '
                                 '(complete loop)')
    inner = [n for n in pl.body if isinstance(n, ast.For)]
    chk.ob(rule, len(inner) == 1, SCH, pl, key='match-loop',
           what='one loop over the matched centre atoms')
    if len(inner) == 1:
        il = inner[0]
        S = sym.Summarizer()
        st = sym.State()
        S._bind_target(pl.target, ('bv', 0), st)
        S.depth = 1
        # statements before the inner loop (matches = ...)
        for s_ in pl.body:
            if s_ is il:
                break
            S.stmt(s_, st)
        it = S.k(il.iter, st)
        want_it = ('comp', 'set',
                   ('sub', ('bv', 1), ('num', Fraction(0))),
                   ((('bv', 1), ('call', ('attr', ('sub', ('bv', 0),
                    ('const', 'connectivity')), 'GetQueryMatches'),
                    (('name', molp),), ()), ()),))
        chk.ob(rule, it == want_it, SCH, il, key='centre=first-atom',
               what='the centre of a match is its first atom; the set of '
                    'centres comes from the pattern\'s own matches on this '
                    'molecule', found=show(it)[:160])
        S.depth = 2
        S._bind_target(il.target, ('bv', 1), st)
        outs = S.block(il.body, st)
        has = None
        problems = []
        seen = set()
        for s2, o in outs:
            p = sym.Path(s2, o or ('fall',))
            hp = [a for a in p.facts() if a[0] == 'truthy' and is_call(a[1])
                  and a[1][1][0] == 'attr' and a[1][1][2] == 'HasProp'
                  and a[1][2] == (('const', 'Group_Center_Name'),)]
            if len(hp) != 1 or len(p.conds()) != 1:
                problems.append('condition is not the bare HasProp test: '
                                + p.describe()[:160])
                continue
            atom = hp[0][1][1][1]
            want_atom = ('call', ('attr', ('name', molp), 'GetAtomWithIdx'),
                         (('bv', 1),), ())
            if atom != want_atom:
                problems.append('tested atom is %s' % show(atom))
            if p.facts()[hp[0]]:
                seen.add('taken')
                if not (p.outcome[0] == 'raise'
                        and p.outcome[1] == 'PatternMatchError'):
                    problems.append('already-assigned atom does not raise '
                                    'PatternMatchError: '
                                    + p.describe()[-80:])
                if any(e[0] == 'expr' and is_call(e[1]) and e[1][1][0] ==
                       'attr' and e[1][1][2] == 'SetProp' for e in p.trace):
                    problems.append('SetProp on the raising path')
            else:
                seen.add('free')
                sets = [e[1] for e in p.trace if e[0] == 'expr'
                        and is_call(e[1]) and e[1][1][0] == 'attr'
                        and e[1][1][2] == 'SetProp']
                want = [('call', ('attr', want_atom, 'SetProp'),
                         (('const', 'Group_Center_Name'),
                          ('sub', ('bv', 0), ('const', 'center_name'))), ()),
                        ('call', ('attr', want_atom, 'SetProp'),
                         (('const', 'Group_Periph_Name'),
                          ('sub', ('bv', 0), ('const', 'periph_name'))), ())]
                if sorted(sets, key=repr) != sorted(want, key=repr):
                    problems.append('names set: %s' % [show(x)[:90]
                                                        for x in sets])
        chk.ob(rule, not problems and seen == {'taken', 'free'}, SCH, il,
               key='exactly-one-centre',
               what='an atom that already has a centre raises '
                    'PatternMatchError (whatever the names); otherwise '
                    'centre and peripheral names are set together from the '
                    'same pattern', found=' || '.join(problems)[:500])
    # final loop
    ok = src(al.iter) == molp + '.GetAtoms()' and not loop_has_exit(
        al, (ast.Break, ast.Return, ast.Continue))
    S = sym.Summarizer()
    st = sym.State()
    S._bind_target(al.target, ('bv', 0), st)
    outs = S.block(al.body, st)
    hp = ('truthy', ('call', ('attr', ('bv', 0), 'HasProp'),
                     (('const', 'Group_Center_Name'),), ()))
    for s2, o in outs:
        p = sym.Path(s2, o or ('fall',))
        if p.says(hp, False):
            ok = ok and p.outcome[0] == 'raise' and p.outcome[1] == \
                'PatternMatchError'
        elif p.says(hp, True):
            ok = ok and p.outcome[0] != 'raise'
        else:
            ok = False
    chk.ob(rule, ok, SCH, al, key='every-atom-has-centre',
           what='after the patterns, every atom without a centre raises '
                'PatternMatchError (complete loop over all atoms)')


def assign_group(chk, repo, rule):
    f = repo.func(SCH, 'GroupAdditivityScheme._AssignGroup')
    molp = params(f)[1]
    loops = [n for n in f.body if isinstance(n, ast.For)]
    chk.need(rule, len(loops), 1, 'atom loop of _AssignGroup')
    al = loops[0]
    chk.ob(rule, src(al.iter) == molp + '.GetAtoms()' and not loop_has_exit(
        al, (ast.Break, ast.Return, ast.Continue)), SCH, al,
        key='all-atoms', what='every atom is visited (complete loop)')
    S = sym.Summarizer()
    st = sym.State(env={'groups': ('name', 'groups')})
    S._bind_target(al.target, ('bv', 0), st)
    S.depth = 1
    outs = S.block(al.body, st)
    atom = ('bv', 0)
    csg = ('call', ('attr', atom, 'GetProp'),
           (('const', 'Group_Center_Name'),), ())
    is_none = sym.b_cmp('==', csg, ('const', 'none'))
    problems = []
    seen = set()
    for s2, o in outs:
        p = sym.Path(s2, o or ('fall',))
        facts = p.facts()
        top = facts.get(sym.atom_of(is_none)[0])
        augs = [e for e in p.trace if e[0] == 'aug']
        if top is True:
            seen.add('none')
            if augs:
                problems.append("centre 'none' is counted")
        elif top is False:
            seen.add('named')
            if len(augs) != 1 or augs[0][2] != 'Add' or augs[0][3] != (
                    'num', Fraction(1)):
                problems.append('count increment is %s' % [
                    (a[2], show(a[3])) for a in augs])
            else:
                tgt = augs[0][1]
                # groups[Group(self, csg, psgs).name]
                ok = (tgt[0] == 'sub' and tgt[1] == ('name', 'groups')
                      and tgt[2][0] == 'attr' and tgt[2][2] == 'name'
                      and is_call(tgt[2][1])
                      and tgt[2][1][1] == ('name', 'Group')
                      and tgt[2][1][2][:2] == (SELF, csg))
                if not ok:
                    problems.append('counted key is %s' % show(tgt)[:120])
        else:
            problems.append('no test of the centre name against "none"')
    chk.ob(rule, not problems and seen == {'none', 'named'}, SCH, al,
           key='one-count-per-named-atom',
           what='each atom whose centre is not "none" adds exactly 1 to the '
                'group built from (its centre, its peripherals)',
           found=' || '.join(sorted(set(problems)))[:400])
    # peripheral list: complete neighbour loop filtered only by != 'none'
    nl = [n for n in ast.walk(al) if isinstance(n, ast.For)
          and 'GetNeighbors' in src(n.iter)]
    ok = len(nl) == 1 and src(nl[0].iter) == src(al.target) + \
        '.GetNeighbors()' and not loop_has_exit(
            nl[0], (ast.Break, ast.Return, ast.Continue))
    if ok:
        body = nl[0].body
        S2 = sym.Summarizer()
        st2 = sym.State(env={'psgs': ('name', 'psgs')})
        S2._bind_target(nl[0].target, ('bv', 1), st2)
        outs2 = S2.block(body, st2)
        psg = ('call', ('attr', ('bv', 1), 'GetProp'),
               (('const', 'Group_Periph_Name'),), ())
        pn = sym.atom_of(sym.b_cmp('==', psg, ('const', 'none')))[0]
        for s2, o in outs2:
            p = sym.Path(s2, o or ('fall',))
            apps = [e[1] for e in p.trace if e[0] == 'expr' and is_call(e[1])
                    and e[1][1] == ('attr', ('name', 'psgs'), 'append')]
            v = p.facts().get(pn)
            if v is False:
                ok = ok and apps == [('call', ('attr', ('name', 'psgs'),
                                               'append'), (psg,), ())]
            elif v is True:
                ok = ok and not apps
            else:
                ok = False
    chk.ob(rule, ok, SCH, nl[0] if nl else al, key='peripherals',
           what='the peripheral multiset is the Group_Periph_Name of every '
                'direct neighbour except those named "none"')
    return f


def remap_blocks(chk, repo, rule):
    """Both remap blocks: for a key in the remap table with popped count n,
    each entry (k, t) adds n*k to t, over all entries."""
    sigs = []
    for mname, dname in (('_AssignGroup', 'groups'),
                         ('_AssignDescriptor', 'descriptors')):
        f = repo.func(SCH, 'GroupAdditivityScheme.' + mname)
        loops = [n for n in ast.walk(f) if isinstance(n, ast.For)
                 and src(n.iter).replace(' ', '') in (
                     'list(%s.keys())' % dname, 'list(%s)' % dname,
                     'tuple(%s.keys())' % dname, 'tuple(%s)' % dname,
                     'sorted(%s.keys())' % dname, 'sorted(%s)' % dname)]
        ok = len(loops) == 1
        chk.ob(rule, ok, SCH, f, key='remap-loop:' + mname,
               what='one complete loop over a snapshot of the %s keys '
                    'applies the remaps' % dname,
               found='%d loops over a snapshot of %s' % (len(loops), dname))
        if not ok:
            continue
        lp = loops[0]
        chk.ob(rule, not loop_has_exit(lp, (ast.Break, ast.Return,
                                            ast.Continue)), SCH, lp,
               key='remap-complete:' + mname, what='no early exit')
        S = sym.Summarizer()
        st = sym.State(env={dname: ('name', 'D')})
        S._bind_target(lp.target, ('bv', 0), st)
        S.depth = 1
        outs = S.block(lp.body, st)
        D = ('name', 'D')
        key = ('bv', 0)
        inmap = ('cmp', 'in', key, ('attr', SELF, 'remaps'))
        n = ('call', ('attr', D, 'pop'), (key,), ())
        problems = []
        for s2, o in outs:
            p = sym.Path(s2, o or ('fall',))
            v = p.facts().get(inmap)
            inner = [e for e in p.trace if e[0] == 'loop']
            if v is True:
                if len(inner) != 1:
                    problems.append('no entry loop')
                    continue
                gens, body = inner[0][1], inner[0][2]
                if gens[0][1] != ('sub', ('attr', SELF, 'remaps'), key):
                    problems.append('entries iterated: %s' % show(gens[0][1]))
                if len(body) != 1:
                    problems.append('conditional inside the entry loop')
                    continue
                augs = [e for e in body[0][0] if e[0] == 'aug']
                stores = [e for e in body[0][0] if e[0] == 'store']
                ent = gens[0][0]
                want_t = ('sub', D, ('sub', ent, ('num', Fraction(1))))
                # n is the count popped before the entry loop (a snapshot:
                # the loop changes the mapping it was popped from)
                want_v = [(Poly.atom(nn) * Poly.atom(
                    ('sub', ent, ('num', Fraction(0))))).key()
                    for nn in (n, ('snapshot', n))]
                good = (len(augs) == 1 and augs[0][1] == want_t
                        and augs[0][2] == 'Add' and augs[0][3] in want_v)
                if not good:
                    problems.append('entry effect: %s' % (
                        ['%s %s= %s' % (show(a[1]), a[2], show(a[3]))
                         for a in augs] or
                        ['%s := %s' % (show(s_[1]), show(s_[2]))
                         for s_ in stores]))
            elif v is False:
                if inner or any(e[0] in ('aug', 'store') for e in p.trace):
                    problems.append('a key outside the remap table is '
                                    'changed')
            else:
                problems.append('membership in self.remaps not tested')
        chk.ob(rule, not problems, SCH, lp, key='remap-linear:' + mname,
               what='a remapped key with count n is removed and every entry '
                    '(k, t) adds n*k to t (accumulating), in %s' % mname,
               found=' || '.join(problems)[:400])
        sigs.append(tuple(sorted(problems)))
    return sigs


def dedup_keys(chk, repo, rule):
    f = repo.func(SCH, 'GroupAdditivityScheme._AssignDescriptor')
    n = 0
    for node in ast.walk(f):
        if isinstance(node, ast.Assign) and isinstance(node.value, ast.Call)\
                and dotted(node.value.func) == 'set' and node.value.args \
                and isinstance(node.value.args[0], (ast.ListComp,
                                                    ast.GeneratorExp,
                                                    ast.SetComp)):
            n += 1
            elt = node.value.args[0].elt
            t = src(elt).replace(' ', '')
            var = node.value.args[0].generators[0].target
            v = src(var)
            ok = t in ('frozenset(%s)' % v, 'tuple(sorted(%s))' % v,
                       'tuple(sorted(set(%s)))' % v)
            chk.ob(rule, ok, SCH, node, key='canonical-dedup-key#%d' % n,
                   what='matches are de-duplicated by an order-canonical '
                        'key of the matched atom set (frozenset / sorted '
                        'tuple); tuple(set(.)) depends on atom numbering',
                   found=src(elt))
    chk.need(rule, n, 3, 'de-duplication sets (one per descriptor family)')
    # increments are len(matches)
    incs = [a for a in ast.walk(f) if isinstance(a, ast.AugAssign)
            and isinstance(a.target, ast.Subscript)
            and src(a.target.value) == 'descriptors'
            and src(a.target.slice).startswith('descriptor[')]
    ok = len(incs) == 3 and all(
        isinstance(a.op, ast.Add) and src(a.value) == 'len(matches)'
        for a in incs)
    chk.ob(rule, ok, SCH, f, key='count=len(distinct-sets)',
           what='each correction descriptor is counted once per distinct '
                'matched atom set', found='; '.join(src(a) for a in incs))
    # tuple(set(..)) / list(set(..)) anywhere in GroupAdd as a key
    bad = []
    for m in repo.all_mods():
        if not m.rel.startswith('pgradd/GroupAdd/'):
            continue
        for c in ast.walk(m.tree):
            if isinstance(c, ast.Call) and dotted(c.func) in ('tuple',
                                                              'list') \
                    and len(c.args) == 1 and isinstance(c.args[0], ast.Call)\
                    and dotted(c.args[0].func) == 'set':
                bad.append('%s:%d %s' % (m.rel, c.lineno, src(c)[:40]))
    chk.ob(rule, not bad, SCH, f, key='no-tuple-of-set',
           what='no tuple(set(.))/list(set(.)) (iteration order of a set of '
                'small ints depends on insertion order)',
           found=', '.join(bad))


def complete_loops(chk, repo, rule, minimum=12):
    n = 0
    for rel, fn in repo.functions([SCH]):
        for lp in [x for x in ast.walk(fn) if isinstance(x, ast.For)]:
            f2 = lp
            while not isinstance(f2, ast.FunctionDef):
                f2 = f2._parent
            if f2 is not fn:
                continue
            n += 1
            w = whole_iter(lp.iter)
            exits = loop_has_exit(lp, (ast.Break, ast.Return))
            chk.ob(rule, w is not None and not exits, SCH, lp,
                   key='complete:%s:%s' % (fn.name, src(lp.iter)[:40]),
                   what='loop over %s in %s visits the whole collection '
                        '(no slice, no break/return)' % (
                            src(lp.iter)[:40], fn.name),
                   found='%s%s' % ('sliced/filtered iterable; ' if w is None
                                   else '', ', '.join(
                                       '%s@%d' % (type(e).__name__, e.lineno)
                                       for e in exits)))
    chk.need(rule, n, minimum, 'loops in Scheme.py')


def receiver_root(k):
    """Follow x.attr / x[i] / x.method() receivers down to the object the
    expression is a view of; a plain function call result is its own (fresh)
    root."""
    while True:
        if k[0] in ('attr', 'sub'):
            k = k[1]
        elif is_call(k) and k[1][0] == 'attr' and k[1][2].startswith('Get'):
            k = k[1][1]
        else:
            return k


def ownership(chk, repo, rule):
    """RDKit mutators are applied only to a copy made in this call."""
    f = repo.func(SCH, 'GroupAdditivityScheme.GetDescriptors')
    mp = ('name', params(f)[1])
    MUT = ('Chem.Kekulize', '_aromatization_Benson',
           'self._AssignCenterPattern', 'self._AssignGroup',
           'sanitize_except_aromatization')
    n = 0
    for p, form in supported_paths(f):
        bad = []
        for c in p.calls():
            cn = call_name(c)
            if cn in MUT and c[2] and c[2][0] == mp:
                bad.append('%s(%s)' % (cn, show(c[2][0])))
        for e in p.trace:
            if e[0] == 'loop':
                it = e[1][0][1]
                if receiver_root(it) == mp and any(
                        ev[0] == 'expr' and is_call(ev[1]) and ev[1][1][0]
                        == 'attr' and ev[1][1][2].startswith('Set')
                        for tr, o in e[2] for ev in tr):
                    bad.append('bond rewrite on %s' % show(it))
        n += 1
        chk.ob(rule, not bad, SCH, f, key='mutate-only-copy:' + form,
               what='input form %s: every in-place RDKit edit lands on the '
                    'copy made by AddHs/MolFromSmiles in this call, never '
                    'on the caller\'s object' % form,
               found=', '.join(bad))
    chk.need(rule, n, 2, 'input-form paths')


def definite_assignment(chk, repo, rule):
    f = repo.func(SCH, 'GroupAdditivityScheme.GetDescriptors')
    n = 0
    for p, form in supported_paths(f):
        n += 1
        ub = sorted(set('%s@%s' % (e[1], e[2]) for e in p.trace
                        if e[0] == 'unbound'))
        chk.ob(rule, not ub, SCH, f, key='definitely-assigned:' + form,
               what='input form %s: every local read is bound on this path'
                    % form, found=', '.join(ub))
    chk.need(rule, n, 2, 'input-form paths')


def ring_loop(chk, repo, rule):
    """Loop-carried dependence in ring-by-ring aromatic perception."""
    f = repo.func(SCH, '_aromatization_Benson')
    loops = [n for n in f.body if isinstance(n, ast.For)]
    chk.need(rule, len(loops), 1, 'ring loop')
    lp = loops[0]
    getters = set()
    setters = set()
    for c in ast.walk(lp):
        if isinstance(c, ast.Call) and isinstance(c.func, ast.Attribute):
            a = c.func.attr
            if a in ('GetBondType', 'GetIsAromatic'):
                getters.add(a[3:])
            if a in ('SetBondType', 'SetIsAromatic'):
                setters.add(a[3:])
    both = sorted(getters & setters)
    chk.ob(rule, not both, SCH, lp, key='loop-carried:' + ','.join(both),
           what='the ring loop decides from molecule state (%s) that earlier '
                'iterations of the same loop rewrite: the result depends on '
                'the order in which rings are visited (fused rings)'
                % ', '.join(both or ['-']),
           found='reads and writes: %s' % both)


def reviewed_scheme(chk, repo, rule, names=None):
    all_names = ['GroupAdditivityScheme.__init__',
                 'GroupAdditivityScheme.Load',
                 'GroupAdditivityScheme.GetDescriptors',
                 'GroupAdditivityScheme._AssignCenterPattern',
                 'GroupAdditivityScheme._AssignGroup',
                 'GroupAdditivityScheme._AssignDescriptor',
                 'sanitize_except_aromatization', '_aromatization_Benson']
    for q in names or all_names:
        reviewed.check(chk, rule, repo, SCH, q,
                       '%s is unchanged in normal form from its reviewed '
                       'reference' % q)


def reviewed_matcher(chk, repo, rule):
    for c in repo.mod(MQ).tree.body:
        if isinstance(c, ast.ClassDef):
            for s_ in c.body:
                if isinstance(s_, ast.FunctionDef) and s_.name in (
                        '__init__', '__call__', 'GetQueryMatches'):
                    reviewed.check(chk, rule, repo, MQ,
                                   '%s.%s' % (c.name, s_.name),
                                   '%s.%s (matching) is unchanged in normal '
                                   'form from its reviewed reference'
                                   % (c.name, s_.name))


def purity(chk, repo, rule):
    todo = [(SCH, 'GroupAdditivityScheme.GetDescriptors'),
            (SCH, 'GroupAdditivityScheme._AssignDescriptor'),
            (MQ, 'MolQuery.GetQueryMatches')]
    for rel, q in todo:
        f = repo.func(rel, q)
        muts = FuncEffects(f).persistent_mutations()
        chk.ob(rule, not muts, rel, f, key='pure:' + q,
               what='%s stores nothing on the scheme/query, class or module '
                    '(no cache keyed by a spelling of the molecule)' % q,
               found='; '.join(describe(m) for m in muts))
    for rel, cname in ((SCH, 'Scheme'), (SCH, 'GroupAdditivityScheme'),
                       (MQ, 'MolQuery')):
        c = repo.cls(rel, cname)
        state = [src(s_)[:50] for s_ in c.body if isinstance(s_, ast.Assign)]
        chk.ob(rule, not state, rel, c, key='no-class-state:' + cname,
               qualname=cname, what='%s has no class-level state' % cname,
               found='; '.join(state))


INT_CALLS = {'GetIdx', 'GetBeginAtomIdx', 'GetEndAtomIdx', 'GetNumAtoms',
             'GetAtomicNum', 'GetFormalCharge', 'GetNumRadicalElectrons',
             'GetTotalValence', 'GetDegree', 'GetNumBonds', 'NumRings'}


def message_concat_types(chk, repo, rule, rels):
    """str + int in a message under construction is a TypeError raised in
    place of the documented error.  Every operand of a `+` chain that
    contains a string constant must be evidently a string: an RDKit accessor
    that returns an int (GetIdx, Get*AtomIdx, GetNumRadicalElectrons, ...) or
    len(...) needs str()/.__str__() around it."""
    n = 0
    for rel in rels:
        # attributes the module itself uses as lists (receivers of list
        # methods): they, and slices of them, are not text
        listy = set()
        for x in ast.walk(repo.mod(rel).tree):
            if isinstance(x, ast.Call) and isinstance(
                    x.func, ast.Attribute) and x.func.attr in (
                    'append', 'index', 'insert', 'extend') and isinstance(
                    x.func.value, ast.Attribute):
                listy.add(x.func.value.attr)
        for node in ast.walk(repo.mod(rel).tree):
            if not (isinstance(node, ast.BinOp) and isinstance(node.op,
                                                               ast.Add)):
                continue
            par = getattr(node, '_parent', None)
            if isinstance(par, ast.BinOp) and isinstance(par.op, ast.Add) \
                    and par.left is node:
                continue        # not the top of the chain
            ops = []

            def flat(x):
                if isinstance(x, ast.BinOp) and isinstance(x.op, ast.Add):
                    flat(x.left)
                    flat(x.right)
                else:
                    ops.append(x)
            flat(node)
            if not any(isinstance(o, ast.Constant) and isinstance(
                    o.value, str) for o in ops):
                continue
            n += 1
            bad = []
            for o in ops:
                if isinstance(o, ast.Call) and isinstance(
                        o.func, ast.Attribute) and o.func.attr in INT_CALLS:
                    bad.append(src(o)[:50])
                if isinstance(o, ast.Call) and dotted(o.func) == 'len':
                    bad.append(src(o)[:50])
                if isinstance(o, ast.Constant) and isinstance(
                        o.value, (int, float)) and not isinstance(
                        o.value, bool):
                    bad.append(repr(o.value))
                base = o.value if isinstance(o, ast.Subscript) and isinstance(
                    o.slice, ast.Slice) else o
                if isinstance(base, ast.Attribute) and base.attr in listy:
                    bad.append(src(o)[:50])
                if isinstance(o, (ast.List, ast.Tuple, ast.Dict, ast.Set,
                                  ast.ListComp, ast.DictComp, ast.SetComp)):
                    bad.append(src(o)[:50])
            if bad:
                fn = node
                while fn is not None and not isinstance(fn, ast.FunctionDef):
                    fn = getattr(fn, '_parent', None)
                chk.ob(rule, False, rel, node,
                       key='str-plus-int:%s:%s' % (fn.name if fn else '',
                                                   bad[0]),
                       what='a message concatenates str with an int- or '
                            'list-valued expression (%s): TypeError instead '
                            'of the documented error' % ', '.join(bad),
                       found=src(node)[:140])
    chk.ob(rule, True, rels[0], None, key='message-concat-scan',
           qualname='<modules>', what='%d string concatenations scanned for '
                                      'int operands' % n)
    chk.need(rule, n, 5, 'string concatenations')


"""Reduced ordered BDDs over predicate atoms, and the canonical form of a set
of guarded alternatives (used for path sets, loop bodies and the
per-iteration updates of loop-carried variables)."""
from . import sym

class _TooBig(Exception):
    pass


class BDD(object):
    """Reduced ordered binary decision diagrams over predicate atoms,
    hash-consed: a node is True, False or an integer >= 2 naming one
    (atom, low, high) triple; atoms are ordered by their repr.  Within one
    BDD object two boolean functions are equal iff their nodes are equal;
    `digest` gives a form that can be compared between BDD objects."""

    LIMIT = 400000

    def __init__(self):
        self.memo = {}
        self.rk = {}            # atom -> rank string
        self.nodes = {}         # id -> (atom, lo, hi)
        self.unique = {}        # (rank, lo, hi) -> id
        self.dg = {}

    def rank(self, atom):
        r = self.rk.get(atom)
        if r is None:
            r = self.rk[atom] = repr(atom)
        return r

    def mk(self, atom, lo, hi):
        if lo is hi or (lo == hi and type(lo) is type(hi)):
            return lo
        k = (self.rank(atom), lo if type(lo) is not bool else str(lo),
             hi if type(hi) is not bool else str(hi))
        n = self.unique.get(k)
        if n is None:
            n = len(self.nodes) + 2
            self.unique[k] = n
            self.nodes[n] = (atom, lo, hi)
            if n > self.LIMIT:
                raise _TooBig()
        return n

    def neg(self, u):
        if u is True or u is False:
            return not u
        k = ('neg', u)
        r = self.memo.get(k)
        if r is None:
            a, lo, hi = self.nodes[u]
            r = self.memo[k] = self.mk(a, self.neg(lo), self.neg(hi))
        return r

    def apply(self, op, u, v):
        if op == 'and':
            if u is False or v is False:
                return False
            if u is True:
                return v
            if v is True:
                return u
        else:
            if u is True or v is True:
                return True
            if u is False:
                return v
            if v is False:
                return u
        if u == v:
            return u
        k = (op, u, v) if u < v else (op, v, u)
        r = self.memo.get(k)
        if r is not None:
            return r
        if len(self.memo) > self.LIMIT:
            raise _TooBig()
        ua, ulo, uhi = self.nodes[u]
        va, vlo, vhi = self.nodes[v]
        ru, rv = self.rank(ua), self.rank(va)
        if ru == rv:
            r = self.mk(ua, self.apply(op, ulo, vlo),
                        self.apply(op, uhi, vhi))
        elif ru < rv:
            r = self.mk(ua, self.apply(op, ulo, v), self.apply(op, uhi, v))
        else:
            r = self.mk(va, self.apply(op, u, vlo), self.apply(op, u, vhi))
        self.memo[k] = r
        return r

    def of(self, k):
        """BDD of a boolean key."""
        if k[0] == 'const':
            return bool(k[1])
        if k[0] == 'not':
            return self.neg(self.of(k[1]))
        if k[0] in ('and', 'or'):
            r = (k[0] == 'and')
            for x in k[1]:
                r = self.apply(k[0], r, self.of(x))
            return r
        a, pol = sym.atom_of(k)
        n = self.mk(a, False, True)
        return n if pol else self.neg(n)

    def digest(self, u):
        """A value that identifies the boolean function independently of
        this BDD object (linear in the number of nodes)."""
        if u is True or u is False:
            return u
        d = self.dg.get(u)
        if d is None:
            import hashlib
            a, lo, hi = self.nodes[u]
            d = self.dg[u] = hashlib.sha1(repr(
                (self.rank(a), self.digest(lo), self.digest(hi))
            ).encode()).hexdigest()
        return d


def _eq_atoms(sigs, eqs):
    for conds, out, eff in sigs:
        for lit in conds:
            for at in sym.bool_atoms(lit):
                if at[0] == 'cmp' and at[1] == '==':
                    a, b = at[2]
                    for term, c in ((a, b), (b, a)):
                        if c[0] in ('const', 'num') and term[0] not in (
                                'const', 'num'):
                            eqs.setdefault(term, set()).add((c, at))


STR_PREDICATES = ('isdigit', 'isalpha', 'isalnum', 'isdecimal', 'isnumeric',
                  'isupper', 'islower', 'isspace', 'istitle', 'isidentifier')


def _str_facts(bdd, sigs):
    """`x.isdigit()` (and the other str predicates) is False for the empty
    string: where it holds, x is truthy."""
    atoms = set()
    for conds, out, eff in sigs:
        for lit in conds:
            atoms.update(sym.bool_atoms(lit))
    care = True
    # len(s.intersection([a, b])) is one of 0, 1, 2: when every value of
    # that range is tested somewhere (0 also as emptiness), one test holds
    from fractions import Fraction
    tests = {}
    for a in atoms:
        if a[0] == 'truthy':
            t = ('call', ('name', 'len'), (a[1],), ())
            if _intersection_bound(t) is not None:
                tests.setdefault(t, {})[0] = bdd.neg(bdd.of(a))
        elif a[0] == 'cmp' and a[1] == '==':
            for t, c in (a[2], a[2][::-1]):
                if c[0] == 'num' and c[1].denominator == 1 \
                        and _intersection_bound(t) is not None:
                    tests.setdefault(t, {})[int(c[1])] = bdd.of(a)
    # len(x) == k for k >= 1 implies x is non-empty
    truthy = dict((a[1], a) for a in atoms if a[0] == 'truthy')
    for a in sorted(atoms, key=repr):
        if a[0] == 'cmp' and a[1] == '==':
            for t, c in (a[2], a[2][::-1]):
                if c[0] == 'num' and c[1] >= 1 and t[0] == 'call' \
                        and t[1] == ('name', 'len') and len(t[2]) == 1 \
                        and not t[3] and t[2][0] in truthy:
                    care = bdd.apply('and', care, bdd.apply(
                        'or', bdd.neg(bdd.of(a)),
                        bdd.of(truthy[t[2][0]])))
    for t in sorted(tests, key=repr):
        n = _intersection_bound(t)
        if all(k in tests[t] for k in range(n + 1)):
            some = False
            for k in range(n + 1):
                some = bdd.apply('or', some, tests[t][k])
            care = bdd.apply('and', care, some)
    for a in sorted(atoms, key=repr):
        if a[0] == 'truthy' and a[1][0] == 'call' and a[1][1][0] == 'attr' \
                and a[1][1][2] in STR_PREDICATES and not a[1][2]:
            subj = ('truthy', a[1][1][1])
            if subj in atoms:
                care = bdd.apply('and', care, bdd.neg(bdd.apply(
                    'and', bdd.of(a), bdd.neg(bdd.of(subj)))))
    return care


def _intersection_bound(term):
    """n for len(<x>.intersection(<literal of n elements>)), else None."""
    if term[0] == 'call' and term[1] == ('name', 'len') and len(term[2]) == 1 \
            and not term[3]:
        inner = term[2][0]
        if inner[0] == 'call' and inner[1][0] == 'attr' \
                and inner[1][2] == 'intersection' and len(inner[2]) == 1 \
                and not inner[3] and inner[2][0][0] in ('list', 'tuple'):
            return len(inner[2][0][1])
    return None


def _care(bdd, eqs):
    """One term cannot equal two different constants: decisions are compared
    on the assignments where that holds."""
    care = True
    for term, alts in sorted(eqs.items(), key=repr):
        alts = sorted(alts, key=repr)
        for i in range(len(alts)):
            for j in range(i + 1, len(alts)):
                if alts[i][0] != alts[j][0]:
                    both = bdd.apply('and', bdd.of(alts[i][1]),
                                     bdd.of(alts[j][1]))
                    care = bdd.apply('and', care, bdd.neg(both))
    return care


def canon(sigs, bdd=None, care=None):
    """Canonical form of a set of path signatures: for every (outcome,
    effects) the boolean function (as a reduced ordered BDD) of the
    conditions under which it is reached.  Independent of how a decision is
    spelled: nested ifs or one conjunction, elif chain or early returns, De
    Morgan forms, a predicate inlined or extracted, redundant tests."""
    own = bdd is None
    bdd = bdd or BDD()
    if care is None:
        eqs = {}
        _eq_atoms(sigs, eqs)
        care = bdd.apply('and', _care(bdd, eqs), _str_facts(bdd, sigs))
    by = {}
    for conds, out, eff in sigs:
        cube = True
        for lit in sorted(conds, key=repr):
            cube = bdd.apply('and', cube, bdd.of(lit))
        by[(out, eff)] = bdd.apply('or', by.get((out, eff), False), cube)
    if care is not True:
        by = dict((oe, bdd.apply('and', f, care)) for oe, f in by.items())
    if own:
        # comparable with results computed through other BDD objects
        return frozenset((oe, bdd.digest(f)) for oe, f in by.items()
                         if f is not False)
    return frozenset((oe, f) for oe, f in by.items() if f is not False)



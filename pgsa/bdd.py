"""Reduced ordered BDDs over predicate atoms, and the canonical form of a set
of guarded alternatives (used for path sets, loop bodies and the
per-iteration updates of loop-carried variables)."""
from . import sym

class _TooBig(Exception):
    pass


class BDD(object):
    """Reduced ordered binary decision diagrams over predicate atoms; a node
    is True, False or (atom, low, high) with atoms ordered by their repr --
    the tuple itself is the canonical form of the boolean function."""

    LIMIT = 200000

    def __init__(self):
        self.memo = {}
        self.rk = {}

    def rank(self, atom):
        r = self.rk.get(atom)
        if r is None:
            r = self.rk[atom] = repr(atom)
        return r

    def mk(self, atom, lo, hi):
        return lo if lo == hi else (atom, lo, hi)

    def neg(self, u):
        if u is True or u is False:
            return not u
        k = ('neg', u)
        r = self.memo.get(k)
        if r is None:
            r = self.memo[k] = self.mk(u[0], self.neg(u[1]), self.neg(u[2]))
        return r

    def apply(self, op, u, v):
        if op == 'and':
            if u is False or v is False:
                return False
            if u is True:
                return v
            if v is True:
                return u
        else:
            if u is True or v is True:
                return True
            if u is False:
                return v
            if v is False:
                return u
        if u == v:
            return u
        k = (op, u, v)
        r = self.memo.get(k)
        if r is not None:
            return r
        if len(self.memo) > self.LIMIT:
            raise _TooBig()
        ru, rv = self.rank(u[0]), self.rank(v[0])
        if ru == rv:
            r = self.mk(u[0], self.apply(op, u[1], v[1]),
                        self.apply(op, u[2], v[2]))
        elif ru < rv:
            r = self.mk(u[0], self.apply(op, u[1], v), self.apply(op, u[2], v))
        else:
            r = self.mk(v[0], self.apply(op, u, v[1]), self.apply(op, u, v[2]))
        self.memo[k] = r
        return r

    def of(self, k):
        """BDD of a boolean key."""
        if k[0] == 'const':
            return bool(k[1])
        if k[0] == 'not':
            return self.neg(self.of(k[1]))
        if k[0] in ('and', 'or'):
            r = (k[0] == 'and')
            for x in k[1]:
                r = self.apply(k[0], r, self.of(x))
            return r
        a, pol = sym.atom_of(k)
        n = (a, False, True)
        return n if pol else self.neg(n)


def _eq_atoms(sigs, eqs):
    for conds, out, eff in sigs:
        for lit in conds:
            for at in sym.bool_atoms(lit):
                if at[0] == 'cmp' and at[1] == '==':
                    a, b = at[2]
                    for term, c in ((a, b), (b, a)):
                        if c[0] in ('const', 'num') and term[0] not in (
                                'const', 'num'):
                            eqs.setdefault(term, set()).add((c, at))


STR_PREDICATES = ('isdigit', 'isalpha', 'isalnum', 'isdecimal', 'isnumeric',
                  'isupper', 'islower', 'isspace', 'istitle', 'isidentifier')


def _str_facts(bdd, sigs):
    """`x.isdigit()` (and the other str predicates) is False for the empty
    string: where it holds, x is truthy."""
    atoms = set()
    for conds, out, eff in sigs:
        for lit in conds:
            atoms.update(sym.bool_atoms(lit))
    care = True
    for a in sorted(atoms, key=repr):
        if a[0] == 'truthy' and a[1][0] == 'call' and a[1][1][0] == 'attr' \
                and a[1][1][2] in STR_PREDICATES and not a[1][2]:
            subj = ('truthy', a[1][1][1])
            if subj in atoms:
                care = bdd.apply('and', care, bdd.neg(bdd.apply(
                    'and', bdd.of(a), bdd.neg(bdd.of(subj)))))
    return care


def _care(bdd, eqs):
    """One term cannot equal two different constants: decisions are compared
    on the assignments where that holds."""
    care = True
    for term, alts in sorted(eqs.items(), key=repr):
        alts = sorted(alts, key=repr)
        for i in range(len(alts)):
            for j in range(i + 1, len(alts)):
                if alts[i][0] != alts[j][0]:
                    both = bdd.apply('and', bdd.of(alts[i][1]),
                                     bdd.of(alts[j][1]))
                    care = bdd.apply('and', care, bdd.neg(both))
    return care


def canon(sigs, bdd=None, care=None):
    """Canonical form of a set of path signatures: for every (outcome,
    effects) the boolean function (as a reduced ordered BDD) of the
    conditions under which it is reached.  Independent of how a decision is
    spelled: nested ifs or one conjunction, elif chain or early returns, De
    Morgan forms, a predicate inlined or extracted, redundant tests."""
    bdd = bdd or BDD()
    if care is None:
        eqs = {}
        _eq_atoms(sigs, eqs)
        care = bdd.apply('and', _care(bdd, eqs), _str_facts(bdd, sigs))
    by = {}
    for conds, out, eff in sigs:
        cube = True
        for lit in sorted(conds, key=repr):
            cube = bdd.apply('and', cube, bdd.of(lit))
        by[(out, eff)] = bdd.apply('or', by.get((out, eff), False), cube)
    if care is not True:
        by = dict((oe, bdd.apply('and', f, care)) for oe, f in by.items())
    return frozenset((oe, f) for oe, f in by.items() if f is not False)



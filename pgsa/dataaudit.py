"""Audits of the shipped YAML databases that several properties share.

The data files are read as data (yaml.safe_load in datafiles.py); nothing
from the repository runs.  Each audit is a necessary condition of the
property that calls it, stated on the files:

* remaps_chain_free   (C02, C04, C14): a remap target that is itself a remap
  source is substituted or not depending on the order in which groups are
  met -- not a linear substitution, not additive over components.
* patterns_distinct   (C02): two centre patterns (or two correction
  descriptors) that are the same pattern up to the fragment's name and the
  names of its labels match the same atoms, so no atom
  they match has exactly one centre / every match is counted twice.
* periph_convention   (C02): in all shipped schemes a pattern that names its
  atom as a centre uses the same name for it as a neighbour; an entry that
  differs names its atom as something else in its neighbours' groups.
* quantity_dimensions (C12): a value with a unit (explicit or file default)
  whose dimension is not that of its kind does not become a plain number
  when divided by R (and T_ref).
* uq_consistency      (C20): basis labels distinct and naming entries with
  data (x is indexed by them), matrix square / sized to the basis /
  symmetric / positive semi-definite (x'Mx >= 0), RMSE correlation valid
  wherever a basis entry is."""
import math
import re

import numpy as np

from .datafiles import libraries, canonical_group

_cache = {}


def libs_of(repo):
    if repo.root not in _cache:
        _cache[repo.root] = libraries(repo.root)
    return _cache[repo.root]


def remaps_chain_free(chk, repo, rule):
    n = 0
    for lib in libs_of(repo):
        remaps = lib.scheme.get('remaps') or {}
        bad = []
        for src_name, targets in remaps.items():
            n += 1
            if not isinstance(targets, list):
                bad.append('%s: not a list' % src_name)
                continue
            for ent in targets:
                if isinstance(ent, list) and len(ent) == 2 \
                        and ent[1] in remaps:
                    bad.append('%s -> %s is itself remapped' % (src_name,
                                                               ent[1]))
                if not (isinstance(ent, list) and len(ent) == 2
                        and isinstance(ent[0], (int, float))
                        and not isinstance(ent[0], bool)
                        and isinstance(ent[1], str)):
                    bad.append('%s: entry %r is not [number, name]'
                               % (src_name, ent))
        chk.ob(rule, not bad, lib.rel(lib.scheme_path), None,
               key='remaps-chain-free:' + lib.name, qualname='remaps',
               what='%s: every remap entry is [number, name] and no remap '
                    'target is itself a remap source (one pass of '
                    'substitution is the whole substitution, whatever the '
                    'order of the groups)' % lib.name,
               found='; '.join(bad[:5]))
    chk.need(rule, n, 20, 'remap sources in the shipped schemes')


def _norm(text):
    return re.sub(r'\s+', ' ', str(text).strip())


def _canon_tree(tree):
    """Pattern tree with the fragment name blanked and atom labels replaced
    by their order of declaration (neither affects what the pattern
    matches)."""
    labels = {}

    def walk(t):
        if not isinstance(t, list):
            return t
        if t and t[0] == 'FragmentName':
            return ('FragmentName', '_')
        if t and t[0] == 'AtomLabel' and len(t) == 2:
            return ('AtomLabel', labels.setdefault(t[1], len(labels)))
        return tuple(walk(x) for x in t)
    return walk(tree)


def patterns_distinct(chk, repo, rule):
    from . import grammar_ir
    rec = grammar_ir.Recognizer(grammar_ir.load(repo)[1])

    def _norm(text):
        try:
            return _canon_tree(rec.parse(str(text))[0])
        except grammar_ir.Fail:
            return re.sub(r'\s+', ' ', str(text).strip())
    n = 0
    for lib in libs_of(repo):
        for sec, namekey in (('patterns', 'center_name'),
                             ('other_descriptors', 'name')):
            seen = {}
            dup = []
            for i, p in enumerate(lib.scheme.get(sec) or []):
                n += 1
                t = _norm(p.get('connectivity'))
                if t in seen:
                    dup.append('%s[%d] %s repeats the pattern of %s[%d] %s'
                               % (sec, i, p.get(namekey), sec, seen[t][0],
                                  seen[t][1]))
                else:
                    seen[t] = (i, p.get(namekey))
            chk.ob(rule, not dup, lib.rel(lib.scheme_path), None,
                   key='distinct-%s:%s' % (sec, lib.name), qualname=sec,
                   what='%s: no two %s entries are the same pattern (up to '
                        'fragment and label names)'
                        % (lib.name, sec), found='; '.join(dup[:4]))
    chk.need(rule, n, 400, 'scheme pattern entries')


def periph_convention(chk, repo, rule):
    n = 0
    for lib in libs_of(repo):
        bad = []
        for i, p in enumerate(lib.scheme.get('patterns') or []):
            n += 1
            c, q = p.get('center_name'), p.get('periph_name')
            if c != 'none' and q != 'none' and c != q:
                bad.append('patterns[%d]: centre %r but neighbour label %r'
                           % (i, c, q))
        chk.ob(rule, not bad, lib.rel(lib.scheme_path), None,
               key='centre=periph:' + lib.name, qualname='patterns',
               what='%s: an atom named as a centre carries the same name '
                    'as a neighbour (convention of all shipped schemes)'
               % lib.name, found='; '.join(bad[:4]))
    chk.need(rule, n, 150, 'centre patterns')


def neighbour_wildcards(chk, repo, rule, grammar=None):
    """Which centre an atom is must not depend on the radical state of its
    neighbours: in a centre pattern every atom after the first (the centre)
    carries the `?` suffix (any number of unpaired electrons).  Confirmed on
    all 724 such atoms of the nine schemes; the one exception is the H atom
    of the H2 pattern."""
    import re
    pat = re.compile(r'(?<![A-Za-z])([A-Z][a-z]?|[$&X])([?.:+*-]*)\s+'
                     r'labeled\s+(\w+)')
    n = 0
    for lib in libs_of(repo):
        bad = []
        for i, p in enumerate(lib.scheme.get('patterns') or []):
            text = str(p.get('connectivity') or '')
            if '{' not in text:
                continue
            atoms = pat.findall(text[text.index('{') + 1:])
            for j, (el, suf, lab) in enumerate(atoms):
                if j == 0:
                    continue
                n += 1
                if suf != '?' and el != 'H':
                    bad.append('patterns[%d] (%s): neighbour %s%s labeled %s'
                               % (i, p.get('center_name'), el, suf, lab))
        chk.ob(rule, not bad, lib.rel(lib.scheme_path), None,
               key='neighbour-wildcards:' + lib.name, qualname='patterns',
               what='%s: the neighbours in a centre pattern match any '
                    'radical state (`?` suffix)' % lib.name,
               found='; '.join(bad[:4]))
    chk.need(rule, n, 400, 'neighbour atoms of centre patterns')


def quantity_dimensions(chk, repo, rule):
    from .props import c12, c14
    db = c14.unit_db(repo)
    schema, _ = c12.schema_of(repo)
    kq = dict((k, db.eval(u)) for k, u in c12.KIND_UNIT.items())
    nrec = 0
    for lib in libs_of(repo):
        for path, data in lib.files.items():
            rel = lib.rel(path)
            units = data.get('units') or {}
            bad = []
            recs = []
            for sec in ('groups', 'other_descriptors'):
                for name, recd in (data.get(sec) or {}).items():
                    if isinstance(recd, dict):
                        recs.append((name, recd.get('thermochem') or {}))
            if data.get('UQ'):
                rm = (data['UQ'].get('RMSE') or {}).get('thermochem')
                if isinstance(rm, dict):
                    recs.append(('UQ.RMSE', rm))
            for name, tc in recs:
                nrec += 1
                for x in c14.audit_record(tc, schema, units, db, kq, [],
                                          rel):
                    if 'is not a' in x or 'does not parse' in x \
                            or 'not a temperature' in x \
                            or 'is not in the schema' in x:
                        # (a misspelt member is ignored with a warning and
                        # its schema default used instead)
                        bad.append('%s: %s' % (name, x))
                for txt in _quantity_strings(tc):
                    if not _one_magnitude(txt):
                        bad.append('%s: %r does not read as one number '
                                   'followed by a unit (juxtaposed factors '
                                   'multiply: "10 .5 cal" is 5 cal)'
                                   % (name, txt))
            if recs:
                chk.ob(rule, not bad, rel, None, key='dimensions:' + rel,
                       qualname='groups',
                       what='%s: every value with a unit (explicit or file '
                            'default) has the dimension of its kind, so it '
                            'loads to a plain number' % rel,
                       found='; '.join(bad[:5]))
    chk.need(rule, nrec, 500, 'correlation records')


def _quantity_strings(tc):
    out = []

    def walk(v):
        if isinstance(v, str):
            out.append(v)
        elif isinstance(v, (list, tuple)):
            for x in v:
                walk(x)
    for k, v in (tc or {}).items():
        walk(v)
    return out


_NUM = r'[-+]?(?:\d+\.?\d*|\.\d+)(?:[eE][-+]?\d+)?'


def _one_magnitude(text):
    """`<number> <unit expression>` where the unit expression contains
    numbers only as exponents (after ^) -- or a bare number."""
    import re
    t = text.strip()
    m = re.match(_NUM, t)
    if not m:
        return True         # no leading number: not this rule's business
    rest = t[m.end():]
    if not rest.strip():
        return True
    if not rest[:1].isspace() and not rest[:1].isalpha() \
            and rest[:1] not in '*/(':
        return False
    # numbers in the rest must follow '^' (optionally '^(' and a sign)
    for mm in re.finditer(_NUM, rest):
        pre = rest[:mm.start()].rstrip()
        if pre.endswith('^') or pre.endswith('^(') or re.search(
                r'\^\(?[-+]?$', pre):
            continue
        if re.search(r'[A-Za-z]$', rest[:mm.start()]):
            return False    # 'm2' style is not the library's syntax either
        return False
    return True


def _span(tc, db, tdef):
    from .props import c14
    rng = tc.get('range')
    if isinstance(rng, list) and len(rng) == 2:
        lo, hi = c14.to_kelvin(db, rng[0], tdef), c14.to_kelvin(
            db, rng[1], tdef)
        if lo is not None and hi is not None:
            return lo, hi
    ts = []
    for key in ('Cp_data', 'ND_Cp_data'):
        for row in (tc.get(key) or []):
            if isinstance(row, list) and len(row) == 2:
                t = c14.to_kelvin(db, row[0], tdef)
                if t is not None:
                    ts.append(t)
    if ts:
        return min(ts), max(ts)
    return None


def uq_consistency(chk, repo, rule):
    from .props import c14
    db = c14.unit_db(repo)
    nuq = 0
    for lib in libs_of(repo):
        names = {}
        for path, data in lib.files.items():
            tdef = (data.get('units') or {}).get('temperature')
            for sec in ('groups', 'other_descriptors'):
                for name, recd in (data.get(sec) or {}).items():
                    cn = canonical_group(str(name)) if sec == 'groups' \
                        else str(name)
                    tc = (recd or {}).get('thermochem') if isinstance(
                        recd, dict) else None
                    names[cn] = _span(tc or {}, db, tdef)
        for rel, u in lib.uq_blocks():
            nuq += 1
            bad = []
            icm = u.get('InvCovMat') or {}
            basis = [str(b) for b in (icm.get('groups') or [])]
            dups = sorted(set(b for b in basis if basis.count(b) > 1))
            if dups:
                bad.append('basis lists %s more than once (counts go to '
                           'the first position)' % dups)
            missing = [b for b in basis if b not in names]
            if missing:
                bad.append('basis labels without an entry in this library: '
                           '%s' % missing[:4])
            try:
                M = np.array(icm.get('mat'), dtype=float)
                if M.ndim != 2 or M.shape[0] != M.shape[1]:
                    bad.append('matrix shape %s is not square' % (M.shape,))
                elif M.shape[0] != len(basis):
                    bad.append('matrix is %dx%d, basis has %d labels'
                               % (M.shape + (len(basis),)))
                elif not np.all(np.isfinite(M)):
                    bad.append('non-finite matrix entries')
                else:
                    asym = float(np.max(np.abs(M - M.T)))
                    scale = float(np.max(np.abs(M))) or 1.0
                    if asym > 1e-6 * scale:
                        i, j = np.unravel_index(np.argmax(np.abs(M - M.T)),
                                                M.shape)
                        bad.append('not symmetric: M[%d][%d]=%g, '
                                   'M[%d][%d]=%g' % (i, j, M[i, j], j, i,
                                                     M[j, i]))
                    else:
                        ev = np.linalg.eigvalsh((M + M.T) / 2)
                        if ev.min() < -1e-6 * max(1.0, float(np.trace(M))):
                            bad.append('not positive semi-definite '
                                       '(smallest eigenvalue %g): x\'Mx is '
                                       'negative for some counts' % ev.min())
            except (TypeError, ValueError) as exc:
                bad.append('matrix is not numeric: %s' % exc)
            rm = (u.get('RMSE') or {}).get('thermochem')
            if not isinstance(rm, dict):
                bad.append('RMSE.thermochem missing')
            else:
                rs = _span(rm, db, None)
                if rs is None:
                    bad.append('RMSE correlation has no temperature span')
                else:
                    out = []
                    for b in basis:
                        sp = names.get(b)
                        if sp is not None and (sp[0] < rs[0] - 1e-9
                                               or sp[1] > rs[1] + 1e-9):
                            out.append('%s [%g, %g]' % (b, sp[0], sp[1]))
                    if out:
                        bad.append('RMSE valid only on [%g, %g] K but basis '
                                   'entries are valid on a wider range: %s'
                                   % (rs[0], rs[1], ', '.join(out[:3])))
            chk.ob(rule, not bad, rel, None, key='uq-consistent:' + rel,
                   qualname='UQ',
                   what='%s: basis labels distinct and naming entries of '
                        'this library; matrix square, sized to the basis, '
                        'symmetric, positive semi-definite; RMSE valid '
                        'wherever a basis entry is' % rel,
                   found='; '.join(bad[:5]))
    # the property speaks of the three shipped libraries with uncertainty
    # data: a block that is no longer reached (its include line lost) is a
    # violation, not a smaller inventory
    chk.ob(rule, nuq >= 3, None, None, key='three-uncertainty-blocks',
           qualname='UQ',
           what='at least three shipped libraries reach an uncertainty '
                'block through their includes', found='%d' % nuq)


def names_disjoint(chk, repo, rule):
    """A correction descriptor and a group are merged into one result
    mapping (`groups.copy().update(descriptors)`): a descriptor whose name a
    group can also have overwrites that group's count.  A group without
    named neighbours is called exactly like its centre, so descriptor names
    must differ from every centre name (and from every group name with
    data)."""
    n = 0
    for lib in libs_of(repo):
        centres = set(str(p.get('center_name')) for p in (
            lib.scheme.get('patterns') or []))
        gnames = set()
        for f, sec, name, rec in lib.entries():
            if sec == 'groups':
                gnames.add(canonical_group(str(name)))
        for i, p in enumerate(lib.scheme.get('other_descriptors') or []):
            n += 1
            name = str(p.get('name'))
            clash = name in centres
            if clash:
                chk.ob(rule, False, lib.rel(lib.scheme_path), None,
                       key='descriptor-name-is-a-group-name:%s:%s' % (
                           lib.name, name), qualname='other_descriptors',
                       what='%s: correction descriptor %r has the name of '
                            'the group a centre pattern %r produces for an '
                            'atom without named neighbours: in the merged '
                            'result the descriptor count replaces the group '
                            'count' % (lib.name, name, name))
        chk.ob(rule, True, lib.rel(lib.scheme_path), None,
               key='descriptor-names-audited:' + lib.name,
               qualname='other_descriptors',
               what='%s: descriptor names compared with centre and group '
                    'names' % lib.name)
    chk.need(rule, n, 150, 'correction descriptors')

"""C06 -- no property is returned outside the valid range unsignalled."""
import ast
from fractions import Fraction

from .. import sym
from ..match import SELF, params, is_call, dotted_key
from ..source import AnalysisError, src, dotted
from ..sym import show
from . import c01

EXPLANATION = (
    "R06.1: in the table correlation every public evaluator calls "
    "self.check_range(its own T) before any other event on every path. "
    "R06.2: check_range raises OutsideCorrelationError exactly when "
    "T < range[0] or T > range[1], with the only bypass range is None "
    "(decision table of its enumerated paths; np.any is transparent). "
    "R06.3: the table constructor raises ValueError exactly when a table "
    "end or T_ref lies outside the range, and defaults the range to the "
    "table span. R06.4: the incomplete-data wrapper converts a constituent's "
    "OutsideCorrelationError to IncompleteDataError, raises it when the "
    "datum is absent, and on the no-heat-capacity branch emits "
    "warn(..., IncompleteDataWarning) directly whenever T != T_ref before "
    "returning the reference value. R06.5: the estimator's range is the "
    "intersection: first constituent range, then lower<-max, upper<-min, "
    "None-tests by identity (also for whether the estimate has a range at "
    "all: 0 K is a bound), inside the complete term loop. R06.6: "
    "estimator methods hand their own T unchanged to every constituent.")
NOT_DECIDED = "finiteness of the values returned inside the range"
ASSUMPTIONS = ["np.any(c) of a comparison is true iff the comparison holds "
               "for some element", "warnings.warn emits its category"]

BASE = 'pgradd/ThermoChem/base.py'
RAW = 'pgradd/ThermoChem/raw_data.py'
INC = 'pgradd/ThermoChem/incomplete.py'
GD = 'pgradd/ThermoChem/group_data.py'


def A(name):
    return ('attr', SELF, name)


def N(i):
    return ('num', Fraction(i))


def sub(k, i):
    if k[0] in ('tuple', 'list') and -len(k[1]) <= i < len(k[1]):
        return k[1][i]
    return ('sub', k, N(i))


CHECK_RANGE_REF = """
def f(self, T):
    if self.range is None:
        return
    if np.any(T < self.range[0]) or np.any(T > self.range[1]):
        raise OutsideCorrelationError('x')
"""


def outside(x, rng):
    """normal form of  x < rng[0] or x > rng[1]"""
    return ('or', tuple(sorted([('cmp', '<', x, sub(rng, 0)),
                                ('cmp', '<', sub(rng, 1), x)],
                               key=repr)))


def run(chk, repo, tier):
    # ---- R06.1 ----------------------------------------------------------
    n = 0
    for mname in ('get_CpoR', 'get_SoR', 'get_HoRT'):
        f = repo.func(RAW, 'ThermochemRawData.' + mname)
        tn = params(f)[1]
        want = ('call', A('check_range'), (('name', tn),), ())
        for p in sym.summarize(f):
            n += 1
            first = [e for e in p.trace if e[0] in ('call', 'cond', 'store',
                                                    'expr')]
            ok = bool(first) and first[0][0] == 'call' and first[0][1] == want
            chk.ob('R06.1', ok, RAW, f,
                   key='%s:%s' % (mname, ';'.join(
                       ('' if pol else '!') + show(k)
                       for k, pol in p.conds())),
                   what='%s checks the range of its own T before anything '
                        'else' % mname,
                   found=show(first[0][1]) if first else 'no events',
                   required=show(want))
    chk.need('R06.1', n, 20, 'evaluator paths')
    # nothing overrides check_range / get_range
    over = []
    for rel, c in repo.classes():
        if c.name == 'ThermochemBase':
            continue
        for s in c.body:
            if isinstance(s, ast.FunctionDef) and s.name in ('check_range',
                                                             'get_range'):
                over.append('%s.%s' % (c.name, s.name))
    chk.ob('R06.1', not over, BASE, repo.cls(BASE, 'ThermochemBase'),
           key='no-override', what='check_range/get_range are not '
                                   'overridden', found=', '.join(over),
           qualname='ThermochemBase')

    # ---- R06.2 ----------------------------------------------------------
    f = repo.func(BASE, 'ThermochemBase.check_range')
    tn = params(f)[1]
    from .. import refcmp
    refcmp.check(chk, 'R06.2', BASE, f, CHECK_RANGE_REF,
                 key='check_range-table',
                 what='check_range raises OutsideCorrelationError iff T < '
                      'range[0] or T > range[1]; only bypass: range is None')
    gr = sym.summarize(repo.func(BASE, 'ThermochemBase.get_range'))
    chk.ob('R06.2', len(gr) == 1 and gr[0].outcome == ('return', A('range')),
           BASE, repo.func(BASE, 'ThermochemBase.get_range'),
           key='get_range', what='get_range returns the stored range',
           found='; '.join(p.describe() for p in gr))
    sr = repo.func(BASE, 'ThermochemBase.set_range')
    srp = sym.summarize(sr)
    chk.ob('R06.2', len(srp) == 1 and [(e[1], e[2]) for e in
                                       srp[0].stores()] == [
        (A('range'), ('name', params(sr)[1]))], BASE, sr, key='set_range',
        what='set_range stores its argument as the range')
    bi = repo.func(BASE, 'ThermochemBase.__init__')
    rp = params(bi)[1]
    okb = True
    for p in sym.summarize(bi):
        if p.outcome[0] == 'raise':
            continue
        st = [(e[1], e[2]) for e in p.stores()]
        if p.says(('cmp', 'is', ('name', rp), ('const', None)), True):
            okb = okb and st == [(A('range'), ('name', rp))]
        else:
            okb = okb and st == [(A('range'), ('call', ('name', 'tuple'),
                                               (('name', rp),), ()))]
    chk.ob('R06.2', okb, BASE, bi, key='base-init',
           what='the base constructor stores the given range (as a tuple) '
                'unchanged')

    # ---- R06.3 ----------------------------------------------------------
    f = repo.func(RAW, 'ThermochemRawData.__init__')
    ps = params(f)
    tref, rng = ('name', ps[5]), ('name', ps[6])
    paths = sym.summarize(f)
    is_none = ('cmp', 'is', rng, ('const', None))
    span = ('tuple', (A('min_T'), A('max_T')))
    table_out = ('or', tuple(sorted([
        ('cmp', '<', A('min_T'), ('sub', rng, N(0))),
        ('cmp', '<', ('sub', rng, N(1)), A('max_T'))], key=repr)))
    nraise = 0
    ok = True
    found = []
    # normalise forwarded self.min_T/max_T values back to attribute reads
    fwd = {}
    for p in paths:
        for e in p.stores():
            if e[1] in (A('min_T'), A('max_T')):
                fwd[e[2]] = e[1]

    def norm(k):
        from .c05 import _sub_atom
        return sym.rename(_sub_atom(k, fwd), {})
    for p in paths:
        facts = dict((norm(a), v) for a, v in p.facts().items())
        given = facts.get(is_none) is False
        eff_rng = rng if given else span
        tref_out = outside(tref, eff_rng)
        if p.outcome[0] == 'raise':
            nraise += 1
            if p.outcome[1] != 'ValueError':
                ok = False
                found.append(p.describe()[:200])
                continue
            conds = [(norm(k), pol) for k, pol in p.conds()]
            last = conds[-1] if conds else None
            good = last is not None and last[1] and (
                (given and last[0] == table_out) or last[0] == tref_out)
            if not good:
                ok = False
                found.append(p.describe()[:300])
        else:
            # success: both containment tests were evaluated and false
            need = [tref_out] + ([table_out] if given else [])
            for t in need:
                if not any(norm(k) == t and not pol for k, pol in p.conds()):
                    ok = False
                    found.append('success path without test %s' % show(t))
            base_calls = [c for c in p.calls()
                          if is_call(c) and dotted_key(c[1]) ==
                          'ThermochemBase.__init__']
            if len(base_calls) != 1 or norm(base_calls[0][2][1:]) not in (
                    (eff_rng,), (norm(eff_rng),)):
                ok = False
                found.append('base init with %s' % (
                    show(base_calls[0]) if base_calls else 'nothing'))
    chk.ob('R06.3', ok and nraise >= 2, RAW, f, key='constructor-containment',
           what='ValueError iff a table end is outside the given range, or '
                'T_ref is outside the (given or default = table span) range; '
                'the base class receives that range',
           found=' || '.join(found)[:700])

    # ---- R06.4 ----------------------------------------------------------
    cp_atom = ('truthy', A('ND_Cp_data'))
    spec = {'get_CpoR': None, 'get_HoRT': 'ND_H_ref', 'get_SoR': 'ND_S_ref'}
    for mname, ref in spec.items():
        f = repo.func(INC, 'ThermochemIncomplete.' + mname)
        tn = ('name', params(f)[1])
        paths = sym.summarize(f)
        none_atom = ('cmp', 'is', A(ref), ('const', None)) if ref else None
        neq = ('cmp', '==', tuple(sorted((tn, A('T_ref')), key=repr)))
        problems = []
        seen = set()
        for p in paths:
            facts = p.facts()
            handler = [e for e in p.trace if e[0] in ('except', 'caught')]
            if ref and facts.get(none_atom) is True:
                seen.add('absent')
                if not (p.outcome[0] == 'raise'
                        and p.outcome[1] == 'IncompleteDataError'):
                    problems.append('absent datum: ' + p.describe()[:200])
                continue
            if ref and facts.get(none_atom) is None:
                problems.append('a value is produced without testing that '
                                'the reference datum is present: '
                                + p.describe()[:200])
                continue
            if facts.get(cp_atom) is False:
                seen.add('noCp')
                if ref is None:
                    if not (p.outcome[0] == 'raise'
                            and p.outcome[1] == 'IncompleteDataError'):
                        problems.append('no Cp: ' + p.describe()[:200])
                    continue
                warns = [c for c in p.calls() if is_call(c)
                         and c[1] == ('name', 'warn')
                         and len(c[2]) >= 2
                         and c[2][1] == ('name', 'IncompleteDataWarning')]
                differs = facts.get(neq)
                if differs is False:      # T != T_ref
                    seen.add('warn')
                    if len(warns) != 1:
                        problems.append('T != T_ref without a direct '
                                        'warn(..., IncompleteDataWarning): '
                                        + p.describe()[:200])
                elif differs is None:
                    problems.append('reference value returned without '
                                    'testing T != T_ref: '
                                    + p.describe()[:200])
                if p.outcome != ('return', A(ref)):
                    problems.append('no-Cp branch returns %s' % (
                        p.describe()[:200]))
                continue
            # with Cp data
            if handler:
                seen.add('handler')
                names = handler[0][1] if handler[0][0] == 'except' \
                    else handler[0][2]
                if names != ('OutsideCorrelationError',) or not (
                        p.outcome[0] == 'raise'
                        and p.outcome[1] == 'IncompleteDataError'):
                    problems.append('handler %r -> %s' % (
                        names, p.describe()[:160]))
            else:
                seen.add('delegate')
        need = {'noCp', 'handler', 'delegate'} | (
            {'absent', 'warn'} if ref else set())
        chk.ob('R06.4', not problems and need <= seen, INC, f,
               key='wrapper:' + mname,
               what='%s: absent datum -> IncompleteDataError; no Cp data -> '
                    'warn when T != T_ref then the reference value; '
                    'OutsideCorrelationError -> IncompleteDataError'
                    % mname,
               found=' || '.join(problems)[:700] or 'branches seen: %s'
               % sorted(seen))
    # warn is warnings.warn
    ok = any(isinstance(s, ast.ImportFrom) and s.module == 'warnings'
             and any(a.name == 'warn' and a.asname is None for a in s.names)
             for s in repo.mod(INC).tree.body)
    chk.ob('R06.4', ok, INC, repo.mod(INC).tree.body[0], key='warn-import',
           what='`warn` is warnings.warn', qualname='<module>')

    # ---- R06.5 ----------------------------------------------------------
    pset, _, est = c01.find_registration(repo)
    init = repo.methods(GD, est)['__init__']
    loops = [n for n in ast.walk(init) if isinstance(n, ast.For)
             and any(isinstance(c, ast.Call) and isinstance(c.func,
                                                            ast.Attribute)
                     and c.func.attr == 'get_range' for c in ast.walk(n))]
    chk.need('R06.5', len(loops), 1, 'range-intersection loop')
    loop = loops[0]
    has_append = any(isinstance(c, ast.Call) and isinstance(
        c.func, ast.Attribute) and c.func.attr == 'append'
        and dotted(c.func.value) == 'self.correlations'
        for c in ast.walk(loop))
    chk.ob('R06.5', has_append, GD, loop, key='same-loop',
           what='ranges are intersected in the same complete loop that '
                'collects the terms (rule R01.2)')
    # names of the two accumulators: assigned None before the loop
    accs = []
    for s in init.body:
        if s is loop:
            break
        if isinstance(s, ast.Assign) and isinstance(s.value, ast.Constant) \
                and s.value.value is None:
            accs += [t.id for t in s.targets if isinstance(t, ast.Name)]
    chk.ob('R06.5', len(accs) == 2, GD, init, key='accumulators-start-None',
           what='two accumulators start as None before the loop',
           found=str(accs))
    if len(accs) == 2:
        S = sym.Summarizer(record_calls=False)
        st = sym.State(env={accs[0]: ('name', accs[0]),
                            accs[1]: ('name', accs[1])})
        S._bind_target(loop.target, ('bv', 0), st)
        outs = S.block(loop.body, st)
        lo, hi = ('name', accs[0]), ('name', accs[1])
        problems = []
        seen = set()
        for s2, o in outs:
            p = sym.Path(s2, o or ('fall',))
            facts = p.facts()
            # the range value: what is compared with None
            rvals = [a[2] for a in facts if a[0] == 'cmp' and a[1] == 'is'
                     and a[3] == ('const', None) and a[2] not in (lo, hi)]
            if not rvals:
                problems.append('no `range is None` test: '
                                + p.describe()[:160])
                continue
            r = rvals[0]
            if not (sym.method_call if False else True):
                pass
            mc = r if is_call(r) else None
            if mc is None or not (mc[1][0] == 'attr'
                                  and mc[1][2] == 'get_range'):
                problems.append('range value is %s' % show(r))
                continue
            r_none = facts.get(('cmp', 'is', r, ('const', None)))
            lo_none = facts.get(('cmp', 'is', lo, ('const', None)))
            new_lo, new_hi = sym.key(s2.env[accs[0]]), sym.key(
                s2.env[accs[1]])
            if r_none is True:
                seen.add('none')
                if (new_lo, new_hi) != (lo, hi):
                    problems.append('range None changes accumulators')
            elif lo_none is True:
                seen.add('first')
                if (new_lo, new_hi) != (('sub', r, N(0)), ('sub', r, N(1))):
                    problems.append('first range: %s, %s' % (show(new_lo),
                                                             show(new_hi)))
            elif lo_none is False:
                seen.add('meet')
                wl = ('call', ('name', 'max'), (lo, ('sub', r, N(0))), ())
                wl2 = ('call', ('name', 'max'), (('sub', r, N(0)), lo), ())
                wh = ('call', ('name', 'min'), (hi, ('sub', r, N(1))), ())
                wh2 = ('call', ('name', 'min'), (('sub', r, N(1)), hi), ())
                if new_lo not in (wl, wl2) or new_hi not in (wh, wh2):
                    problems.append('meet: lower=%s upper=%s'
                                    % (show(new_lo), show(new_hi)))
            else:
                problems.append('accumulator emptiness not tested by '
                                'identity with None: ' + p.describe()[:200])
        chk.ob('R06.5', not problems and seen == {'none', 'first', 'meet'},
               GD, loop, key='intersection',
               what='estimate range = intersection of constituent ranges '
                    '(first range, then lower<-max, upper<-min; None tested '
                    'by identity)',
               found=' || '.join(problems)[:600] or str(sorted(seen)))
        # final hand-over
        okf = True
        fpaths = sym.summarize(init)
        for p in fpaths:
            bc = [c for c in p.calls() if is_call(c)
                  and dotted_key(c[1]) == 'ThermochemBase.__init__']
            if len(bc) != 1:
                okf = False
                continue
            kw = dict(bc[0][3])
            arg = kw.get('range', bc[0][2][1] if len(bc[0][2]) > 1 else None)
            if arg == ('const', None):
                continue
            if not (arg is not None and arg[0] == 'tuple'
                    and len(arg[1]) == 2):
                okf = False
        chk.ob('R06.5', okf, GD, init, key='range-handed-to-base',
               what='the estimator passes (lower, upper) or None to the base '
                    'constructor on every path')
        # "no range" is decided by identity with None, never by truth value:
        # a lower bound of 0 K is a bound
        truthy_tests = []
        for p in fpaths:
            for k, pol in p.conds():
                for lit in sym.lits_of(k, pol):
                    for at in sym.bool_atoms(lit):
                        if at[0] == 'truthy' and sym.mentions(
                                at[1], lambda x: x[0] == 'attr'
                                and x[2] == 'get_range'):
                            truthy_tests.append(sym.show(at)[:120])
        chk.ob('R06.5', not truthy_tests, GD, init, key='range-by-identity',
               what='whether the estimate has a range is decided with '
                    '`is None`, not by the truth value of a bound (0 K is a '
                    'bound)', found='; '.join(sorted(set(truthy_tests))[:3]))

    # ---- R06.6 ----------------------------------------------------------
    pset2, _, est2 = c01.find_registration(repo)
    em = repo.methods(GD, est2)
    for mname in ('get_CpoR', 'get_HoRT', 'get_SoR'):
        f = em[mname]
        tn = params(f)[1]
        # on the path summaries, so that a summation moved into a helper
        # (followed by the summariser) is seen where it is evaluated
        calls = set()
        ok = True
        handler = False
        for p in sym.summarize(f):
            handler = handler or sym.has_handler(p)
            for k in sym.path_keys(p):
                if is_call(k) and k[1][0] == 'attr' and k[1][2] == mname \
                        and k[1][1] != SELF:
                    calls.add(k)
                    if k[2] != (('name', tn),) or k[3]:
                        ok = False
        ok = ok and bool(calls)
        chk.ob('R06.6', ok and not handler and not c01.has_try(f), GD, f,
               key='own-T-to-constituents:' + mname,
               what='%s hands its own T unchanged to every constituent\'s '
                    '%s and has no handler that could swallow their range '
                    'errors' % (mname, mname),
               found='; '.join(show(c) for c in calls))
    # ---- R06.7 the wrapper's delegate enforces the wrapper's own range --------
    setup = repo.func(INC, 'ThermochemIncomplete._setup_correlation')
    built = []
    for p in sym.summarize(setup):
        for e in p.stores():
            if e[1] == A('_correlation'):
                built.append(e[2])
    chk.need('R06.7', len(built), 1, 'constructions of the delegate')
    for v in built:
        ok = (is_call(v) and v[1] == ('name', 'ThermochemRawData')
              and len(v[2]) == 6 and not v[3]
              and v[2][5] in (('call', A('get_range'), (), ()), A('range')))
        chk.ob('R06.7', ok, INC, setup, key='delegate-range',
               what='the table correlation the wrapper delegates to is built '
                    'with the wrapper\'s own range (so it refuses a table or '
                    'T_ref outside it and checks every T against it)',
               found=show(v)[:200])
    from .. import reviewed as _rv
    for mname in ('get_CpoR', 'get_HoRT', 'get_SoR'):
        _rv.check(chk, 'R06.4', repo, INC, 'ThermochemIncomplete.' + mname,
                  'ThermochemIncomplete.%s is unchanged in normal form from '
                  'its reviewed reference (every combination of absent '
                  'datum / no heat capacities / T = T_ref ends in the '
                  'documented value, warning or error)' % mname)


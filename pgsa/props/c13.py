"""C13 -- merging library files is a conflict-checked, order-free union."""
import ast

from .. import sym, refcmp
from ..match import SELF, params, is_call
from ..source import AnalysisError, dotted, src as src_
from ..sym import show
from .c19 import do_load_keys

EXPLANATION = (
    "R13.1 failure atomicity: on every enumerated path of "
    "ThermochemIncomplete.update no event that changes the receiver (store "
    "to a self attribute, item store into an object reachable from self, "
    "set_range/_setup_correlation/del_*) precedes a point that can still "
    "raise (explicit raise, construction or evaluation of the scratch "
    "correlation); raising paths change nothing. R13.2: the table being "
    "extended is a copy of the receiver's, never an alias. R13.3-5: update "
    "is compared in normal form with a reference: union of ranges "
    "(lower<-min, upper<-max), per Cp point / H / S the conflict test "
    "`not overwrite and present and differs -> ReadOnlyDataError` before "
    "the datum is taken, presence by `is not None`, commit of all fields "
    "then one rebuild, which is unconditional (no path of "
    "_setup_correlation with heat-capacity data keeps an older delegate). "
    "R13.6: GroupLibrary.Update copies on first sight, "
    "otherwise delegates with the caller's overwrite flag, over complete "
    "loops. R13.7: duplicate names in one file are rejected on the parsed "
    "key; includes are merged in a complete loop through Update without "
    "overwrite.")
NOT_DECIDED = ("idempotence and order-freedom up to floating point "
               "(isclose(rel_tol=1e-15) after re-evaluation through the "
               "spline)")
ASSUMPTIONS = ["dict.copy() returns an independent dict of the same items",
               "constructors and evaluators of the scratch correlation may "
               "raise; attribute stores do not"]

INC = 'pgradd/ThermoChem/incomplete.py'
LIB = 'pgradd/GroupAdd/Library.py'

REF_UPDATE = """
def f(self, correlation, overwrite=False):
    if not isinstance(correlation, type(self)):
        raise TypeError('x')
    data_range = self.get_range()
    T_ref = self.T_ref
    ND_H_ref = self.ND_H_ref
    ND_S_ref = self.ND_S_ref
    ND_Cp_data = self.ND_Cp_data.copy()
    other_data_range = correlation.get_range()
    if other_data_range is not None:
        if data_range is None:
            data_range = other_data_range
        else:
            data_range = (min(data_range[0], other_data_range[0]),
                          max(data_range[1], other_data_range[1]))
    if correlation.has_ND_Cp():
        other_ND_Cp_data = correlation.ND_Cp_data
        for T in other_ND_Cp_data:
            if (not overwrite and T in self.ND_Cp_data
                    and other_ND_Cp_data[T] != ND_Cp_data[T]):
                raise ReadOnlyDataError('x')
            ND_Cp_data[T] = other_ND_Cp_data[T]
        (Ts, ND_Cps) = self._expand_ND_Cp_data(ND_Cp_data)
    else:
        (Ts, ND_Cps) = self._expand_ND_Cp_data(ND_Cp_data)
    if correlation.has_ND_H() or correlation.has_ND_S():
        other_T_ref = correlation.T_ref
        other_ND_H_ref = correlation.ND_H_ref
        other_ND_S_ref = correlation.ND_S_ref
        test_correlation = type(self)(other_ND_H_ref, other_ND_S_ref,
                                      ND_Cp_data, other_T_ref, data_range)
        if correlation.has_ND_H():
            new_ND_H_ref = test_correlation.get_HoRT(T_ref)
            if (not overwrite and ND_H_ref is not None
                    and not isclose(new_ND_H_ref, ND_H_ref, rel_tol=1e-15)):
                raise ReadOnlyDataError('x')
            ND_H_ref = new_ND_H_ref
        if correlation.has_ND_S():
            new_ND_S_ref = test_correlation.get_SoR(T_ref)
            if (not overwrite and ND_S_ref is not None
                    and not isclose(new_ND_S_ref, ND_S_ref, rel_tol=1e-15)):
                raise ReadOnlyDataError('x')
            ND_S_ref = new_ND_S_ref
    self.set_range(data_range)
    self.T_ref = T_ref
    self.ND_H_ref = ND_H_ref
    self.ND_S_ref = ND_S_ref
    self.ND_Cp_data = ND_Cp_data
    self._setup_correlation()
"""

REFS_INC = {
    'has_ND_H': "def f(self):\n    return self.ND_H_ref is not None\n",
    'has_ND_S': "def f(self):\n    return self.ND_S_ref is not None\n",
    'has_ND_Cp': "def f(self, T=None):\n    if T is None:\n"
                 "        return bool(self.ND_Cp_data)\n    else:\n"
                 "        return T in self.ND_Cp_data\n",
    'copy': "def f(self):\n    return type(self)(self.ND_H_ref, "
            "self.ND_S_ref, self.ND_Cp_data, self.T_ref, self.range)\n",
    '__init__': "def f(self, ND_H_ref=None, ND_S_ref=None, ND_Cp_data={}, "
                "T_ref=298.15, range=None):\n"
                "    ThermochemBase.__init__(self, range=range)\n"
                "    self.ND_H_ref = ND_H_ref\n"
                "    self.ND_S_ref = ND_S_ref\n"
                "    self.ND_Cp_data = ND_Cp_data.copy()\n"
                "    self.T_ref = T_ref\n"
                "    self._setup_correlation()\n",
}

REF_LIB_UPDATE = """
def f(self, lib, overwrite=False):
    for (group, other_property_sets) in list(lib.items()):
        if group not in self.contents:
            self.contents[group] = {}
        property_sets = self.contents[group]
        for name in other_property_sets:
            if name not in property_sets:
                property_sets[name] = other_property_sets[name].copy()
            else:
                property_sets[name].update(other_property_sets[name],
                                           overwrite)
    if self.uq_contents and lib.uq_contents:
        raise ValueError('x')
    if not self.uq_contents:
        self.uq_contents = lib.uq_contents
"""


def self_rooted(k):
    """Is the object denoted by key k reachable from self (no copy/ctor in
    between)?"""
    while True:
        if k == SELF:
            return True
        if k[0] in ('attr', 'sub'):
            k = k[1]
            continue
        return False


MUTATING_SELF_CALLS = ('set_range', '_setup_correlation', 'del_ND_Cp',
                       'del_ND_H_ref', 'del_ND_S_ref', 'update',
                       '__init__', 'init_params')


def events_flat(trace):
    """Yield (kind, payload) in order, descending into loop summaries."""
    for e in trace:
        if e[0] == 'loop':
            for tr, o in e[2]:
                for x in events_flat(tr):
                    yield x
        elif e[0] == 'loop-part':
            for x in events_flat(e[2]):
                yield x
        else:
            yield e


def classify(e):
    """'mutate' / 'mayraise' / None for one event."""
    if e[0] == 'store' and self_rooted(e[1]):
        return 'mutate'
    if e[0] == 'del' and self_rooted(e[1]):
        return 'mutate'
    if e[0] == 'call':
        k = e[1]
        if is_call(k):
            f = k[1]
            if f[0] == 'attr' and f[1] == SELF and f[2] in \
                    MUTATING_SELF_CALLS:
                return 'mutate'
            if f[0] == 'attr' and self_rooted(f[1]) and f[2] in (
                    'update', 'clear', 'pop', 'setdefault', 'append',
                    'extend', 'remove', 'popitem'):
                return 'mutate'
            # constructor of the scratch correlation / its evaluators
            if is_call(f) and f[1] == ('name', 'type'):
                return 'mayraise'
            if f[0] == 'attr' and f[2] in ('get_HoRT', 'get_SoR',
                                           'get_CpoR'):
                return 'mayraise'
    return None


def run(chk, repo, tier):
    upd = repo.func(INC, 'ThermochemIncomplete.update')
    paths = sym.summarize(upd)
    chk.need('R13.1', len(paths), 8, 'paths of update')
    n_raise = 0
    bad_atomic = []
    bad_raise = []
    for p in paths:
        evs = [(classify(e), e) for e in events_flat(p.trace)]
        kinds = [k for k, e in evs if k]
        if p.outcome[0] == 'raise':
            n_raise += 1
            muts = [e for k, e in evs if k == 'mutate']
            if muts:
                bad_raise.append('%s  after %s' % (
                    p.describe()[-120:], '; '.join(
                        show(e[1])[:60] for e in muts[:2])))
        else:
            seen_mut = None
            for k, e in evs:
                if k == 'mutate' and seen_mut is None:
                    seen_mut = e
                elif k == 'mayraise' and seen_mut is not None:
                    bad_atomic.append('%s precedes %s' % (
                        show(seen_mut[1])[:80], show(e[1])[:80]))
                    break
    chk.ob('R13.1', not bad_raise, INC, upd, key='raise-paths-change-nothing',
           what='a rejected merge leaves the correlation unchanged: no path '
                'that raises has changed the receiver (%d raising paths)'
                % n_raise, found=' || '.join(sorted(set(bad_raise))[:4]))
    chk.ob('R13.1', not bad_atomic, INC, upd, key='commit-after-last-raise',
           what='the receiver is changed only after the last point that can '
                'raise', found=' || '.join(sorted(set(bad_atomic))[:4]))
    chk.need('R13.1', n_raise, 4, 'raising paths of update')
    # ---- R13.2 copy not alias ---------------------------------------------
    aliases = []
    for n in ast.walk(upd):
        if isinstance(n, ast.Assign) and isinstance(n.value, ast.Attribute) \
                and dotted(n.value) == 'self.ND_Cp_data':
            aliases.append('%s = self.ND_Cp_data @%d' % (
                ast.unparse(n.targets[0]), n.lineno))
    chk.ob('R13.2', not aliases, INC, upd, key='table-copied',
           what='the working Cp table is a copy of the receiver\'s table',
           found=', '.join(aliases))
    # ---- R13.3-5 reference --------------------------------------------------
    refcmp.check(chk, 'R13.3', INC, upd, REF_UPDATE,
                 key='ThermochemIncomplete.update',
                 what='update = union of ranges, per-datum conflict test '
                      'before taking the datum, commit of all fields, one '
                      'rebuild')
    # the "one rebuild" that ends a merge reflects every merged field
    from .c05 import rebuild_unconditional
    rebuild_unconditional(chk, repo, 'R13.3')
    meths = repo.methods(INC, 'ThermochemIncomplete')
    for m, ref in REFS_INC.items():
        rule = 'R13.4' if m.startswith('has_') else 'R13.6'
        refcmp.check(chk, rule, INC, meths[m], ref,
                     key='ThermochemIncomplete.' + m,
                     what={'has_ND_H': 'presence of H is `is not None` '
                                       '(zero is a value)',
                           'has_ND_S': 'presence of S is `is not None`',
                           'has_ND_Cp': 'presence of Cp data / of a point',
                           'copy': 'copy() rebuilds from the five fields '
                                   '(the constructor copies the table)',
                           '__init__': 'the constructor copies the Cp '
                                       'mapping it is given'}[m])
    # evaluators use the same notion of absence
    for m, attr in (('get_HoRT', 'ND_H_ref'), ('get_SoR', 'ND_S_ref')):
        f = meths[m]
        tests = [n for n in ast.walk(f) if isinstance(n, ast.Compare)
                 and dotted(n.left) == 'self.' + attr]
        ok = any(isinstance(t.ops[0], ast.Is)
                 and isinstance(t.comparators[0], ast.Constant)
                 and t.comparators[0].value is None for t in tests)
        truthy = [n for n in ast.walk(f) if isinstance(n, (ast.If,
                                                           ast.IfExp))
                  and dotted(n.test) == 'self.' + attr]
        chk.ob('R13.4', ok and not truthy, INC, f, key='absence:' + m,
               what='%s treats absence of the datum as `is None`, the same '
                    'belief as has_%s' % (m, attr[:4]))
    # ---- R13.6 Library.Update -----------------------------------------------
    lu = repo.func(LIB, 'GroupLibrary.Update')
    refcmp.check(chk, 'R13.6', LIB, lu, REF_LIB_UPDATE,
                 key='GroupLibrary.Update',
                 what='Update: complete loops; first sight stores a copy; '
                      'otherwise correlation.update(other, overwrite) with '
                      'the caller\'s flag; one UQ block at most')
    # ---- R13.7 _do_load -------------------------------------------------------
    do_load_keys(chk, repo, 'R13.7')
    dl = repo.func(LIB, 'GroupLibrary._do_load')
    ps = params(dl)
    # on the path summaries: every returning path runs one loop over the
    # parsed file's `include` list whose only effect is
    # <new library>.Update(cls._Load(join(base_path, <item>), scheme))
    n_inc = 0
    for p in sym.summarize(dl):
        if p.outcome[0] != 'return':
            continue
        loops = [e for e in p.trace if e[0] == 'loop'
                 and e[1][0][1][0] == 'attr' and e[1][0][1][2] == 'include']
        ok = len(loops) == 1
        found = '%d include loop(s)' % len(loops)
        if ok:
            (base, it, _), = loops[0][1]
            bodies = loops[0][2]
            want_arg = ('call', ('attr', ('name', ps[0]), '_Load'),
                        (('call', ('attr', ('attr', ('name', 'os'), 'path'),
                                   'join'), (('name', ps[2]), base), ()),
                         ('name', ps[3])), ())
            ok = len(bodies) == 1 and bodies[0][1] is None
            if ok:
                evs = [e for e in bodies[0][0] if e[0] in ('expr', 'store',
                                                           'cond', 'loop')]
                ok = (len(evs) == 1 and evs[0][0] == 'expr'
                      and is_call(evs[0][1])
                      and evs[0][1][1][0] == 'attr'
                      and evs[0][1][1][2] == 'Update'
                      and evs[0][1][1][1] == p.outcome[1]
                      and evs[0][1][2] == (want_arg,) and not evs[0][1][3])
                found = ' ; '.join(show(e[1]) for e in evs)
        n_inc += 1
        chk.ob('R13.7', ok, LIB, dl, key='includes-merged',
               what='every include is loaded with the same scheme and merged '
                    'through Update without overwrite, in a complete loop '
                    '(no early exit, no filter)', found=found[:300])
    chk.need('R13.7', n_inc, 1, 'returning paths of _do_load')
    # ---- R13.9 the library container ---------------------------------------------
    from .. import reviewed
    from ..effects import FuncEffects
    for q in ('GroupLibrary.__init__', 'GroupLibrary.__getitem__',
              'GroupLibrary.__contains__', 'GroupLibrary.__iter__',
              'GroupLibrary.__len__', 'GroupLibrary.Load',
              'GroupLibrary._Load', 'GroupLibrary._do_load'):
        reviewed.check(chk, 'R13.9', repo, LIB, q,
                       '%s is unchanged in normal form from its reviewed '
                       'reference (a library owns a fresh dict of its '
                       'contents)' % q)
    li = repo.func(LIB, 'GroupLibrary.__init__')
    aliases = [src_(n) for n in ast.walk(li) if isinstance(n, ast.Assign)
               and isinstance(n.value, ast.Name)
               and n.value.id == 'contents'
               and any(isinstance(t, ast.Attribute) for t in n.targets)]
    chk.ob('R13.9', not aliases, LIB, li, key='contents-copied',
           what='GroupLibrary.__init__ builds its own dict from the contents '
                'it is given (the default {} is shared by every call)',
           found='; '.join(aliases))


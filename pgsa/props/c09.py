"""C09 -- reading RING text always ends with a query or a RING error."""
import ast

from .. import sym, refcmp, grammar_ir, shapes, ringrefs
from ..match import params
from ..source import AnalysisError, dotted, src

EXPLANATION = (
    "The RING grammar is lifted from the AST of Grammar.py into an IR. "
    "R09.1 closure: every referenced nonterminal is defined and every item "
    "is a combinator (so ParseState.parse cannot reach its TypeError). "
    "R09.2 termination: nullable set, first-call graph acyclic (no left "
    "recursion), no repetition over a nullable body, hence every recursion "
    "cycle consumes a character; (d) every scanner `while` advances its "
    "cursor on each iteration and its look-ahead is end-of-text safe "
    "(peek() or peek(n)[n-1:n], membership only in a list of fillers); (e) "
    "list-like productions that recurse once per element are reported. "
    "R09.3 full consumption: every accepting path of the root rule ends in "
    "EOS(). R09.4 escape: the reader methods are interpreted abstractly on "
    "every child sequence the grammar can produce (R09.7); the only "
    "exception classes that can leave Read are the RING errors and "
    "NotImplementedError; implicit raisers (list.index, subscripts of "
    "label/group/reactant tables, Chem.Atom) sit under handlers or "
    "membership guards. R09.5/R09.8: the combinators, the parse state, the "
    "furthest-error merge and the entry function are compared in normal "
    "form with references (int() only after isdecimal(), backtracking "
    "restores position, error position = furthest). R09.4 also: a bond is "
    "added only between indices tested unequal; the result of "
    "GetBondBetweenAtoms is not dereferenced before the method's own test "
    "of it; the raise structure of every raising reader method equals its "
    "reviewed reference.")
NOT_DECIDED = ("wall-clock bounds (backtracking is finite, not shown "
               "polynomial); exceptions from inside RDKit other than the "
               "RuntimeError the readers catch; MemoryError; recursion "
               "depth of the list-like productions (known finding)")
ASSUMPTIONS = ["CPython string methods: ''.isalpha()/isdigit()/isdecimal() "
               "are False; int() accepts every isdecimal() string",
               "RDKit raises RuntimeError for unknown element symbols"]

PARSER = 'pgradd/RINGParser/Parser.py'
GRAMMAR = 'pgradd/RINGParser/Grammar.py'
READER = 'pgradd/RINGParser/Reader.py'
MQR = 'pgradd/RINGParser/MolQueryRead.py'
RQR = 'pgradd/RINGParser/ReactionQueryRead.py'
ERR = 'pgradd/Error.py'


def reader_classes(repo):
    return {
        'Reader': (READER, repo.cls(READER, 'Reader')),
        'MolQueryReader': (MQR, repo.cls(MQR, 'MolQueryReader')),
        'ReactionQueryReader': (RQR, repo.cls(RQR, 'ReactionQueryReader')),
    }


def run_shapes(repo, grammar):
    I = shapes.Interp(repo, grammar, reader_classes(repo))
    esc = I.run_method('Reader', 'ReadRINGInput', 'RINGInput',
                       I.shapes('RINGInput'))
    return I, esc


def check_shapes(chk, repo, grammar, rule, only_class=None):
    I, esc = run_shapes(repo, grammar)
    chk.need(rule, len(I.analysed), 80, 'reader method x shape instances')
    chk.extra['reader_shape_instances'] = len(I.analysed)
    bykind = {}
    for x in esc:
        bykind.setdefault(x.kind, []).append(x)
    classes = reader_classes(repo)
    # one obligation per analysed method: no disallowed exception starts in
    # it
    methods = sorted(set((k[0], k[1]) for k in I.analysed))
    for cname, mname in methods:
        if only_class and cname != only_class:
            continue
        bad = [x for x in esc if x.ctx and x.ctx[0] == cname
               and x.ctx[1] == mname and x.kind not in I.allowed]
        rel = classes[cname][0]
        f = I.method(cname, mname)
        if not bad:
            chk.ob(rule, True, rel, f, key='shape:%s.%s' % (cname, mname),
                   what='%s.%s: every index in range, every assert holds, '
                        'every local bound, on every child sequence of its '
                        'rule(s)' % (cname, mname))
        for x in bad:
            chk.ob(rule, False, rel, x.node if x.node is not None else f,
                   key='escape:%s.%s:%s:%s' % (cname, mname, x.kind,
                                               x.detail),
                   qualname='%s.%s' % (cname, mname),
                   what='%s can escape Read from %s.%s'
                        % (x.kind, cname, mname),
                   found='%s on children %s of %s' % (
                       x.detail, shapes.show_shape(x.ctx[3]), x.ctx[2]))
    for fd in I.findings:
        if only_class and fd.cls != only_class:
            continue
        rel = classes[fd.cls][0]
        chk.ob('R08.5' if fd.kind == 'dropped-child' else rule, False, rel,
               fd.node, key='%s:%s.%s:%s' % (fd.kind, fd.cls, fd.method,
                                             fd.detail),
               qualname='%s.%s' % (fd.cls, fd.method),
               what='%s in %s.%s' % (fd.kind, fd.cls, fd.method),
               found=fd.detail)
    for u in I.unproved[:20]:
        chk.info('unproved: ' + u)
    return I, esc


def check_grammar(chk, repo):
    strict, enhanced = grammar_ir.load(repo)
    for gname, g in (('strict', strict), ('enhanced', enhanced)):
        und = g.undefined()
        chk.ob('R09.1', not und, GRAMMAR, None, key='closure:' + gname,
               qualname=gname + '_grammar',
               what='every nonterminal referenced by the %s grammar is '
                    'defined (%d rules)' % (gname, len(g.rules)),
               found=', '.join(und))
        lr = g.left_recursive()
        chk.ob('R09.2', not lr, GRAMMAR, None, key='no-left-recursion:'
               + gname, qualname=gname + '_grammar',
               what='no rule can re-enter itself before consuming a '
                    'character', found=', '.join(lr))
        sn = g.star_over_nullable()
        chk.ob('R09.2', not sn, GRAMMAR, None, key='star-nullable:' + gname,
               qualname=gname + '_grammar',
               what='no repetition over a nullable body',
               found=', '.join(sn))
        chk.ob('R09.3', g.root_ends_in_eos(), GRAMMAR, None,
               key='root-eos:' + gname, qualname=gname + '_grammar',
               what='every accepting path of the root rule ends in EOS()')
        empties = [r for r, n in g.rules.items()
                   if n[0] == 'either' and not n[1]]
        chk.ob('R09.1', not empties, GRAMMAR, None, key='either-nonempty:'
               + gname, qualname=gname + '_grammar',
               what='every Either has an alternative',
               found=', '.join(empties))
        bad_lits = [r for r in g.rules for lits in g.literal_sets(r)
                    if '' in lits or not lits]
        chk.ob('R09.1', not bad_lits, GRAMMAR, None, key='literals-nonempty:'
               + gname, qualname=gname + '_grammar',
               what='no empty literal (it would match without consuming)',
               found=', '.join(bad_lits))
    chk.info('nullable rules: %s' % sorted(enhanced.nullable()))
    chk.info('unreachable rules: %s' % sorted(set(enhanced.rules)
                                              - enhanced.reachable()))
    for r in enhanced.self_recursive():
        chk.ob('R09.2e', False, GRAMMAR, None, key='self-recursive:' + r,
               qualname='enhanced_grammar',
               what='list production %s recurses once per element: parse '
                    'and reader depth grow with the input and end in '
                    'RecursionError' % r)
    # update_names is applied to both grammars (Literals error messages)
    calls = [src(n) for n in repo.mod(GRAMMAR).tree.body
             if isinstance(n, ast.Expr) and isinstance(n.value, ast.Call)
             and dotted(n.value.func) == 'update_names']
    chk.ob('R09.1', sorted(c.replace(' ', '') for c in calls) == [
        'update_names(enhanced_grammar[1])',
        'update_names(strict_grammar[1])'], GRAMMAR, None,
        key='names-set', qualname='<module>',
        what='both grammars get their rule names (used in error messages)')
    return strict, enhanced


def check_scanner_loops(chk, repo):
    tree = repo.mod(PARSER).tree
    fillers = None
    okay = None
    for s in tree.body:
        if isinstance(s, ast.Assign) and isinstance(s.targets[0], ast.Name):
            if s.targets[0].id == 'filler':
                fillers = s.value
            if s.targets[0].id == 'string_okay':
                okay = s.value
    for name, node in (('filler', fillers), ('string_okay', okay)):
        ok = isinstance(node, (ast.List, ast.Tuple, ast.Set)) and all(
            isinstance(e, ast.Constant) and isinstance(e.value, str)
            and len(e.value) == 1 for e in node.elts)
        chk.ob('R09.2d', ok, PARSER, node if node is not None else tree.body[0],
               key='membership-table:' + name, qualname='<module>',
               what='%s is a list of single characters ("" in a str is '
                    'always True, so a str here makes the end-of-text '
                    'look-ahead loop forever)' % name,
               found=src(node) if node is not None else 'missing')
    n = 0
    for w in [x for x in ast.walk(tree) if isinstance(x, ast.While)]:
        f = w
        while not isinstance(f, ast.FunctionDef):
            f = f._parent
        cls = f._parent.name if isinstance(f._parent, ast.ClassDef) else ''
        where = '%s.%s' % (cls, f.name)
        peeks = [c for c in ast.walk(w.test) if isinstance(c, ast.Call)
                 and isinstance(c.func, ast.Attribute)
                 and c.func.attr == 'peek']
        if not peeks:
            if where == 'ZeroOrMore.__call__':
                # progress of ZeroOrMore is the grammar rule "no star over
                # a nullable body"
                continue
            chk.ob('R09.2d', False, PARSER, w, key='loop-kind:' + where,
                   what='loop in %s is not a look-ahead scanner loop; '
                        'termination not established' % where,
                   found=src(w.test)[:100])
            continue
        n += 1
        # (ii) end-safe look-ahead
        unsafe = []
        for c in peeks:
            par = c._parent
            if not c.args and not c.keywords:
                continue        # peek(): '' at end of text
            if isinstance(par, ast.Subscript) and par.value is c \
                    and isinstance(par.slice, ast.Slice) \
                    and par.slice.lower is not None \
                    and par.slice.upper is not None \
                    and src(par.slice.upper) == src(c.args[0]) \
                    and src(par.slice.lower).replace(' ', '') == \
                    src(c.args[0]).replace(' ', '') + '-1':
                continue        # peek(n)[n-1:n]: '' beyond the end
            unsafe.append(src(par)[:60])
        chk.ob('R09.2d', not unsafe, PARSER, w, key='end-safe:' + where,
               what='the look-ahead of the scanner loop in %s yields the '
                    'empty string beyond the end of the text' % where,
               found='; '.join(unsafe))
        # (iii) predicates on the look-ahead
        bad_in = []
        for c in ast.walk(w.test):
            if isinstance(c, ast.Compare) and isinstance(c.ops[0], ast.In):
                tgt = c.comparators[0]
                if not (isinstance(tgt, ast.Name) and tgt.id in (
                        'filler', 'string_okay')):
                    bad_in.append(src(c)[:60])
        chk.ob('R09.2d', not bad_in, PARSER, w, key='membership:' + where,
               what='membership tests of the look-ahead in %s are against '
                    'the module-level character lists' % where,
               found='; '.join(bad_in))
        # (i) progress on every path of the body
        def advances(stmts):
            for s in stmts:
                if isinstance(s, ast.If):
                    if advances(s.body) and s.orelse and advances(s.orelse):
                        return True
                    continue
                for c in ast.walk(s):
                    if isinstance(c, ast.Call) and isinstance(
                            c.func, ast.Attribute) and c.func.attr == 'take':
                        return True
                    if isinstance(c, ast.AugAssign) and isinstance(
                            c.op, ast.Add) and (
                            src(c.target) in ('nn', 'self.sidx')):
                        return True
            return False
        chk.ob('R09.2d', advances(w.body), PARSER, w, key='progress:' + where,
               what='every iteration of the scanner loop in %s advances the '
                    'cursor' % where)
    chk.need('R09.2d', n, 3, 'scanner loops')


def check_refs(chk, repo):
    for q, ref in ringrefs.COMBINATORS.items():
        if q.startswith('RINGToken.') and not repo.has_func(PARSER, q):
            chk.ob('R09.6', False, PARSER, repo.cls(PARSER, 'RINGToken'),
                   key='token-method:' + q, qualname='RINGToken',
                   what='%s is defined (Python 3 ignores __cmp__; the '
                        'readers compare tokens with rule names)' % q)
            continue
        refcmp.check(chk, 'R09.5', PARSER, repo.func(PARSER, q), ref,
                     key=q, what='%s behaves as the combinator '
                                 'documented in Parser.py' % q)
    for m, ref in ringrefs.PARSESTATE.items():
        refcmp.check(chk, 'R09.8', PARSER,
                     repo.func(PARSER, 'ParseState.' + m), ref,
                     key='ParseState.' + m,
                     what='ParseState.%s: position bookkeeping, '
                          'backtracking and furthest-error merge' % m)
    refcmp.check(chk, 'R09.8', PARSER, repo.func(PARSER, 'parse'),
                 ringrefs.MODULE_PARSE, key='Parser.parse',
                 what='parse() picks the grammar and parses from the root')
    for m, ref in ringrefs.SYNTAX_ERROR.items():
        refcmp.check(chk, 'R09.8', ERR,
                     repo.func(ERR, 'RINGSyntaxError.' + m), ref,
                     key='RINGSyntaxError.' + m,
                     what='RINGSyntaxError.%s: the merged error keeps the '
                          'furthest (line, column) pair together' % m)
    for q, ref in ringrefs.READER.items():
        refcmp.check(chk, 'R09.4', READER, repo.func(READER, q), ref, key=q,
                     what='%s: entry point wiring' % q)
    # class hierarchy of the error types
    for cname, base in (('RINGSyntaxError', 'RINGError'),
                        ('RINGReaderError', 'RINGError'),
                        ('RINGError', 'Exception')):
        c = repo.cls(ERR, cname)
        chk.ob('R09.4', [src(b) for b in c.bases] == [base], ERR, c,
               key='hierarchy:' + cname, qualname=cname,
               what='%s derives from %s' % (cname, base))
    # Literals is an Either; DeprecatedLiteral a Literal
    for cname, base in (('Literals', 'Either'), ('EOS', 'Parser'),
                        ('String', 'Parser'), ('Number', 'Parser'),
                        ('Digit', 'Parser'), ('Literal', 'Parser'),
                        ('Filler', 'Parser'), ('Optional', 'Parser'),
                        ('All', 'Parser'), ('Either', 'Parser')):
        c = repo.cls(PARSER, cname)
        chk.ob('R09.5', [src(b) for b in c.bases] == [base], PARSER, c,
               key='hierarchy:' + cname, qualname=cname,
               what='%s derives from %s (ParseState.parse dispatches on '
                    'isinstance(what, Parser))' % (cname, base))


IMPLICIT_TABLES = ('RINGgroups', 'reactantquery', 'labelmapping')


NULLABLE_CALLS = {
    # RDKit: None when the two atoms are not bonded
    'GetBondBetweenAtoms',
}


def check_nullable_deref(chk, repo):
    """Contradiction rule: a reader method that tests the result of a
    may-be-None RDKit call for truth (so it believes it can be None) does
    not use an attribute of it at a position that is evaluated before
    that test -- the AttributeError would leave Read."""
    n = 0
    for rel in (MQR, RQR):
        for f in ast.walk(repo.mod(rel).tree):
            if not isinstance(f, ast.FunctionDef):
                continue
            nullable = {}
            for a in ast.walk(f):
                if isinstance(a, ast.Assign) and len(a.targets) == 1 \
                        and isinstance(a.targets[0], ast.Name) \
                        and isinstance(a.value, ast.Call) and isinstance(
                            a.value.func, ast.Attribute) \
                        and a.value.func.attr in NULLABLE_CALLS:
                    nullable.setdefault(a.targets[0].id, a)
            for v, a in sorted(nullable.items()):
                tests = []
                for t in ast.walk(f):
                    if isinstance(t, (ast.If, ast.IfExp, ast.While,
                                      ast.Assert)):
                        for x in ast.walk(t.test):
                            if isinstance(x, ast.Name) and x.id == v \
                                    and not isinstance(getattr(
                                        x, '_parent', None), ast.Attribute):
                                tests.append((x.lineno, x.col_offset))
                if not tests:
                    continue
                first = min(tests)
                n += 1
                early = [x for x in ast.walk(f)
                         if isinstance(x, ast.Attribute) and isinstance(
                             x.value, ast.Name) and x.value.id == v
                         and (a.end_lineno, 0) < (x.lineno, x.col_offset)
                         < first]
                chk.ob('R09.4', not early, rel, early[0] if early else a,
                       key='nullable:%s:%s' % (f.name, v),
                       qualname=f.name,
                       what='%s: %s (may be None, and is tested for it) is '
                            'not dereferenced before that test' % (f.name, v),
                       found=', '.join('%s at line %d' % (src(x), x.lineno)
                                       for x in early))
    chk.need('R09.4', n, 3, 'truth-tested results of may-be-None calls')


def check_reader_raises(chk, repo):
    """Which RING error a reader method raises, and under which conditions
    on which values (a bond looked up with the right pair of indices, a label
    found in the right table), is compared with the reviewed reference --
    only the raise structure, not the query that is built (C08/C16)."""
    from .. import reviewed
    n = 0
    for rel, cname in ((MQR, 'MolQueryReader'), (RQR, 'ReactionQueryReader')):
        for f in repo.cls(rel, cname).body:
            if isinstance(f, ast.FunctionDef) and any(
                    isinstance(x, ast.Raise) for x in ast.walk(f)):
                n += 1
                reviewed.check(
                    chk, 'R09.4', repo, rel, '%s.%s' % (cname, f.name),
                    '%s.%s raises its RING errors under the reviewed '
                    'conditions' % (cname, f.name), mode='raises')
    chk.need('R09.4', n, 15, 'reader methods that raise')


def check_implicit_raisers(chk, repo):
    """list.index and subscripts of name tables fed by the input text must
    sit under a handler that catches what they raise, or under a membership
    guard on the same key."""
    n = 0
    for rel in (MQR, RQR):
        tree = repo.mod(rel).tree
        for node in ast.walk(tree):
            kind = None
            if isinstance(node, ast.Call) and isinstance(
                    node.func, ast.Attribute) and node.func.attr == 'index':
                kind = ('ValueError', 'x.index(...)')
            elif isinstance(node, ast.Subscript) and isinstance(
                    node.ctx, ast.Load):
                base = node.value
                bname = base.attr if isinstance(base, ast.Attribute) else (
                    base.id if isinstance(base, ast.Name) else None)
                if bname in IMPLICIT_TABLES:
                    kind = ('KeyError', src(node)[:50])
            elif isinstance(node, ast.Call) and dotted(node.func) == \
                    'Chem.Atom':
                kind = ('RuntimeError', 'Chem.Atom(...)')
            if kind is None:
                continue
            n += 1
            exc, what = kind
            guarded = False
            p = node
            fn = None
            while p is not None:
                par = getattr(p, '_parent', None)
                if isinstance(par, ast.Try) and p in par.body:
                    for h in par.handlers:
                        names = shapes._handler_names(h)
                        if shapes._catches(names, exc) or (
                                exc == 'KeyError' and 'TypeError' in names
                                and 'KeyError' in names):
                            ends_raise = h.body and isinstance(
                                h.body[-1], ast.Raise)
                            guarded = guarded or ends_raise
                if isinstance(par, ast.FunctionDef):
                    fn = par
                    break
                p = par
            if not guarded and exc == 'KeyError' and fn is not None:
                # membership guard `key not in table: raise` earlier in fn
                key = src(node.slice)
                tab = src(node.value)
                for t in ast.walk(fn):
                    if isinstance(t, ast.If) and t.lineno < node.lineno \
                            and t.body and isinstance(t.body[-1], ast.Raise):
                        for c in ast.walk(t.test):
                            if isinstance(c, ast.Compare) and isinstance(
                                    c.ops[0], ast.NotIn) \
                                    and src(c.left) == key \
                                    and src(c.comparators[0]) == tab:
                                guarded = True
                # the same subscript already evaluated earlier in this
                # function inside a guarded try (the key is then known good)
                for t in ast.walk(fn):
                    if isinstance(t, ast.Subscript) and t is not node \
                            and t.lineno < node.lineno \
                            and src(t) == src(node):
                        q_ = t
                        while q_ is not None and q_ is not fn:
                            par_ = getattr(q_, '_parent', None)
                            if isinstance(par_, ast.Try) and q_ in par_.body \
                                    and any(shapes._catches(
                                        shapes._handler_names(h), exc)
                                        and h.body and isinstance(
                                            h.body[-1], ast.Raise)
                                        for h in par_.handlers):
                                guarded = True
                            q_ = par_
                # a table entry just stored under the same key
                for t in ast.walk(fn):
                    if isinstance(t, ast.Assign) and t.lineno < node.lineno:
                        for tg in t.targets:
                            if isinstance(tg, ast.Subscript) and src(
                                    tg.value) == tab and src(
                                    tg.slice) == key:
                                guarded = True
            q = '%s.%s' % (fn._parent.name, fn.name) if fn is not None and \
                isinstance(fn._parent, ast.ClassDef) else (
                fn.name if fn else '<module>')
            chk.ob('R09.4', guarded, rel, node,
                   key='implicit:%s:%s:%s' % (q, exc, what), qualname=q,
                   what='%s (may raise %s) is under a handler that turns it '
                        'into a RING error, or under a membership guard'
                        % (what, exc))
    chk.need('R09.4', n, 25, 'implicit raisers in the reader modules')


def check_none_defaults(chk, repo):
    """An attribute that defaults to None (set from a constructor parameter
    whose default is None) must not be subscripted or searched without a
    None test or a handler catching TypeError."""
    n = 0
    for rel, cname in ((MQR, 'MolQueryReader'), (RQR, 'ReactionQueryReader')):
        c = repo.cls(rel, cname)
        init = [s_ for s_ in c.body if isinstance(s_, ast.FunctionDef)
                and s_.name == '__init__']
        if not init:
            continue
        init = init[0]
        defaults = {}
        args = init.args.args
        off = len(args) - len(init.args.defaults)
        for i, a in enumerate(args):
            if i >= off and isinstance(init.args.defaults[i - off],
                                       ast.Constant) \
                    and init.args.defaults[i - off].value is None:
                defaults[a.arg] = True
        attrs = set()
        for s_ in ast.walk(init):
            if isinstance(s_, ast.Assign) and isinstance(
                    s_.value, ast.Name) and s_.value.id in defaults:
                for t in s_.targets:
                    if isinstance(t, ast.Attribute) and dotted(
                            t.value) == 'self':
                        attrs.add(t.attr)
        for fn in c.body:
            if not isinstance(fn, ast.FunctionDef) or fn is init:
                continue
            for node in ast.walk(fn):
                use = None
                if isinstance(node, ast.Subscript) and isinstance(
                        node.value, ast.Attribute) and dotted(
                        node.value.value) == 'self' \
                        and node.value.attr in attrs:
                    use = node.value.attr
                if isinstance(node, ast.Compare) and isinstance(
                        node.ops[0], (ast.In, ast.NotIn)) and isinstance(
                        node.comparators[0], ast.Attribute) and dotted(
                        node.comparators[0].value) == 'self' \
                        and node.comparators[0].attr in attrs:
                    use = node.comparators[0].attr
                kind = 'TypeError'
                if isinstance(node, ast.Attribute) and isinstance(
                        node.value, ast.Attribute) and dotted(
                        node.value.value) == 'self' \
                        and node.value.attr in attrs:
                    # self.X.method / self.X.attr: None has neither
                    use = node.value.attr
                    kind = 'AttributeError'
                if use is None:
                    continue
                n += 1
                guarded = False
                p = node
                while p is not None and p is not fn:
                    par = getattr(p, '_parent', None)
                    if isinstance(par, ast.Try) and p in par.body:
                        for h in par.handlers:
                            if shapes._catches(shapes._handler_names(h),
                                               kind) and h.body and \
                                    isinstance(h.body[-1], ast.Raise):
                                guarded = True
                    if isinstance(par, ast.BoolOp) and isinstance(
                            par.op, ast.Or):
                        idx = par.values.index(p)
                        for prev in par.values[:idx]:
                            if src(prev).replace(' ', '') == \
                                    'self.%sisNone' % use:
                                guarded = True
                    p = par
                for t in ast.walk(fn):
                    if isinstance(t, ast.If) and t.lineno < node.lineno \
                            and t.body and isinstance(t.body[-1], ast.Raise) \
                            and ('self.%s is None' % use) in src(t.test):
                        guarded = True
                chk.ob('R09.4', guarded, rel, node,
                       key='none-default:%s.%s:%s' % (cname, fn.name,
                                                      src(node)[:40]),
                       qualname='%s.%s' % (cname, fn.name),
                       what='self.%s defaults to None: this use is under a '
                            'None test or a handler catching TypeError that '
                            'raises a RING error' % use)
    chk.need('R09.4', n, 2, 'uses of None-defaulted tables')


def exception_arity(chk, repo, rule, rels, minimum=20):
    """Every construction of an exception class of pgradd/Error.py that
    defines its own __init__ passes a number of positional arguments the
    signature accepts (a message split by a comma instead of concatenated
    is a TypeError at the moment the error should be raised)."""
    sigs = {}
    for c in repo.mod(ERR).tree.body:
        if isinstance(c, ast.ClassDef):
            init = [s_ for s_ in c.body if isinstance(s_, ast.FunctionDef)
                    and s_.name == '__init__']
            if init:
                a = init[0].args
                npos = len(a.args) - 1
                nreq = npos - len(a.defaults)
                sigs[c.name] = (nreq, None if a.vararg else npos)
            else:
                sigs[c.name] = (0, None)    # Exception(*args)
    n = 0
    for rel in rels:
        for node in ast.walk(repo.mod(rel).tree):
            if isinstance(node, ast.Call) and isinstance(
                    node.func, ast.Name) and node.func.id in sigs \
                    and not any(isinstance(a, ast.Starred)
                                for a in node.args):
                n += 1
                lo, hi = sigs[node.func.id]
                k = len(node.args) + len(node.keywords)
                ok = k >= lo and (hi is None or k <= hi)
                fn = node
                while fn is not None and not isinstance(fn, ast.FunctionDef):
                    fn = getattr(fn, '_parent', None)
                q = (fn._parent.name + '.' + fn.name) if fn is not None and \
                    isinstance(fn._parent, ast.ClassDef) else (
                    fn.name if fn else '<module>')
                if not ok:
                    chk.ob(rule, False, rel, node,
                           key='exception-arity:%s:%s:%s' % (
                               q, node.func.id, src(node.args[0])[:40]
                               if node.args else ''), qualname=q,
                           what='%s(...) is built with %d arguments but its '
                                '__init__ takes %s: TypeError instead of '
                                'the intended error' % (
                                    node.func.id, k,
                                    lo if hi == lo else '%s..%s' % (lo, hi)),
                           found=src(node)[:120])
    chk.ob(rule, True, ERR, None, key='exception-arity-scan',
           qualname='<package>',
           what='%d constructions of Error.py exception classes scanned in '
                '%d modules' % (n, len(rels)))
    chk.need(rule, n, minimum, 'exception constructions')


def check_addbond(chk, repo):
    """RWMol.AddBond raises RuntimeError for a self-bond or an existing
    bond.  A caller of ReadBondTypeBondedAtom either passes an atom it has
    just added (fresh index) or guards/handles that."""
    cls = repo.cls(MQR, 'MolQueryReader')
    n = 0
    for fn in cls.body:
        if not isinstance(fn, ast.FunctionDef):
            continue
        for c in ast.walk(fn):
            if isinstance(c, ast.Call) and dotted(c.func) == \
                    'self.ReadBondTypeBondedAtom' and len(c.args) >= 2:
                n += 1
                fresh = False
                for a in c.args[:2]:
                    if isinstance(a, ast.Name):
                        for asg in ast.walk(fn):
                            if isinstance(asg, ast.Assign) and any(
                                    isinstance(t, ast.Name) and t.id == a.id
                                    for t in asg.targets) and isinstance(
                                    asg.value, ast.Call) and isinstance(
                                    asg.value.func, ast.Attribute) and \
                                    asg.value.func.attr == 'AddAtom':
                                fresh = True
                guarded = False
                self_guard = False
                i1, i2 = src(c.args[0]), src(c.args[1])
                for t in ast.walk(fn):
                    if isinstance(t, ast.If) and t.lineno < c.lineno \
                            and t.body and isinstance(t.body[-1], ast.Raise):
                        tt = src(t.test).replace(' ', '')
                        if '%s==%s' % (i1, i2) in tt or '%s==%s' % (
                                i2, i1) in tt:
                            self_guard = True
                            if 'GetBondBetweenAtoms' in tt:
                                guarded = True
                # a fresh atom has no bonds yet, but the label it is bonded
                # to is looked up after its own label has been recorded: the
                # two indices can still be equal
                fresh = fresh and self_guard
                p = c
                while p is not None and p is not fn:
                    par = getattr(p, '_parent', None)
                    if isinstance(par, ast.Try) and p in par.body and any(
                            shapes._catches(shapes._handler_names(h),
                                            'RuntimeError') and h.body
                            and isinstance(h.body[-1], ast.Raise)
                            for h in par.handlers):
                        guarded = True
                    p = par
                chk.ob('R09.4', fresh or guarded, MQR, c,
                       key='addbond-precondition:' + fn.name,
                       qualname='MolQueryReader.' + fn.name,
                       what='%s adds a bond between two declared labels: a '
                            'self-bond or an already existing bond (RDKit '
                            'RuntimeError) is rejected as a RING reader '
                            'error first' % fn.name
                       if not fresh else
                       '%s bonds an atom it has just added, and rejects a '
                       'bond to its own label' % fn.name)
    chk.need('R09.4', n, 2, 'bond-adding call sites')


def run(chk, repo, tier):
    strict, enhanced = check_grammar(chk, repo)
    check_none_defaults(chk, repo)
    exception_arity(chk, repo, 'R09.4', [PARSER, READER, MQR, RQR])
    check_addbond(chk, repo)
    from . import c08
    c08.query_atoms(chk, repo, 'R09.4')
    check_scanner_loops(chk, repo)
    check_refs(chk, repo)
    check_implicit_raisers(chk, repo)
    check_nullable_deref(chk, repo)
    check_reader_raises(chk, repo)
    from .. import schemerules as _R
    _R.message_concat_types(chk, repo, 'R09.4', [MQR, RQR])
    check_shapes(chk, repo, enhanced, 'R09.7')
    # R16.1-like precondition of the shape interpretation: tokens compare
    # with strings through __eq__
    tok = repo.methods(PARSER, 'RINGToken')
    chk.ob('R09.6', '__eq__' in tok and '__hash__' in tok, PARSER,
           repo.cls(PARSER, 'RINGToken'), key='token-eq',
           qualname='RINGToken',
           what='RINGToken defines __eq__ and __hash__ (the readers compare '
                'tokens with rule names)')
    # explicit raises in Parser.py
    bad = []
    for n in ast.walk(repo.mod(PARSER).tree):
        if isinstance(n, ast.Raise) and n.exc is not None:
            t = src(n.exc.func) if isinstance(n.exc, ast.Call) else src(n.exc)
            if t not in ('RINGSyntaxError', 'stream.current_error',
                         'TypeError'):
                bad.append('%s@%d' % (t, n.lineno))
    chk.ob('R09.4', not bad, PARSER, repo.mod(PARSER).tree.body[0],
           key='parser-raises', qualname='<module>',
           what='the parser raises only RINGSyntaxError (its TypeError is '
                'unreachable by rule R09.1)', found=', '.join(bad))
    writers = []
    for n in ast.walk(repo.mod(PARSER).tree):
        if isinstance(n, ast.Attribute) and n.attr == 'current_error' \
                and isinstance(n.ctx, ast.Store):
            par = n._parent
            if isinstance(par, ast.Assign) and src(par.value) not in (
                    'None', 'exc_value'):
                writers.append(src(par))
    chk.ob('R09.4', not writers, PARSER, repo.mod(PARSER).tree.body[0],
           key='current_error-type', qualname='<module>',
           what='current_error only ever holds None or a caught '
                'RINGSyntaxError', found='; '.join(writers))


def thorough(chk, repo):
    """Thorough tier: the shapes of every shipped pattern tree are among the
    analysed ones."""
    from .. import sweeps, grammar_ir as G
    from . import c09 as _c09
    strict, g = G.load(repo)
    I, esc = _c09.run_shapes(repo, g)
    sweeps.data_shapes_covered(chk, repo, g, I, 'R09.7')
    from .. import refexec
    refexec.ring_crosscheck(chk, repo, 'R09.T')

"""C20 -- standard errors are the scaled quadratic form of the descriptors."""
import ast
from .. import sym, refcmp
from ..match import SELF, params, is_call
from ..effects import FuncEffects, describe
from ..source import AnalysisError, dotted
from ..sym import show
from . import c01

EXPLANATION = (
    'Data: D20.6 every shipped uncertainty block has distinct basis labels naming entries of its library, a square symmetric positive semi-definite matrix sized to the basis, and an RMSE correlation valid wherever a basis entry is. '

    "R20.1: in the estimator constructor, under `if lib.uq_contents`, one "
    "complete loop over the caller's mapping stores, for every key with no "
    "filter and no handler, xp[basis.index(key)] = mapping[key] (so an "
    "out-of-basis key raises). R20.2: the stored quadratic form is "
    "dot(dot(transpose(xp), M), xp) in that (non-commutative) order, reduced "
    "to a scalar. R20.3: get_X_SE = float(sqrt(square(RMSE.get_X(T)) * q)) "
    "for the three X, each delegating to its own property, single pure path "
    "(no cache). R20.4: q is stored as a 0-dimensional value. R20.5: the "
    "keys the loader reads from the UQ block exist in every shipped uq.yaml, "
    "the matrix is stored as read, and the keys the estimator reads are the "
    "keys the loader writes. D20.6: basis labels distinct and naming "
    "entries, matrix square/sized/symmetric/PSD, RMSE valid wherever a basis "
    "entry is, and at least three shipped libraries reach an uncertainty "
    "block.")
NOT_DECIDED = "numeric values; positive-definiteness of computed forms"
ASSUMPTIONS = ["numpy dot/transpose/sqrt/square semantics",
               "list.index raises ValueError for a missing element"]

GD = 'pgradd/ThermoChem/group_data.py'
LIB = 'pgradd/GroupAdd/Library.py'


def run(chk, repo, tier):
    pset, _, est = c01.find_registration(repo)
    methods = repo.methods(GD, est)
    init = methods['__init__']
    ips = params(init)
    libp, gp = ips[1], ips[2]
    uq = ('attr', ('name', libp), 'uq_contents')

    def U(key):
        return ('sub', uq, ('const', key))

    paths = sym.summarize(init)
    uq_paths = [p for p in paths if p.says(('truthy', uq), True)]
    chk.need('R20.1', len(uq_paths), 1, 'constructor paths with UQ data')
    for p in uq_paths:
        loops = [e for e in p.trace if e[0] == 'loop'
                 and any(ev[0] == 'store' and ev[1][0] == 'sub'
                         for tr, o in e[2] for ev in tr)
                 and not any(ev[0] == 'expr' and is_call(ev[1])
                             and ev[1][1][0] == 'attr'
                             and ev[1][1][2] == 'append'
                             for tr, o in e[2] for ev in tr)]
        ok = len(loops) == 1
        found = '%d placement loops' % len(loops)
        if ok:
            lp = loops[0]
            gens = lp[1]
            body = lp[2]
            ok = (len(gens) == 1 and gens[0][1] == ('name', gp)
                  and not gens[0][2])
            found = 'iterates %s' % show(gens[0][1])
            if ok:
                ok = len(body) == 1 and body[0][1] is None
                found = '%d body paths (a condition or handler inside the ' \
                        'loop)' % len(body)
            if ok:
                tr = body[0][0]
                conds = [e for e in tr if e[0] == 'cond']
                stores = [e for e in tr if e[0] == 'store']
                handlers = [e for e in tr if e[0] in ('except', 'caught')]
                bv = gens[0][0]
                idx = ('call', ('attr', U('descriptors'), 'index'), (bv,),
                       ())
                ok = (not conds and not handlers and len(stores) == 1
                      and stores[0][1][0] == 'sub'
                      and stores[0][1][2] == idx
                      and stores[0][2] == ('sub', ('name', gp), bv))
                found = '; '.join('%s := %s' % (show(s[1]), show(s[2]))
                                  for s in stores) or 'no store'
        chk.ob('R20.1', ok, GD, init, key='placement-by-basis-index',
               what='every key of the mapping is placed at its basis index '
                    'with its own count, unfiltered',
               found=found,
               required='for g in %s: xp[%s.uq_contents[\'descriptors\']'
                        '.index(g)] = %s[g]' % (gp, libp, gp))
        # loop AST: no break/continue/try
        st = dict((e[1], e[2]) for e in p.stores())
        xp_alloc = None
        for name, val in p.env.items():
            v = sym.key(val)
            if is_call(v) and sym.Evaluator()._call_name(v[1]) in (
                    'np.zeros', 'numpy.zeros'):
                xp_alloc = (name, v)
        want_alloc = sym.expr_key("np.zeros((len(%s.uq_contents["
                                  "'descriptors']), 1))" % libp)
        chk.ob('R20.1', xp_alloc is not None and xp_alloc[1] == want_alloc,
               GD, init, key='count-vector-shape',
               what='the count vector is a zero column sized to the basis',
               found=show(xp_alloc[1]) if xp_alloc else 'not found',
               required=show(want_alloc))
        q = st.get(('attr', SELF, 'Xp_invXX_Xp'))
        if xp_alloc is not None and q is not None:
            env = {xp_alloc[0]: xp_alloc[1]}
            core = sym.expr_key(
                "np.dot(np.dot(np.transpose(%s), %s.uq_contents['mat']), "
                "%s)" % (xp_alloc[0], libp, xp_alloc[0]), env=env)
            alts = {
                ('call', ('attr', core, 'item'), (), ()): 'item()',
                ('sub', core, ('tuple', (('num', 0), ('num', 0)))): '[0,0]',
                core: 'array',
            }
            from fractions import Fraction
            alts[('sub', core, ('tuple', (('num', Fraction(0)),
                                          ('num', Fraction(0)))))] = '[0,0]'
            kind = alts.get(q)
            if kind is None and is_call(q) and q[1] == ('name', 'float') \
                    and len(q[2]) == 1:
                kind = 'float'   # float() is transparent in normal form
            chk.ob('R20.2', kind is not None, GD, init, key='quadratic-form',
                   what='q = transpose(x) . M . x in this order',
                   found=show(q), required=show(core))
            chk.ob('R20.4', kind in ('item()', '[0,0]', 'float'), GD, init,
                   key='scalar-form',
                   what='q is reduced to a 0-dimensional scalar before it '
                        'is stored (float() of a 1x1 array raises under '
                        'numpy 2)', found=show(q))
        else:
            chk.ob('R20.2', False, GD, init, key='quadratic-form',
                   what='q = transpose(x) . M . x is stored',
                   found='no store of self.Xp_invXX_Xp')
        chk.ob('R20.3', st.get(('attr', SELF, 'RMSE')) ==
               ('attr', U('RMSE'), pset), GD, init, key='rmse-source',
               what='the RMSE correlation is the library\'s UQ entry for '
                    'this property set', found=show(st.get(
                        ('attr', SELF, 'RMSE'), ('const', None))))
    # ---- R20.3 ------------------------------------------------------------
    for x in ('CpoR', 'HoRT', 'SoR'):
        f = methods.get('get_%s_SE' % x)
        if f is None:
            raise AnalysisError('estimator lacks get_%s_SE' % x)
        tn = params(f)[1]
        ref = ("def f(self, T):\n"
               "    return float(np.sqrt(np.square(self.RMSE.get_%s(T)) * "
               "self.Xp_invXX_Xp))\n" % x)
        refcmp.check(chk, 'R20.3', GD, f, ref, key='SE:' + x,
                     what='get_%s_SE = sqrt(RMSE.get_%s(T)^2 * q) as a '
                          'float' % (x, x))
        muts = FuncEffects(f).persistent_mutations()
        chk.ob('R20.3', not muts, GD, f, key='pure:' + x,
               what='get_%s_SE stores nothing (no cache)' % x,
               found='; '.join(describe(m) for m in muts))
        # float() present (the normal form treats it as transparent)
        rets = [p_ for p_ in sym.Summarizer(opaque=('float',)).summarize(f)
                if p_.outcome[0] == 'return']
        has_float = bool(rets) and all(
            is_call(p_.outcome[1]) and p_.outcome[1][1] == ('name', 'float')
            for p_ in rets)
        chk.ob('R20.4', has_float, GD, f, key='float:' + x,
               what='the standard error is converted to a plain float')
    # class-level mutable state on the estimator
    cls = repo.cls(GD, est)
    bad = [ast.unparse(s)[:60] for s in cls.body if isinstance(s, ast.Assign)
           and isinstance(s.value, (ast.Dict, ast.List, ast.Set, ast.Call))
           and not (isinstance(s.value, ast.Call))]
    chk.ob('R20.3', not bad, GD, cls, key='no-class-state',
           qualname=est, what='the estimator class holds no mutable class-'
                              'level container', found='; '.join(bad))
    # ---- R20.5 ------------------------------------------------------------
    dl = repo.func(LIB, 'GroupLibrary._do_load')
    stores = {}
    for p in sym.summarize(dl):
        for e in p.trace:
            if e[0] == 'store' and e[1][0] == 'sub' \
                    and e[1][2][0] == 'const':
                stores.setdefault(e[1][2][1], set()).add(e[2])
    UQk = None
    for k, vals in stores.items():
        pass
    written = set(k for k in stores if k in ('RMSE', 'descriptors', 'mat',
                                            'dof'))
    read = set()
    for n in ast.walk(init):
        if isinstance(n, ast.Subscript) and dotted(n.value) == \
                libp + '.uq_contents' and isinstance(n.slice, ast.Constant):
            read.add(n.slice.value)
    chk.ob('R20.5', read <= written and read, LIB, dl, key='keys-agree',
           what='every uq_contents key the estimator reads is written by '
                'the loader', found='read %s, written %s' % (
                    sorted(read), sorted(written)))
    mats = stores.get('mat', set())
    okm = len(mats) == 1 and all(
        is_call(m) and sym.Evaluator()._call_name(m[1]) in (
            'np.array', 'numpy.array', 'np.asarray')
        and len(m[2]) == 1 and m[2][0][0] == 'sub'
        and m[2][0][2] == ('const', 'mat')
        and m[2][0][1][0] == 'sub' and m[2][0][1][2] == ('const',
                                                         'InvCovMat')
        for m in mats)
    chk.ob('R20.5', okm, LIB, dl, key='matrix-as-read',
           what='the stored matrix is the file\'s InvCovMat.mat unchanged',
           found=' | '.join(show(m) for m in mats))
    descs = stores.get('descriptors', set())
    okd = len(descs) == 1 and all(
        d[0] == 'sub' and d[2] == ('const', 'groups') and d[1][0] == 'sub'
        and d[1][2] == ('const', 'InvCovMat') for d in descs)
    chk.ob('R20.5', okd, LIB, dl, key='basis-as-read',
           what='the stored basis is the file\'s InvCovMat.groups unchanged',
           found=' | '.join(show(d) for d in descs))
    # shipped files carry those keys (every UQ block reachable through the
    # include graph of a shipped library.yaml)
    from ..datafiles import libraries
    nblocks = 0
    for lib in libraries(repo.root):
        for rel, u in lib.uq_blocks():
            nblocks += 1
            icm = u.get('InvCovMat') or {}
            ok = ('RMSE' in u and 'DOF' in u and 'groups' in icm
                  and 'mat' in icm and pset in (u.get('RMSE') or {}))
            chk.ob('R20.5', ok, rel, None, key='uq-keys:' + rel,
                   qualname='UQ', what='%s has the keys the loader reads'
                                       % rel,
                   found='UQ: %s; InvCovMat: %s' % (sorted(u), sorted(icm)))
    chk.need('R20.5', nblocks, 3, 'UQ blocks reachable from shipped '
                                  'libraries')
    # the uncertainty block of a library assembled from several files is the
    # one block given (Update hands it over without touching shared state)
    from .. import reviewed as _rv
    _rv.check(chk, 'R20.5', repo, LIB, 'GroupLibrary.Update',
              'GroupLibrary.Update hands the single uncertainty block over '
              'by rebinding, as reviewed (two blocks are an error)')
    # ---- the shipped uncertainty blocks ---------------------------------------
    from .. import dataaudit
    dataaudit.uq_consistency(chk, repo, 'D20.6')


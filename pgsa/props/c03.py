"""C03 -- descriptors do not depend on how the molecule is written."""
import json
import os

from .. import schemerules as R

EXPLANATION = (
    "Structural sources of spelling dependence inside the repository's own "
    "code. R03.1: match sets are de-duplicated by order-canonical keys "
    "(frozenset / sorted tuple); no tuple(set(.)) anywhere in GroupAdd; the "
    "group name lists its peripherals in plain sorted order. "
    "R03.2: on both input forms (molecule object, SMILES string) every "
    "local of GetDescriptors is bound before it is read, both forms run "
    "the same stages in the same order (rule R02.1), and every in-place "
    "RDKit edit lands on the copy made in this call. R03.3: a loop over "
    "perceived rings must not read molecule state (bond type, aromatic "
    "flag) that earlier iterations of the same loop rewrite. R03.4: every "
    "loop of Scheme.py visits its whole collection (no break/return), so "
    "no result depends on which element comes first. R03.5: decomposition "
    "and matching keep no state (no cache keyed by a spelling), and are "
    "unchanged in normal form from their reviewed references; the "
    "library entry point GroupLibrary.GetDescriptors hands the structure "
    "to the scheme as given (object or text).")
NOT_DECIDED = ("RDKit's SMILES parsing, hydrogen handling and its choice "
               "of Kekule structure; ring perception order (the reason "
               "R03.3 is a known finding)")
ASSUMPTIONS = ["CPython set iteration order depends on insertion history "
               "for colliding hashes", "the reviewed references in "
                                        "reviewed/functions.json"]


def run(chk, repo, tier):
    R.dedup_keys(chk, repo, 'R03.1')
    R.definite_assignment(chk, repo, 'R03.2')
    R.stage_order(chk, repo, 'R03.2')
    R.ownership(chk, repo, 'R03.2')
    R.ring_loop(chk, repo, 'R03.3')
    R.complete_loops(chk, repo, 'R03.4')
    R.purity(chk, repo, 'R03.5')
    R.reviewed_scheme(chk, repo, 'R03.5')
    R.reviewed_matcher(chk, repo, 'R03.5')
    # comparison numbers used by the patterns' constraints
    from . import c08 as _c08
    from .. import grammar_ir as _G, reviewed as _rv
    _c08.ops_table(chk, repo, _G.load(repo)[1], R2='R03.5', R3='R03.5')
    for q in ('ConstraintNumber.__init__', 'ConstraintNumber.__call__'):
        _rv.check(chk, 'R03.5', repo, 'pgradd/RDkitWrapper/MolQuery.py', q,
                  '%s is unchanged from its reviewed reference' % q)
    # the library entry point hands the structure to the scheme as given: a
    # molecule object is not re-written on the way (a conversion to text
    # there can drop what the object carries, e.g. double-bond stereo)
    _rv.check(chk, 'R03.5', repo, 'pgradd/GroupAdd/Library.py',
              'GroupLibrary.GetDescriptors',
              'GroupLibrary.GetDescriptors passes the structure it is given, '
              'object or text, unchanged to the scheme (reviewed reference)')
    R.message_concat_types(chk, repo, 'R03.2', [R.SCH, 'pgradd/Error.py'])
    # the name a group is looked up by must not depend on the order in which
    # the neighbours were met: peripherals in one total (plain sorted) order
    from .. import refcmp as _refcmp
    from . import c19 as _c19
    _refcmp.check(chk, 'R03.1', _c19.GRP,
                  repo.func(_c19.GRP, 'Group._canonical_name'),
                  _c19.REF_CANON, key='canonical-name',
                  what='the group name lists the peripherals in sorted order '
                       '(a total order: equal multisets give one name)')


"""C11 -- incompatible quantities never combine; compatible ones act as
numbers."""
import ast

from .. import sym, refcmp
from ..match import SELF, params
from ..source import AnalysisError, literal, src

EXPLANATION = (
    "Every special method of GenericQuantity (as finally bound in the class "
    "body) is compared, path by path in normal form, with a reference that "
    "states which Python operator it implements on the SI values and on the "
    "dimension vectors, and under which guard. R11.1 operator table: "
    "__lt__ <, __le__ <=, __gt__ >, __ge__ >=, __eq__ ==, __ne__ !=, "
    "+ - (units kept), * / ** (units multiplied, divided, scaled), reflected "
    "methods with operands swapped in value and units, neg, abs. R11.2: all "
    "six rich comparisons and the reflected arithmetic exist. R11.3: the "
    "eight additive/ordering methods share one guard raising UnitsError iff "
    "not zero(other) and (other has no units or they differ); ==/!= use the "
    "same condition to return False/True. R11.4: FundamentalUnits multiplies "
    "by adding exponents, divides by subtracting, powers by scaling, equals "
    "by all(==), is truthy iff any exponent is non-zero, and rounds "
    "exponents symmetrically (abs) within the threshold. R11.5: _build "
    "returns the bare value first when the units are null. R11.6: is_zero "
    "is all(== 0) for arrays, == 0 otherwise; _unpack_qty, has_units and "
    "in_units as specified; the constructors (ArrayQuantity.__new__ and "
    "friends, Quantity.__init__) equal their reviewed references. R11.7: a "
    "units local that is None somewhere in its function reaches ==/!= only "
    "behind a test of it.")
NOT_DECIDED = ("numpy's dispatch for array quantities (__array_priority__, "
               "ufunc overrides); the numeric value of the 1e-7 threshold")
ASSUMPTIONS = ["Python binary-operator dispatch (reflected methods, no "
               "synthesis of __gt__ from __lt__ against foreign types)"]

QTY = 'pgradd/Units/qty.py'
UTL = 'pgradd/Units/utils.py'

GUARD = """        (self_value, self_units) = self._unpack_qty(self)
        (other_value, other_units) = self._unpack_qty(other)
        if (not is_zero(other_value) and
                (not other_units or not self.has_units(other_units))):
            raise UnitsError('incompatible')
"""
HEAD = """        (self_value, self_units) = self._unpack_qty(self)
        (other_value, other_units) = self._unpack_qty(other)
"""


# the guard the property asks for (same dimension, or a bare zero); accepted
# as an alternative so that repairing the known finding R11.3b is not an alarm
GUARD_STRICT = """        (self_value, self_units) = self._unpack_qty(self)
        (other_value, other_units) = self._unpack_qty(other)
        if ((other_units and not self.has_units(other_units)) or
                (not other_units and not is_zero(other_value))):
            raise UnitsError('incompatible')
"""


def cmp_ref(op):
    return ["def f(self, other):\n" + g +
            "        return self_value %s other_value\n" % op
            for g in (GUARD, GUARD_STRICT)]


def add_ref(expr):
    return ["def f(self, other):\n" + g +
            "        return self._build(%s, self_units)\n" % expr
            for g in (GUARD, GUARD_STRICT)]


def eq_ref(result, op):
    # is_zero(other) and is_zero(other_value) agree for numbers, quantities
    # and arrays (is_zero of a quantity compares it with 0, which is this
    # very method with a bare zero); both spellings are accepted
    return [("def f(self, other):\n" + HEAD +
             "        if not is_zero(%s) and (not other_units or\n"
             "                not self.has_units(other_units)):\n"
             "            return %s\n"
             "        return self_value %s other_value\n" % (z, result, op))
            for z in ('other_value', 'other')]


def mul_ref(vexpr, uexpr):
    return "def f(self, other):\n" + HEAD + \
        "        return self._build(%s, %s)\n" % (vexpr, uexpr)


GQ = {
    '__lt__': cmp_ref('<'), '__le__': cmp_ref('<='),
    '__gt__': cmp_ref('>'), '__ge__': cmp_ref('>='),
    '__eq__': eq_ref('False', '=='), '__ne__': eq_ref('True', '!='),
    '__add__': add_ref('self_value + other_value'),
    '__radd__': add_ref('other_value + self_value'),
    '__sub__': add_ref('self_value - other_value'),
    '__rsub__': add_ref('other_value - self_value'),
    '__mul__': mul_ref('self_value*other_value', 'self_units*other_units'),
    '__rmul__': mul_ref('other_value*self_value', 'other_units*self_units'),
    '__truediv__': mul_ref('self_value/other_value',
                           'self_units/other_units'),
    '__rtruediv__': mul_ref('other_value/self_value',
                            'other_units/self_units'),
    '__pow__': ("def f(self, other):\n" + HEAD +
                "        if other_units:\n"
                "            raise TypeError('x')\n"
                "        return self._build(self_value**other_value,\n"
                "                           self_units**other_value)\n"),
    '__rpow__': "def f(self, other):\n        raise TypeError('x')\n",
    '__neg__': ("def f(self):\n"
                "        (self_value, self_units) = self._unpack_qty(self)\n"
                "        return self._build(-self_value, self_units)\n"),
    '__abs__': ("def f(self):\n"
                "        (self_value, self_units) = self._unpack_qty(self)\n"
                "        return self._build(abs(self_value), self_units)\n"),
    '_build': ("def f(cls, value, units):\n"
               "    if not units:\n"
               "        return value\n"
               "    if isinstance(value, (float, int)):\n"
               "        return Quantity(value, units)\n"
               "    elif isinstance(value, np.ndarray):\n"
               "        new_value = value.view(ArrayQuantity)\n"
               "        new_value._units = units\n"
               "        return new_value\n"
               "    else:\n"
               "        raise AssertionError('x')\n"),
    '_unpack_qty': ("def f(other):\n"
                    "    if isinstance(other, Quantity):\n"
                    "        return (other.value, other.units)\n"
                    "    elif isinstance(other, ArrayQuantity):\n"
                    "        return (other.view(np.ndarray), other._units)\n"
                    "    elif isinstance(other, (list, tuple)):\n"
                    "        return (np.array(other), "
                    "FundamentalUnits.null())\n"
                    "    else:\n"
                    "        return (other, FundamentalUnits.null())\n"),
    'has_units': ("def f(self, units):\n"
                  "    (self_value, self_units) = self._unpack_qty(self)\n"
                  "    if isinstance(units, FundamentalUnits):\n"
                  "        return self_units == units\n"
                  "    else:\n"
                  "        return self_units == self._unpack_qty("
                  "eval_qty(units))[1]\n"),
    'in_units': ("def f(self, units):\n"
                 "    value = self/eval_qty(units)\n"
                 "    if isinstance(value, GenericQuantity):\n"
                 "        raise UnitsError('x')\n"
                 "    return value\n"),
}

FU = {
    '__mul__': "def f(self, other):\n    return self._build(self.exps + "
               "other.exps)\n",
    '__truediv__': "def f(self, other):\n    return self._build(self.exps - "
                   "other.exps)\n",
    '__pow__': "def f(self, other):\n    return self._build(other*self.exps)"
               "\n",
    '__eq__': "def f(self, other):\n    return (self.exps == other.exps)"
              ".all()\n",
    '__ne__': "def f(self, other):\n    return not (self == other)\n",
    '__bool__': "def f(self):\n    return bool(self.exps.any())\n",
    '__init__': "def f(self, exps, are_floats):\n    self.exps = exps\n"
                "    self.are_floats = are_floats\n",
    '_build': ("def f(cls, exps):\n"
               "    exps_rounded = exps.round()\n"
               "    are_floats = np.abs(exps - exps_rounded) > "
               "cls.THRESHOLD_INTEGER\n"
               "    return cls(np.select([are_floats, "
               "np.logical_not(are_floats)], [exps, exps_rounded]), "
               "are_floats)\n"),
    'null': ("def f(cls):\n"
             "    exps = np.zeros(len(cls._primitive_units))\n"
             "    are_floats = np.zeros(len(cls._primitive_units), "
             "dtype='bool')\n"
             "    return cls(exps, are_floats)\n"),
    'new': ("def f(cls, name):\n"
            "    exps = np.zeros(len(cls._primitive_units))\n"
            "    are_floats = np.zeros(len(cls._primitive_units), "
            "dtype='bool')\n"
            "    exps[cls._primitive_units_index[name]] = 1\n"
            "    return cls(exps, are_floats)\n"),
}

IS_ZERO = ("def f(val):\n"
           "    if isinstance(val, np.ndarray):\n"
           "        return (val == 0).all()\n"
           "    else:\n"
           "        return val == 0\n")


def run(chk, repo, tier):
    meths = repo.methods(QTY, 'GenericQuantity')
    required = ['__lt__', '__le__', '__gt__', '__ge__', '__eq__', '__ne__',
                '__add__', '__radd__', '__sub__', '__rsub__', '__mul__',
                '__rmul__', '__truediv__', '__rtruediv__', '__pow__',
                '__neg__', '__abs__']
    for m in required:
        chk.ob('R11.2', m in meths, QTY, repo.cls(QTY, 'GenericQuantity'),
               key='exists:' + m, qualname='GenericQuantity',
               what='GenericQuantity defines %s (Python does not derive it)'
                    % m)
    n = 0
    for m, ref in GQ.items():
        if m not in meths:
            if m in required:
                continue
            raise AnalysisError('GenericQuantity.%s vanished' % m)
        n += 1
        rule = 'R11.3' if m in ('__lt__', '__le__', '__gt__', '__ge__',
                                '__add__', '__radd__', '__sub__', '__rsub__',
                                '__eq__', '__ne__') else (
            'R11.5' if m == '_build' else (
                'R11.6' if m in ('_unpack_qty', 'has_units', 'in_units')
                else 'R11.1'))
        refcmp.check(chk, rule, QTY, meths[m], ref,
                     what='GenericQuantity.%s implements its operator on '
                          'values and units under the shared compatibility '
                          'guard' % m, key='GenericQuantity.' + m)
    chk.need('R11.1', n, 20, 'GenericQuantity methods')
    # no subclass redefines them (Quantity / ArrayQuantity)
    over = []
    for cname in ('Quantity', 'ArrayQuantity'):
        for s in repo.cls(QTY, cname).body:
            if isinstance(s, ast.FunctionDef) and s.name in GQ:
                over.append('%s.%s' % (cname, s.name))
            if isinstance(s, ast.Assign):
                for t in s.targets:
                    if isinstance(t, ast.Name) and t.id in GQ:
                        over.append('%s.%s' % (cname, t.id))
    chk.ob('R11.1', not over, QTY, repo.cls(QTY, 'Quantity'),
           key='no-override', qualname='Quantity',
           what='Quantity/ArrayQuantity do not redefine the operators',
           found=', '.join(over))
    # MRO: GenericQuantity first so its operators win over ndarray's
    bases = [ast.unparse(b) for b in repo.cls(QTY, 'ArrayQuantity').bases]
    chk.ob('R11.1', bases[:1] == ['GenericQuantity'], QTY,
           repo.cls(QTY, 'ArrayQuantity'), key='mro',
           qualname='ArrayQuantity',
           what='ArrayQuantity lists GenericQuantity before np.ndarray',
           found=str(bases))
    # ---- R11.4 -----------------------------------------------------------
    fm = repo.methods(QTY, 'FundamentalUnits')
    for m, ref in FU.items():
        if m not in fm:
            raise AnalysisError('FundamentalUnits.%s vanished' % m)
        refcmp.check(chk, 'R11.4', QTY, fm[m], ref,
                     what='FundamentalUnits.%s combines/compares the '
                          'exponent vectors as the dimension algebra '
                          'requires' % m, key='FundamentalUnits.' + m)
    thr = literal(repo.class_assign(QTY, 'FundamentalUnits',
                                    'THRESHOLD_INTEGER'))
    chk.ob('R11.4', isinstance(thr, float) and 0 < thr <= 1e-6, QTY,
           repo.cls(QTY, 'FundamentalUnits'), key='threshold',
           qualname='FundamentalUnits',
           what='the integer-rounding threshold is a small positive number',
           found=repr(thr))
    prim = literal(repo.class_assign(QTY, 'FundamentalUnits',
                                     '_primitive_units'))
    chk.ob('R11.4', prim == ['m', 'kg', 's', 'A', 'K', 'mol', 'cd'], QTY,
           repo.cls(QTY, 'FundamentalUnits'), key='seven-dimensions',
           qualname='FundamentalUnits',
           what='the seven SI base dimensions, each once', found=str(prim))
    idx = repo.class_assign(QTY, 'FundamentalUnits',
                            '_primitive_units_index')
    want = sym.expr_key('dict((unit, i) for (i, unit) in '
                        'enumerate(_primitive_units))')
    chk.ob('R11.4', sym.Evaluator(record_calls=False).k(
        idx, sym.State()) == want, QTY, repo.cls(QTY, 'FundamentalUnits'),
        key='index-map', qualname='FundamentalUnits',
        what='the name->position map enumerates the same list')
    # ---- R11.6 -----------------------------------------------------------
    refcmp.check(chk, 'R11.6', UTL, repo.func(UTL, 'is_zero'), IS_ZERO,
                 what='is_zero: all elements zero for arrays, == 0 '
                      'otherwise', key='is_zero')
    # is_zero used in qty.py is that function
    ok = any(isinstance(s, ast.ImportFrom) and s.module == 'utils'
             and s.level == 1 and any(a.name == 'is_zero'
                                      and a.asname is None for a in s.names)
             for s in repo.mod(QTY).tree.body)
    chk.ob('R11.6', ok, QTY, repo.mod(QTY).tree.body[0], key='is_zero-import',
           qualname='<module>', what='qty.py uses Units.utils.is_zero')
    guard_vs_property(chk, repo, meths)
    nullable_unit_comparisons(chk, repo)
    # constructors: what units a quantity carries (a bundle of quantities
    # must agree on one dimension) is decided here
    from .. import reviewed as _rv
    # the guards build their UnitsError message from str(units): the text
    # must be constructible for every exponent vector
    for q in ('FundamentalUnits.__str__', 'FundamentalUnits.__repr__'):
        _rv.check(chk, 'R11.4', repo, QTY, q,
                  '%s (used in every UnitsError message) is unchanged in '
                  'normal form from its reviewed reference' % q)
    for q in ('ArrayQuantity.__new__', 'ArrayQuantity.__array_finalize__',
              'ArrayQuantity.__array_wrap__', 'ArrayQuantity.__getitem__',
              'Quantity.__init__'):
        _rv.check(chk, 'R11.6', repo, QTY, q,
                  '%s (which units a new quantity carries; a bundle of '
                  'quantities must agree on them) is unchanged in normal '
                  'form from its reviewed reference' % q)


def nullable_unit_comparisons(chk, repo):
    """R11.7 (contradiction rule): FundamentalUnits.__eq__/__ne__ read
    `other.exps` unconditionally, so a units value that may still be None must
    not reach `==`/`!=`.  In qty.py, a local that is set to None somewhere in
    a function and compared with ==/!= must be tested first (`x and x != y`,
    `x is not None and ...`, or inside `if x:`), as its other uses are."""
    n = 0
    for f in ast.walk(repo.mod(QTY).tree):
        if not isinstance(f, ast.FunctionDef):
            continue
        nullable = set()
        for a in ast.walk(f):
            if isinstance(a, ast.Assign) and isinstance(
                    a.value, ast.Constant) and a.value.value is None:
                for t in a.targets:
                    if isinstance(t, ast.Name):
                        nullable.add(t.id)
        if not nullable:
            continue
        for c in ast.walk(f):
            if not (isinstance(c, ast.Compare) and any(isinstance(
                    o, (ast.Eq, ast.NotEq)) for o in c.ops)):
                continue
            names = [x.id for x in [c.left] + c.comparators
                     if isinstance(x, ast.Name) and x.id in nullable]
            others = [x for x in [c.left] + c.comparators
                      if not (isinstance(x, ast.Constant))]
            if not names or len(others) < 2:
                continue        # comparison with a literal is harmless
            for name in names:
                n += 1
                guarded = False
                p, child = getattr(c, '_parent', None), c
                while p is not None and p is not f:
                    if isinstance(p, ast.BoolOp) and isinstance(
                            p.op, ast.And):
                        for v in p.values:
                            if v is child:
                                break
                            if _tests_not_none(v, name):
                                guarded = True
                    if isinstance(p, (ast.If, ast.While)) and child in \
                            p.body and _tests_not_none(p.test, name):
                        guarded = True
                    if isinstance(p, ast.IfExp) and child is p.body \
                            and _tests_not_none(p.test, name):
                        guarded = True
                    child, p = p, getattr(p, '_parent', None)
                chk.ob('R11.7', guarded, QTY, c,
                       key='nullable-compare:%s:%s' % (f.name, name),
                       what='%s: `%s` may still be None where it is compared '
                            '(units equality reads .exps of both sides)'
                            % (f.name, name), found=src(c))
    chk.need('R11.7', n, 1, 'comparisons of may-be-None unit locals')


def _tests_not_none(test, name):
    if isinstance(test, ast.Name) and test.id == name:
        return True
    if isinstance(test, ast.Compare) and isinstance(
            test.left, ast.Name) and test.left.id == name and len(
            test.ops) == 1 and isinstance(test.ops[0], ast.IsNot) \
            and isinstance(test.comparators[0], ast.Constant) \
            and test.comparators[0].value is None:
        return True
    if isinstance(test, ast.BoolOp) and isinstance(test.op, ast.And):
        return any(_tests_not_none(v, name) for v in test.values)
    return False


def guard_vs_property(chk, repo, meths):
    """R11.3b: the guard's boolean function against the property's: combining
    is allowed iff the other operand has the same dimension, or is a *bare*
    (unit-less) zero.  Atoms: Z = other value is zero, U = other has units,
    S = self has the other's units (S implies U)."""
    Z = ('truthy', sym.expr_key('is_zero(self._unpack_qty(other)[0])'))
    U = ('truthy', sym.expr_key('self._unpack_qty(other)[1]'))
    S = ('truthy', sym.expr_key(
        'self.has_units(self._unpack_qty(other)[1])'))
    bad = {}
    for m in ('__lt__', '__le__', '__gt__', '__ge__', '__add__', '__radd__',
              '__sub__', '__rsub__'):
        if m not in meths:
            continue
        paths = sym.summarize(meths[m])
        for z in (False, True):
            for u in (False, True):
                for s_ in (False, True):
                    if s_ and not u:
                        continue
                    assign = {Z: z, U: u, S: s_}
                    feas = [p for p in paths if p.feasible(assign)]
                    raises = set(p.outcome[0] == 'raise' and
                                 p.outcome[1] == 'UnitsError' for p in feas)
                    if len(raises) != 1:
                        bad.setdefault('ambiguous', []).append(m)
                        continue
                    want = (not s_) and (u or not z)
                    if list(raises)[0] != want:
                        bad.setdefault((z, u, s_), []).append(m)
    for k, ms in sorted(bad.items(), key=repr):
        if k == 'ambiguous':
            chk.ob('R11.3', False, QTY, meths[ms[0]], key='guard-ambiguous',
                   what='the guard of %s does not decide raise/no-raise from '
                        'zero(other), units(other), same-units' % ms)
        else:
            z, u, s_ = k
            chk.ob('R11.3', False, QTY, meths[ms[0]],
                   qualname='GenericQuantity',
                   key='guard-deviation:zero=%s,units=%s,same=%s' % k,
                   what='the compatibility guard deviates from "same '
                        'dimension or bare zero" when other is %s, %s and '
                        '%s (methods: %s)' % (
                            'zero' if z else 'non-zero',
                            'has units' if u else 'unit-less',
                            'of the same dimension' if s_
                            else 'of another dimension', ', '.join(ms)))
    if not bad:
        chk.ob('R11.3', True, QTY, meths['__lt__'], key='guard=property',
               what='the guard equals "same dimension or bare zero"')


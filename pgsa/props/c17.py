"""C17 -- a generated network is the duplicate-free closure of its seeds."""
import ast

from .. import sym, reviewed
from ..match import loop_has_exit
from ..source import AnalysisError, dotted, src
from . import c16

EXPLANATION = (
    "Work-list typestate rules on GenerateRxnNet. R17.1 transfer: the main "
    "loop runs while the waiting list is non-empty; the element taken from "
    "it is put on the processed list in the same iteration and removed "
    "from the waiting list; the function returns the processed list. "
    "R17.2 insertion guard: every insertion into the waiting list is "
    "guarded by a membership scan whose scanned collection is built, at "
    "scan time (inside the per-product loop), from both the processed and "
    "the waiting list, comparing atom counts and a full substructure "
    "match. R17.3: only filtered products are inserted: the over-valence "
    "filter and the within-batch de-duplication precede the insertion, "
    "both iterate backwards over the whole batch; all rules are applied to "
    "every popped species. R17.4: the rule application it relies on edits a "
    "copy per match and the bond-order tables are inverse of each other "
    "(rules shared with C16). R17.5: GenerateRxnNet and its sanitiser are "
    "unchanged in normal form from their reviewed references.")
NOT_DECIDED = ("that mutual substructure match with equal atom counts is "
               "species identity; RDKit reaction semantics for SMARTS "
               "rules; termination when the closure is infinite")
ASSUMPTIONS = ["RDKit GetSubstructMatch returns a full-length match iff the "
               "query is a subgraph",
               "the reviewed references in reviewed/functions.json"]

GRN = 'pgradd/RDkitWrapper/GenRxnNet.py'


def run(chk, repo, tier):
    f = repo.func(GRN, 'GenerateRxnNet')
    # names of the two lists: `while W:` is the main loop
    whiles = [n for n in f.body if isinstance(n, ast.While)]
    chk.need('R17.1', len(whiles), 1, 'main work-list loop')
    w = whiles[0]
    ok = isinstance(w.test, ast.Name)
    chk.ob('R17.1', ok, GRN, w, key='loop-while-waiting',
           what='the main loop runs while the waiting list is non-empty',
           found=src(w.test))
    if not ok:
        return
    W = w.test.id
    # processed list: the list that receives W[0] by insert/append
    P = None
    for s in w.body:
        if isinstance(s, ast.Expr) and isinstance(s.value, ast.Call) \
                and isinstance(s.value.func, ast.Attribute) \
                and s.value.func.attr in ('insert', 'append') \
                and any(src(a) == W + '[0]' for a in s.value.args):
            P = src(s.value.func.value)
    chk.ob('R17.1', P is not None, GRN, w, key='transfer-to-processed',
           what='the species taken from the waiting list is added to the '
                'processed list in the same iteration')
    if P is None:
        return
    dels = [s for s in w.body if isinstance(s, ast.Delete)
            and any(src(t) == W + '[0]' for t in s.targets)]
    pops = [s for s in w.body if isinstance(s, (ast.Expr, ast.Assign))
            and isinstance(s.value, ast.Call) and src(s.value) in (
                W + '.pop(0)',)]
    chk.ob('R17.1', len(dels) + len(pops) == 1, GRN, w,
           key='removed-from-waiting',
           what='exactly that species is removed from the waiting list, '
                'once per iteration')
    rets = [n for n in ast.walk(f) if isinstance(n, ast.Return)]
    chk.ob('R17.1', len(rets) == 1 and src(rets[0].value) == P
           and rets[0] in f.body, GRN, rets[0] if rets else f,
           key='returns-processed', what='the function returns the '
                                         'processed list, once, at the end')
    chk.ob('R17.1', not loop_has_exit(w, (ast.Break, ast.Return)), GRN, w,
           key='no-early-exit', what='the main loop has no early exit')
    # seeds: W is the seed list
    seed_assign = [s for s in f.body if isinstance(s, ast.Assign)
                   and any(isinstance(t, ast.Name) and t.id == W
                           for t in s.targets)]
    chk.ob('R17.1', len(seed_assign) == 1 and src(
        seed_assign[0].value) == 'initial_reactant', GRN,
        seed_assign[0] if seed_assign else f, key='seeds-waiting',
        what='the waiting list starts as the (pre-treated) seed list')
    pinit = [s for s in f.body if isinstance(s, ast.Assign)
             and any(src(t) == P for t in s.targets)]
    chk.ob('R17.1', len(pinit) == 1 and src(pinit[0].value) in ('[]',
                                                               'list()'),
           GRN, pinit[0] if pinit else f, key='processed-empty',
           what='the processed list starts empty')
    # ---- R17.2 ----------------------------------------------------------
    inserts = [c for c in ast.walk(w) if isinstance(c, ast.Call)
               and isinstance(c.func, ast.Attribute)
               and c.func.attr in ('insert', 'append', 'extend')
               and src(c.func.value) == W]
    chk.need('R17.2', len(inserts), 1, 'insertions into the waiting list')
    for ins in inserts:
        # enclosing per-product loop
        lp = ins
        while lp is not None and not (isinstance(lp, ast.For) and isinstance(
                lp.target, ast.Name) and any(
                isinstance(a, ast.Name) and a.id == lp.target.id
                for a in ins.args)):
            lp = getattr(lp, '_parent', None)
        ok = lp is not None and lp is not w
        found = ''
        if ok:
            prod = lp.target.id
            # the guard: `if flag == 0:` around the insert, flag set in a
            # scan loop inside lp, before the insert
            scans = [n for n in lp.body if isinstance(n, ast.For)]
            ok = len(scans) == 1
            if ok:
                scan = scans[0]
                it = scan.iter
                names = set(x.id for x in ast.walk(it)
                            if isinstance(x, ast.Name))
                both = {P, W} <= names and isinstance(it, ast.BinOp) \
                    and isinstance(it.op, ast.Add)
                found = 'scans %s' % src(it)
                ok = both and scan.lineno < ins.lineno
                # identity test: equal atom counts and full-length match
                t = [n for n in scan.body if isinstance(n, ast.If)]
                if ok and t:
                    tt = src(t[0].test).replace(' ', '').replace('\n', '')
                    m2 = scan.target.id
                    want = ('%s.GetNumAtoms()==%s.GetNumAtoms()and%s.'
                            'GetNumAtoms()==len(%s.GetSubstructMatch(%s))'
                            % (prod, m2, prod, prod, m2))
                    ok = tt == want
                    if not ok:
                        found = 'identity test is %s' % src(t[0].test)[:120]
                    sets = [n for n in ast.walk(t[0]) if isinstance(
                        n, ast.Assign)]
                    flag = sets[0].targets[0].id if sets else None
                    guard = ins
                    while guard is not None and not isinstance(guard,
                                                               ast.If):
                        guard = getattr(guard, '_parent', None)
                    ok = ok and flag is not None and guard is not None \
                        and guard in lp.body and src(guard.test).replace(
                            ' ', '') in (flag + '==0', 'not' + flag) \
                        and not guard.orelse
                    inits = [n for n in lp.body if isinstance(n, ast.Assign)
                             and n.targets[0].id == flag
                             and n.lineno < scan.lineno] if flag else []
                    ok = ok and len(inits) == 1 and src(
                        inits[0].value) in ('0', 'False')
                else:
                    ok = False
        chk.ob('R17.2', ok, GRN, ins, key='insertion-guard',
               what='a product is queued only if no species of the '
                    'processed list *or of the waiting list* (scanned at '
                    'that moment) has the same atom count and matches it '
                    'atom for atom', found=found)
        chk.ob('R17.2', len(ins.args) >= 1 and src(ins.args[-1]) == (
            lp.target.id if lp is not None and isinstance(lp, ast.For)
            else ''), GRN, ins, key='inserts-the-product',
            what='what is queued is the scanned product itself')
    # ---- R17.3 ----------------------------------------------------------
    rules_loops = [n for n in w.body if isinstance(n, ast.For)
                   and src(n.iter) == 'reaction_rules']
    chk.ob('R17.3', len(rules_loops) == 1 and not loop_has_exit(
        rules_loops[0], (ast.Break, ast.Return, ast.Continue)), GRN, w,
        key='all-rules', what='every rule is applied to every popped '
                              'species (complete loop)')
    back = [n for n in ast.walk(w) if isinstance(n, ast.For)
            and src(n.iter).replace(' ', '') ==
            'range(len(products)-1,-1,-1)']
    chk.ob('R17.3', len(back) == 2, GRN, w, key='filters-backwards',
           what='the over-valence filter and the batch de-duplication each '
                'walk the whole batch from the end (deleting while '
                'iterating is only safe backwards)', found='%d' % len(back))
    if len(back) == 2 and inserts:
        chk.ob('R17.3', max(b.end_lineno for b in back) < min(
            i.lineno for i in inserts), GRN, back[0], key='filter-first',
            what='filtering and de-duplication precede the insertion')
        val = back[0]
        t = [n for n in ast.walk(val) if isinstance(n, ast.Compare)]
        okv = any('GetDefaultValence' in src(c) and 'GetTotalValence' in
                  src(c) and isinstance(c.ops[0], ast.Lt) for c in t)
        chk.ob('R17.3', okv, GRN, val, key='valence-filter',
               what='a product is dropped iff some atom\'s total valence '
                    'exceeds the default valence of its element')
    # ---- R17.4 (shared) -----------------------------------------------------
    c16.check_run_reactants(chk, repo, rule='R17.4')
    c16.check_bond_tables(chk, repo, rule='R17.4')
    # ---- R17.5 reviewed -------------------------------------------------------
    reviewed.check(chk, 'R17.5', repo, GRN, 'GenerateRxnNet',
                   'GenerateRxnNet is unchanged in normal form from its '
                   'reviewed reference')
    reviewed.check(chk, 'R17.5', repo, GRN, '_sanitize_except_aromatization',
                   'the sanitiser is unchanged from its reviewed reference')
    RQ = 'pgradd/RDkitWrapper/ReactionQuery.py'
    for c in repo.mod(RQ).tree.body:
        if isinstance(c, ast.ClassDef):
            for s_ in c.body:
                if isinstance(s_, ast.FunctionDef) and s_.name in (
                        '__init__', '__call__', 'getbondtype',
                        'RunReactants', 'GetNumReactantTemplates',
                        'AppendReactantQuery'):
                    reviewed.check(
                        chk, 'R17.5', repo, RQ, '%s.%s' % (c.name, s_.name),
                        '%s.%s (rule application) is unchanged from its '
                        'reviewed reference' % (c.name, s_.name))
    # rules given as RING text are compiled by the readers and matched by the
    # evaluators: same reviewed references as C08/C16
    for rel, cname in (('pgradd/RINGParser/MolQueryRead.py',
                        'MolQueryReader'),
                       ('pgradd/RINGParser/ReactionQueryRead.py',
                        'ReactionQueryReader')):
        for s_ in repo.cls(rel, cname).body:
            if isinstance(s_, ast.FunctionDef):
                reviewed.check(chk, 'R17.5', repo, rel,
                               '%s.%s' % (cname, s_.name),
                               '%s.%s (rule compilation) is unchanged from '
                               'its reviewed reference' % (cname, s_.name))
    MQ = 'pgradd/RDkitWrapper/MolQuery.py'
    for c in repo.mod(MQ).tree.body:
        if isinstance(c, ast.ClassDef):
            for s_ in c.body:
                if isinstance(s_, ast.FunctionDef) and s_.name in (
                        '__init__', '__call__', 'GetQueryMatches'):
                    reviewed.check(chk, 'R17.5', repo, MQ,
                                   '%s.%s' % (c.name, s_.name),
                                   '%s.%s (reactant matching) is unchanged '
                                   'from its reviewed reference'
                                   % (c.name, s_.name))
    class_state(chk, repo, 'R17.4')


def class_state(chk, repo, rule):
    """No class of the rule machinery carries class-level state (two rule
    objects must not share templates, matches or edits); a literal table
    that nothing in the module writes to is a constant, not state."""
    for rel in ('pgradd/RDkitWrapper/ReactionQuery.py',
                'pgradd/RINGParser/ReactionQueryRead.py'):
        for c in repo.mod(rel).tree.body:
            if isinstance(c, ast.ClassDef):
                from ..match import readonly_literal_table
                state = [src(s_)[:50] for s_ in c.body
                         if isinstance(s_, ast.Assign) and not all(
                             isinstance(t, ast.Name)
                             and readonly_literal_table(
                                 repo.mod(rel).tree, c, t.id, literal=False)
                             for t in s_.targets)]
                chk.ob(rule, not state, rel, c,
                       key='no-class-state:' + c.name, qualname=c.name,
                       what='%s has no class-level state (shared by every '
                            'rule object)' % c.name, found='; '.join(state))


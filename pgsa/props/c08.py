"""C08 -- RING fragment matching returns exactly the embeddings it denotes."""
import ast

from .. import sym, refcmp, reviewed, grammar_ir
from ..match import SELF, params, is_call
from ..effects import FuncEffects, describe
from ..source import AnalysisError, dotted, src, literal
from ..sym import show
from . import c09

EXPLANATION = (
    "R08.1 negation flip: for every constraint evaluator that stores "
    "`negate`, the decision table of its __call__ (predicate atoms "
    "enumerated from its enumerated paths; complementary comparisons and "
    "the two ring loops identified) gives one verdict per assignment and "
    "the verdict under negate=True is the opposite of the one under "
    "negate=False. R08.2 vocabulary agreement: the literal set of each "
    "Literals rule of the enhanced grammar equals the constants its reader "
    "handles (bond kinds also in BondQuery's accepted list and evaluator "
    "branches; comparison operators = keys of the ops table). R08.3: ops "
    "maps > < >= <= = to operator.gt lt ge le eq. R08.4 pipeline: "
    "GetQueryMatches and the Append*/constructor methods are compared in "
    "normal form with their reviewed references (molecule constraints "
    "first, candidates from GetSubstructMatches(uniquify=False, "
    "maxMatches=10000) on an AddHs copy, three filter stages each passing "
    "the same element on, result from the last stage). R08.5: every child "
    "of every syntax-tree shape is examined by its reader (no prefix, "
    "suffix or constraint parsed and dropped); a parameter object the "
    "caller expects to be configured is not rebound to a new object. "
    "R08.6-8: every reader method and every evaluator is compared in "
    "normal form with its reviewed reference (defaults >=1 and single "
    "bond, charge 0 and =0 radicals without suffix, suffix/prefix/bond-"
    "kind tables); atoms returned by the symbol reader are query atoms; "
    "evaluators keep no state.")
NOT_DECIDED = ("RDKit's candidate embeddings and query-atom semantics; "
               "constraint failures signalled by unexpected exceptions "
               "(any internal error counts as no match); the chemistry "
               "meant by 'allylic'")
ASSUMPTIONS = ["RDKit GetSubstructMatches(uniquify=False) returns every "
               "embedding up to maxMatches",
               "the reviewed references in reviewed/functions.json were "
               "read against the RING language description"]

MQ = 'pgradd/RDkitWrapper/MolQuery.py'
MQR = 'pgradd/RINGParser/MolQueryRead.py'
PARSER = 'pgradd/RINGParser/Parser.py'


def verdict(p):
    if p.outcome[0] == 'raise':
        return 'reject' if p.outcome[1] == 'MolQueryError' else \
            'error:' + p.outcome[1]
    return 'accept'


def negation_tables(chk, repo):
    tree = repo.mod(MQ).tree
    classes = []
    for c in tree.body:
        if isinstance(c, ast.ClassDef) and any(
                isinstance(n, ast.Attribute) and n.attr == 'negate'
                and isinstance(n.ctx, ast.Store) for n in ast.walk(c)):
            classes.append(c)
    chk.need('R08.1', len(classes), 9, 'evaluator classes storing negate')
    neg = ('truthy', ('attr', SELF, 'negate'))
    for c in classes:
        call = [s for s in c.body if isinstance(s, ast.FunctionDef)
                and s.name == '__call__']
        owner = c
        seen = set()
        while not call and owner is not None and owner.name not in seen:
            # inherited from a base class of the same module
            seen.add(owner.name)
            nxt = None
            for b in owner.bases:
                if isinstance(b, ast.Name):
                    for cc in tree.body:
                        if isinstance(cc, ast.ClassDef) and cc.name == b.id:
                            nxt = cc
            owner = nxt
            if owner is not None:
                call = [s for s in owner.body if isinstance(
                    s, ast.FunctionDef) and s.name == '__call__']
        if not call:
            chk.ob('R08.1', False, MQ, c, key='call:' + c.name,
                   qualname=c.name, what='%s has a __call__' % c.name)
            continue
        f = call[0]

        def mentions_negate(node):
            return any(isinstance(x, ast.Attribute) and x.attr == 'negate'
                       for x in ast.walk(node))

        def chain_tests(ifn):
            tests = [ifn.test]
            while len(ifn.orelse) == 1 and isinstance(ifn.orelse[0], ast.If):
                ifn = ifn.orelse[0]
                tests.append(ifn.test)
            return tests
        chains = []
        for node in ast.walk(f):
            if isinstance(node, ast.If) and any(
                    mentions_negate(t) for t in chain_tests(node)):
                par = node._parent
                is_elif = isinstance(par, ast.If) and par.orelse == [node]
                inside = False
                q = par
                while q is not None and q is not f:
                    if q in chains:
                        inside = True
                    q = getattr(q, '_parent', None)
                if not is_elif and not inside:
                    chains.append(node)
        if not chains:
            chk.ob('R08.1', False, MQ, f, key='uses-negate:' + c.name,
                   what='%s.__call__ consults self.negate' % c.name)
            continue
        for ci, chain in enumerate(chains):
            # forward-substitute the statements before the chain
            S = sym.Summarizer(record_calls=False)
            pre_states = [sym.State()]
            container = chain._parent
            body = None
            for fld in ('body', 'orelse', 'finalbody'):
                lst = getattr(container, fld, None)
                if isinstance(lst, list) and chain in lst:
                    body = lst
            paths = []
            try:
                outs = S.block([chain], sym.State())
            except sym.Unmodelled as exc:
                raise AnalysisError('%s chain %d: %s' % (c.name, ci, exc))
            for s2, o in outs:
                paths.append(sym.Path(s2, o or ('fall',)))
            atoms = []
            for p in paths:
                for k, pol in p.conds():
                    for a in sym.bool_atoms(k):
                        if a not in atoms:
                            atoms.append(a)
            others = [a for a in atoms if a != neg]
            impl = []
            if c.name == 'AtomRing':
                # "some ring containing the atom has the size" implies
                # atom.IsInRing()
                inring = [a for a in others if a[0] == 'truthy'
                          and is_call(a[1]) and a[1][1][0] == 'attr'
                          and a[1][1][2] == 'IsInRing']
                ex = [a for a in others if a[0] == 'exists']
                impl = [(e, r) for e in ex for r in inring]
            if len(others) > 8:
                raise AnalysisError('too many predicate atoms in %s'
                                    % c.name)
            bad = []
            n_assign = 0
            for bits in range(1 << len(others)):
                assign = dict((a, bool(bits >> i & 1))
                              for i, a in enumerate(others))
                if any(assign.get(a) and not assign.get(b, True)
                       for a, b in impl):
                    continue
                vs = {}
                for nv in (True, False):
                    full = dict(assign)
                    full[neg] = nv
                    feas = [p for p in paths if p.feasible(full)]
                    vs[nv] = sorted(set(verdict(p) for p in feas))
                if not vs[True] and not vs[False]:
                    continue
                n_assign += 1
                ok = (len(vs[True]) == 1 and len(vs[False]) == 1
                      and vs[True] != vs[False]
                      and set(vs[True] + vs[False]) == {'accept', 'reject'})
                if not ok:
                    bad.append('%s: negate=True -> %s, negate=False -> %s'
                               % (', '.join('%s=%s' % (show(a)[:50], v)
                                            for a, v in assign.items())
                                  or '(no atoms)', vs[True], vs[False]))
            chk.ob('R08.1', not bad, MQ, chain,
                   key='flip:%s#%d' % (c.name, ci),
                   qualname=c.name + '.__call__',
                   what='%s, negate chain %d: under every assignment of its '
                        'predicates the verdict is unique and negation '
                        'flips it (%d assignments over %d atoms)' % (
                            c.name, ci, n_assign, len(others)),
                   found=' || '.join(bad[:4]))


def handled_constants(func, var_pred=None):
    """String constants a function compares some value with (== or in)."""
    out = set()
    for n in ast.walk(func):
        if isinstance(n, ast.Compare) and len(n.ops) == 1:
            op = n.ops[0]
            c = n.comparators[0]
            if isinstance(n.left, ast.Attribute) and n.left.attr == 'name':
                continue    # a node-name test, not a literal of the rule
            if isinstance(op, (ast.Eq, ast.NotEq)) and isinstance(
                    c, ast.Constant) and isinstance(c.value, str):
                out.add(c.value)
            if isinstance(op, (ast.In, ast.NotIn)) and isinstance(
                    c, (ast.List, ast.Tuple, ast.Set)):
                for e in c.elts:
                    if isinstance(e, ast.Constant) and isinstance(e.value,
                                                                  str):
                        out.add(e.value)
    return out


def vocabulary(chk, repo, g):
    def lits(rule):
        ls = g.literal_sets(rule)
        return set(x for l in ls for x in l)
    rd = repo.methods(MQR, 'MolQueryReader')
    mq_bq = repo.methods(MQ, 'BondQuery')
    table = [
        ('AtomSuffix', lits('AtomSuffix'),
         handled_constants(rd['ReadAtomSuffix']), 'ReadAtomSuffix', MQR),
        ('AtomPrefix', lits('AtomPrefix'),
         handled_constants(rd['ReadAtomPrefix']), 'ReadAtomPrefix', MQR),
        ('BondType', lits('BondType'),
         handled_constants(rd['ReadBondTypeBondedAtom']),
         'ReadBondTypeBondedAtom', MQR),
        ('BondType', lits('BondType'), handled_constants(mq_bq['__init__']),
         'BondQuery.__init__', MQ),
        ('BondType', lits('BondType'), handled_constants(mq_bq['__call__']),
         'BondQuery.__call__', MQ),
        ('Symbols', lits('Symbols'),
         handled_constants(rd['ReadSymbols']) - {'M'}, 'ReadSymbols', MQR),
        ('Prefix', lits('Prefix'),
         handled_constants(rd['ReadMolQueryPrefix']), 'ReadMolQueryPrefix',
         MQR),
        ('DoubleBondStereoType', lits('DoubleBondStereoType'),
         handled_constants(rd['ReadStereoDoubleBond']) - {'!'},
         'ReadStereoDoubleBond', MQR),
    ]
    for rule, glits, handled, where, rel in table:
        chk.need('R08.2', len(glits), 3, 'literals of ' + rule)
        f = rd.get(where) or mq_bq.get(where.split('.')[-1])
        chk.ob('R08.2', glits == handled, rel, f,
               key='vocab:%s:%s' % (rule, where),
               what='the literals the grammar accepts for %s are exactly '
                    'the constants %s handles' % (rule, where),
               found='grammar only: %s; handler only: %s' % (
                   sorted(glits - handled), sorted(handled - glits)))
    # AtomPrefix reader has no else: it must be total (covered above) and
    # return on every branch
    ap = sym.summarize(rd['ReadAtomPrefix'])
    none_returns = [p for p in ap if p.outcome == ('return', ('const', None))
                    and len(p.conds()) < 5]
    chk.ob('R08.2', not none_returns, MQR, rd['ReadAtomPrefix'],
           key='prefix-total', what='ReadAtomPrefix returns a constraint '
                                    'for every literal')
    ops_table(chk, repo, g)


def ops_table(chk, repo, g, R2='R08.2', R3='R08.3'):
    # comparison operators: ConstraintNumber literals = keys of ops
    cn = set(x for l in g.literal_sets('ConstraintNumber') for x in l)
    ops_node = repo.module_assign(MQ, 'ops')
    if not isinstance(ops_node, ast.Dict):
        raise AnalysisError('ops is not a dict literal')
    keys = [literal(k) for k in ops_node.keys]
    chk.ob(R2, cn == set(keys) and len(keys) == len(set(keys)), MQ,
           ops_node, key='vocab:ConstraintNumber:ops', qualname='<module>',
           what='the comparison operators of the grammar are the keys of '
                'the ops table', found='grammar %s, ops %s' % (sorted(cn),
                                                              sorted(keys)))
    # R08.3 meaning of each operator
    alias = None
    for s_ in repo.mod(MQ).tree.body:
        if isinstance(s_, ast.Import):
            for a in s_.names:
                if a.name == 'operator':
                    alias = a.asname or a.name
    want = {'>': 'gt', '<': 'lt', '>=': 'ge', '<=': 'le', '=': 'eq'}
    got = {}
    for k, v in zip(ops_node.keys, ops_node.values):
        d = dotted(v) or ''
        got[literal(k)] = d.split('.', 1)[1] if alias and d.startswith(
            alias + '.') else d
    chk.ob(R3, got == want, MQ, ops_node, key='ops-meaning',
           qualname='<module>',
           what='ops maps each symbol to the operator function of that '
                'comparison', found=str(got))
    refcmp.check(chk, R3, MQ,
                 repo.func(MQ, 'ConstraintNumber.__call__'),
                 "def f(self, inp):\n    return ops[self.operator](inp, "
                 "self.n)\n", key='ConstraintNumber.__call__',
                 what='a comparison number applies its operator as '
                      'op(count, n), in that order')


def dropped_objects(chk, repo):
    """A parameter the caller expects to be configured in place must not be
    rebound to a fresh object that is then configured and dropped."""
    n = 0
    for fn in repo.cls(MQR, 'MolQueryReader').body:
        if not isinstance(fn, ast.FunctionDef):
            continue
        ps = params(fn)[1:]
        for p in ps:
            mutated = [c for c in ast.walk(fn) if isinstance(c, ast.Call)
                       and isinstance(c.func, ast.Attribute)
                       and isinstance(c.func.value, ast.Name)
                       and c.func.value.id == p
                       and c.func.attr in ('ExpandQuery', 'SetIsAromatic',
                                           'AddAtom', 'AddBond',
                                           'SetFormalCharge', 'append')]
            if not mutated:
                continue
            n += 1
            rebinds = [a for a in ast.walk(fn) if isinstance(a, ast.Assign)
                       and any(isinstance(t, ast.Name) and t.id == p
                               for t in a.targets)]
            returned = any(isinstance(r, ast.Return) and r.value is not None
                           and any(isinstance(x, ast.Name) and x.id == p
                                   for x in ast.walk(r.value))
                           for r in ast.walk(fn))
            bad = [r for r in rebinds if not returned]
            chk.ob('R08.5', not bad, MQR, bad[0] if bad else fn,
                   key='param-rebound:%s.%s' % (fn.name, p),
                   qualname='MolQueryReader.' + fn.name,
                   what='%s configures its parameter %r in place; rebinding '
                        'it to a new object (never returned) silently drops '
                        'the configuration' % (fn.name, p),
                   found='; '.join(src(r)[:70] for r in bad))
    chk.need('R08.5', n, 1, 'in-place configured parameters')


def query_atoms(chk, repo, rule):
    """ReadSymbols returns rdqueries query atoms on every path (its callers
    call ExpandQuery on the result; a plain Chem.Atom has no such method:
    AttributeError out of Read)."""
    rs = repo.func(MQR, 'MolQueryReader.ReadSymbols')
    bad = []
    nret = 0
    for p in sym.summarize(rs):
        if p.outcome[0] != 'return':
            continue
        nret += 1
        v = p.outcome[1]
        if not (is_call(v) and (sym.Evaluator()._call_name(v[1]) or ''
                                ).startswith('rdqueries.')):
            bad.append(show(v)[:80])
    chk.ob(rule, not bad and nret >= 5, MQR, rs, key='query-atoms',
           what='every atom ReadSymbols returns is an rdqueries query atom '
                '(the callers call ExpandQuery on it)',
           found='; '.join(bad))


def run(chk, repo, tier):
    strict, g = grammar_ir.load(repo)
    negation_tables(chk, repo)
    vocabulary(chk, repo, g)
    dropped_objects(chk, repo)
    c09.check_shapes(chk, repo, g, 'R08.5', only_class='MolQueryReader')
    # ---- reviewed references --------------------------------------------
    mq_names = []
    for c in repo.mod(MQ).tree.body:
        if isinstance(c, ast.ClassDef):
            for s_ in c.body:
                if isinstance(s_, ast.FunctionDef) and s_.name in (
                        '__init__', '__call__', 'AppendMolConstraint',
                        'AppendAtomConstraint', 'AppendBondConstraint',
                        'AppendDoubleBondStereoConstraint',
                        'GetQueryMatches'):
                    mq_names.append('%s.%s' % (c.name, s_.name))
    chk.need('R08.8', len(mq_names), 35, 'evaluator methods')
    for q in mq_names:
        rule = 'R08.4' if q.startswith('MolQuery.') else 'R08.8'
        reviewed.check(chk, rule, repo, MQ, q,
                       '%s is unchanged in normal form from its reviewed '
                       'reference' % q)
    rd_names = [s_.name for s_ in repo.cls(MQR, 'MolQueryReader').body
                if isinstance(s_, ast.FunctionDef)]
    chk.need('R08.6', len(rd_names), 20, 'reader methods')
    for m in rd_names:
        reviewed.check(chk, 'R08.6', repo, MQR, 'MolQueryReader.' + m,
                       'MolQueryReader.%s is unchanged in normal form from '
                       'its reviewed reference (defaults, suffix/prefix/'
                       'bond-kind tables, label checks)' % m)
    # evaluators keep no state
    for c in repo.mod(MQ).tree.body:
        if not isinstance(c, ast.ClassDef):
            continue
        from ..match import readonly_literal_table
        state = [src(s_)[:50] for s_ in c.body if isinstance(s_, ast.Assign)
                 and not all(isinstance(t, ast.Name)
                             and readonly_literal_table(
                                 repo.mod(MQ).tree, c, t.id, literal=False)
                             for t in s_.targets)]
        chk.ob('R08.8', not state, MQ, c, key='no-class-state:' + c.name,
               qualname=c.name, what='%s has no class-level state' % c.name,
               found='; '.join(state))
        for s_ in c.body:
            if isinstance(s_, ast.FunctionDef) and s_.name in (
                    '__call__', 'GetQueryMatches'):
                muts = FuncEffects(s_).persistent_mutations()
                chk.ob('R08.8', not muts, MQ, s_,
                       key='pure:%s.%s' % (c.name, s_.name),
                       what='%s.%s stores nothing (no cache across '
                            'molecules)' % (c.name, s_.name),
                       found='; '.join(describe(m) for m in muts))
    query_atoms(chk, repo, 'R08.7')
    # the match pipeline reads every constraint container the constructor
    # creates (def-use completeness)
    init = repo.func(MQ, 'MolQuery.__init__')
    gqm = repo.func(MQ, 'MolQuery.GetQueryMatches')
    created = set(n.attr for n in ast.walk(init)
                  if isinstance(n, ast.Attribute) and isinstance(
                      n.ctx, ast.Store) and n.attr.endswith('constraints'))
    read = set(n.attr for n in ast.walk(gqm) if isinstance(n, ast.Attribute)
               and isinstance(n.ctx, ast.Load))
    chk.ob('R08.4', created and created <= read, MQ, gqm,
           key='all-containers-evaluated',
           what='every constraint container created by MolQuery.__init__ is '
                'read by GetQueryMatches',
           found='created %s, unread %s' % (sorted(created),
                                            sorted(created - read)))


def thorough(chk, repo):
    """Thorough tier: the shapes of every shipped pattern tree are among the
    analysed ones."""
    from .. import sweeps, grammar_ir as G
    from . import c09 as _c09
    strict, g = G.load(repo)
    I, esc = _c09.run_shapes(repo, g)
    sweeps.data_shapes_covered(chk, repo, g, I, 'R09.7')

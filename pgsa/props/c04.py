"""C04 -- a mixture's descriptors are the sum of its components'."""
import ast

from .. import schemerules as R, grammar_ir, reviewed
from ..match import loop_has_exit
from ..source import src, dotted
from ..datafiles import libraries

EXPLANATION = (
    'Data: D04.7 the remap tables of every shipped scheme are chain-free (with a chain, whether the second substitution happens depends on the order in which the groups of the components are met). '

    "Only the repository-side locality conditions are decided (that RDKit "
    "restricts a connected query to one component is trusted). R04.1: "
    "every loop of Scheme.py over atoms, neighbours, patterns, descriptors, "
    "rings, matches or remap entries visits its whole collection (no slice, "
    "no break/return). R04.2: counts accumulate additively: +1 per named "
    "atom, +len(distinct match sets) per descriptor, remaps add n*k "
    "(rules R02.3-5). R04.3: inside the per-atom loop of _AssignGroup the "
    "atom is touched only through GetProp/SetProp/GetNeighbors (names come "
    "from the atom and its direct neighbours). R04.4 (data, exhaustive): "
    "no shipped pattern carries a molecule-level prefix (its Prefix node "
    "is empty under the current grammar) and no SMILES/SMARTS descriptor "
    "is shipped. R04.5: in the MolQuery production every atom after the "
    "first enters through BondedAtom, which bonds it to an existing label, "
    "and the reader turns an unknown label into RINGReaderError. R04.6: "
    "the matcher (candidate enumeration with its explicit match cap, the "
    "per-atom constraint evaluators) is unchanged in normal form from its "
    "reviewed references, and the library entry point hands the structure "
    "it is given, whole, to the scheme.")
NOT_DECIDED = ("that RDKit's substructure search maps a connected query "
               "into a single component, and that per-atom RDKit accessors "
               "(ring info, neighbours) are component-local -- the core of "
               "the property; this is why the claim is weak")
ASSUMPTIONS = ["RDKit GetSubstructMatches on a disconnected molecule "
               "returns the union of the per-component embeddings of a "
               "connected query", "the reviewed references in "
                                  "reviewed/functions.json"]

SCH = R.SCH


def run(chk, repo, tier):
    R.complete_loops(chk, repo, 'R04.1')
    R.assign_group(chk, repo, 'R04.2')
    R.remap_blocks(chk, repo, 'R04.2')
    R.dedup_keys(chk, repo, 'R04.2')
    # ---- R04.3 ----------------------------------------------------------
    f = repo.func(SCH, 'GroupAdditivityScheme._AssignGroup')
    loops = [n for n in f.body if isinstance(n, ast.For)]
    al = loops[0]
    names = {src(al.target)}
    for n in ast.walk(al):
        if isinstance(n, ast.For) and n is not al:
            names.add(src(n.target))
    allowed = {'GetProp', 'SetProp', 'GetNeighbors'}
    bad = []
    for n in ast.walk(al):
        if isinstance(n, ast.Attribute) and isinstance(n.value, ast.Name) \
                and n.value.id in names and n.attr not in allowed:
            bad.append('%s.%s' % (n.value.id, n.attr))
    chk.ob('R04.3', not bad, SCH, al, key='atom-locality',
           what='group names are computed from the atom and its direct '
                'neighbours only (GetProp/SetProp/GetNeighbors)',
           found=', '.join(sorted(set(bad))))
    # no molecule-level query inside the per-atom loop
    molp = f.args.args[1].arg
    molcalls = [src(n)[:40] for st_ in al.body for n in ast.walk(st_)
                if isinstance(n, ast.Name) and n.id == molp]
    chk.ob('R04.3', not molcalls, SCH, al, key='no-molecule-level-access',
           what='the per-atom loop does not consult the whole molecule',
           found=', '.join(molcalls))
    # ---- R04.4 data -----------------------------------------------------
    strict, g = grammar_ir.load(repo)
    rec = grammar_ir.Recognizer(g)
    npat = 0
    for lib in libraries(repo.root):
        bad = []
        for sec, i, name, text in lib.patterns():
            npat += 1
            try:
                tree, j = rec.parse(text)
            except grammar_ir.Fail as exc:
                bad.append('%s[%d] %s: not in the language (%s)' % (
                    sec, i, name, exc))
                continue
            frag = tree[1]
            prefix = [c for c in frag[1:] if isinstance(c, list)
                      and c[0] == 'Prefix']
            if not prefix or len(prefix[0]) != 1:
                bad.append('%s[%d] %s: molecule-level prefix %s' % (
                    sec, i, name, prefix[0][1:] if prefix else '?'))
        for key in ('smiles_based_descriptors', 'smarts_based_descriptors'):
            if lib.scheme.get(key):
                bad.append('%s present (whole-molecule SMILES/SMARTS '
                           'descriptors)' % key)
        chk.ob('R04.4', not bad, lib.rel(lib.scheme_path), None,
               key='no-molecule-level-condition:' + lib.name,
               qualname='scheme', what='%s: no pattern depends on a '
                                       'whole-molecule condition' % lib.name,
               found='; '.join(bad[:5]))
    chk.need('R04.4', npat, 450, 'shipped pattern strings')
    chk.extra['patterns_audited'] = npat
    chk.exhaustive = True
    # ---- R04.5 grammar connectedness --------------------------------------
    mq = g.rules.get('MolQuery')
    ok = mq == ('all', [('ref', 'Atom'), ('opt', ('ref', 'AtomChain'))])
    chk.ob('R04.5', ok, grammar_ir.GRAMMAR, None, key='molquery-shape',
           qualname='enhanced_grammar',
           what='a fragment is one atom followed by a chain', found=str(mq))
    ba = g.rules.get('BondedAtom')
    seq = [c for c in (ba[1] if ba and ba[0] == 'all' else [])]
    has_bond_to = ('filler', 'bond to') in seq and seq.index(
        ('filler', 'bond to')) + 1 < len(seq) and seq[seq.index(
            ('filler', 'bond to')) + 1] == ('ref', 'AtomLabel')
    chk.ob('R04.5', has_bond_to, grammar_ir.GRAMMAR, None,
           key='bonded-atom-names-partner', qualname='enhanced_grammar',
           what='every further atom is declared with a bond to a label')
    ac = g.alternatives('AtomChain') if g.rules.get(
        'AtomChain', ('x',))[0] == 'either' else None
    chain = g.rules.get('AtomChain')
    alts = []
    if chain and chain[0] == 'all' and chain[1] and chain[1][0][0] == \
            'either':
        alts = [c[1] for c in chain[1][0][1] if c[0] == 'ref']
    chk.ob('R04.5', set(alts) == {'BondedAtom', 'RingBond',
                                  'StereoDoubleBond'},
           grammar_ir.GRAMMAR, None, key='chain-alternatives',
           qualname='enhanced_grammar',
           what='the only way to add an atom is BondedAtom (RingBond and '
                'StereoDoubleBond add none)', found=str(alts))
    rb = repo.func(R.MQR, 'MolQueryReader.ReadBondedAtom')
    idx = [n for n in ast.walk(rb) if isinstance(n, ast.Call)
           and isinstance(n.func, ast.Attribute) and n.func.attr == 'index'
           and 'atom_names' in src(n.func.value)]
    ok = len(idx) == 1
    if ok:
        t = idx[0]
        while t is not None and not isinstance(t, ast.Try):
            t = getattr(t, '_parent', None)
        ok = t is not None and any(
            isinstance(h.body[-1], ast.Raise) and 'RINGReaderError' in src(
                h.body[-1]) for h in t.handlers)
    chk.ob('R04.5', ok, R.MQR, rb, key='unknown-label-rejected',
           what='a bond to an undeclared label is a RINGReaderError (so '
                'every compiled fragment is connected)')
    addbond = [n for n in ast.walk(repo.func(
        R.MQR, 'MolQueryReader.ReadBondTypeBondedAtom'))
        if isinstance(n, ast.Call) and isinstance(n.func, ast.Attribute)
        and n.func.attr == 'AddBond']
    chk.ob('R04.5', len(addbond) >= 10, R.MQR, rb, key='bond-added',
           what='every supported bond kind adds the bond to the query '
                'molecule', found='%d AddBond calls' % len(addbond))
    # ---- R04.6 reviewed -----------------------------------------------------
    R.reviewed_matcher(chk, repo, 'R04.6')
    R.reviewed_scheme(chk, repo, 'R04.6', names=[
        '_aromatization_Benson', 'sanitize_except_aromatization',
        'GroupAdditivityScheme.GetDescriptors',
        'GroupAdditivityScheme._AssignCenterPattern',
        'GroupAdditivityScheme._AssignGroup',
        'GroupAdditivityScheme._AssignDescriptor'])
    # comparison numbers used by the patterns' constraints
    from . import c08 as _c08
    from .. import grammar_ir as _G, reviewed as _rv
    # the library entry point hands the whole structure (every fragment)
    # to the scheme
    _rv.check(chk, 'R04.6', repo, 'pgradd/GroupAdd/Library.py',
              'GroupLibrary.GetDescriptors',
              'GroupLibrary.GetDescriptors passes the structure it is given, '
              'whole, to the scheme (reviewed reference)')
    _c08.ops_table(chk, repo, _G.load(repo)[1], R2='R04.6', R3='R04.6')
    for q in ('ConstraintNumber.__init__', 'ConstraintNumber.__call__'):
        _rv.check(chk, 'R04.6', repo, 'pgradd/RDkitWrapper/MolQuery.py', q,
                  '%s is unchanged from its reviewed reference' % q)
    # ---- the scheme files themselves ------------------------------------
    from .. import dataaudit
    dataaudit.remaps_chain_free(chk, repo, 'D04.7')


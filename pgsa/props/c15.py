"""C15 -- results do not depend on what the library object did before."""
import ast

from .. import sym, schemerules as R, reviewed
from ..match import attr_stores, params
from ..effects import FuncEffects, describe, MUTATORS
from ..source import AnalysisError, dotted, src, enclosing_function

EXPLANATION = (
    "A whole-package effect inventory. R15.1 process-wide state: every "
    "module-level or class-level binding of a mutable object and every "
    "`global`; every function that writes one of them must be in the table "
    "of allowed writers (import-time registration, the write-once data-"
    "directory cache), and no class on the decomposition/estimation path "
    "carries class-level containers. R15.2 mutable defaults (enumerated "
    "from every signature): the default object is not mutated through the "
    "parameter, not stored on self and then mutated anywhere in the class, "
    "not returned. R15.3 cross-call channels: an instance attribute of the "
    "library/scheme/estimator written by a public method other than the "
    "constructor (or a declared mutator) is a hidden channel between API "
    "calls; the estimator keeps values, not a live reference to the "
    "library. R15.4 purity: every get_* of the correlation classes and of "
    "the estimator, Estimate, GetDescriptors, the matcher and the unit "
    "evaluator store nothing. R15.5 ownership: decomposition and matching "
    "edit only copies made in the call; Update stores copies; loads build "
    "fresh containers. R15.6: an attribute the class changes in place (+=, "
    "append, update, item store) is stored by the constructor as a "
    "container of its own, never as the caller's object.")
NOT_DECIDED = "state inside RDKit, numpy, scipy, pmutt and PyYAML"
ASSUMPTIONS = ["default argument objects are created once per function "
               "definition (CPython)",
               "the table of allowed writers in this checker, one reason "
               "each"]

LIB = 'pgradd/GroupAdd/Library.py'
SCH = 'pgradd/GroupAdd/Scheme.py'
GD = 'pgradd/ThermoChem/group_data.py'
DD = 'pgradd/GroupAdd/DataDir.py'

# (file, function qualname) -> reason
ALLOWED_GLOBAL_WRITERS = {
    ('pgradd/GroupAdd/DataDir.py', 'get_data_dir'):
        'write-once cache of the located data directory (checked by R15.1b)',
    ('pgradd/GroupAdd/Library.py',
     'GroupLibrary.register_property_set_type'):
        'import-time registration of a property-set type; refuses to '
        'overwrite',
    ('pgradd/Units/db.py', 'UnitsDB.add'):
        'import-time registration of unit definitions (Units/builtin.py)',
    ('pgradd/yaml_io/schema.py', 'SchemaRepository.register_type'):
        'import-time registration of YAML schema types',
    ('pgradd/yaml_io/schema.py', 'SchemaRepository.unregister_type'):
        'explicit de-registration API (never called by the package)',
    ('pgradd/yaml_io/schema.py', 'SchemaRepository.__init__'):
        'adds the object loader to the loader table when the repository is '
        'built (import time)',
    ('pgradd/RINGParser/Parser.py', 'Parser.set_name'):
        'names grammar rules once at import (Grammar.update_names)',
}

# instance attributes that public non-constructor methods may write
DECLARED_MUTATORS = {
    ('pgradd/GroupAdd/Library.py', 'GroupLibrary.Update'):
        'Update is the documented in-place merge',
    ('pgradd/ThermoChem/incomplete.py', 'ThermochemIncomplete.update'):
        'documented in-place merge',
    ('pgradd/ThermoChem/incomplete.py',
     'ThermochemIncomplete._setup_correlation'): 'rebuild of derived state',
    ('pgradd/ThermoChem/incomplete.py', 'ThermochemIncomplete.del_ND_Cp'):
        'documented deleter',
    ('pgradd/ThermoChem/incomplete.py',
     'ThermochemIncomplete.del_ND_H_ref'): 'documented deleter',
    ('pgradd/ThermoChem/incomplete.py',
     'ThermochemIncomplete.del_ND_S_ref'): 'documented deleter',
    ('pgradd/ThermoChem/base.py', 'ThermochemBase.set_range'):
        'documented setter',
    ('pgradd/ThermoChem/base.py', 'ThermochemBase.init_params'):
        'alternative initialiser',
}

STATE_CLASSES = [(LIB, 'GroupLibrary'), (SCH, 'GroupAdditivityScheme'),
                 (SCH, 'Scheme'), (GD, 'ThermochemGroupAdditive'),
                 (GD, 'ThermochemGroup'),
                 ('pgradd/ThermoChem/incomplete.py', 'ThermochemIncomplete'),
                 ('pgradd/ThermoChem/raw_data.py', 'ThermochemRawData'),
                 ('pgradd/ThermoChem/base.py', 'ThermochemBase'),
                 ('pgradd/GroupAdd/Group.py', 'Group'),
                 ('pgradd/GroupAdd/Group.py', 'Descriptor')]


def is_mutable_expr(v):
    if isinstance(v, (ast.Dict, ast.List, ast.Set, ast.ListComp,
                      ast.DictComp, ast.SetComp)):
        return True
    if isinstance(v, ast.Call) and dotted(v.func) in (
            'dict', 'list', 'set', 'defaultdict', 'OrderedDict',
            'collections.defaultdict'):
        return True
    return False


def qualname_of(fn):
    parts = [fn.name]
    p = getattr(fn, '_parent', None)
    while p is not None:
        if isinstance(p, (ast.ClassDef, ast.FunctionDef)):
            parts.append(p.name)
        p = getattr(p, '_parent', None)
    return '.'.join(reversed(parts))


_RAW = {}


def _raw_cls(repo, rel, cname):
    """The class as written (callers are looked for in the text as it is,
    not in the reviewed representatives of functions proved equivalent)."""
    from ..source import Repo
    raw = _RAW.get(repo.root)
    if raw is None:
        raw = _RAW[repo.root] = Repo(repo.root, canonical=False)
    return raw.cls(rel, cname)


def _only_called_by_mutators(rel, c, fn, _seen=None):
    from .. import reviewed
    if ('%s::%s.%s' % (rel, c.name, fn.name)) in reviewed.store():
        return False
    seen = _seen or set()
    if fn.name in seen:
        return True
    seen = seen | {fn.name}
    callers = []
    for other in c.body:
        if isinstance(other, ast.FunctionDef) and other.name != fn.name:
            for x in ast.walk(other):
                if isinstance(x, ast.Call) and dotted(x.func) == \
                        'self.' + fn.name:
                    callers.append(other)
                    break
    if not callers:
        return False
    for o in callers:
        q = '%s.%s' % (c.name, o.name)
        if o.name == '__init__' or (rel, q) in DECLARED_MUTATORS:
            continue
        if not _only_called_by_mutators(rel, c, o, seen):
            return False
    return True


def run(chk, repo, tier):
    # ---- R15.1 inventory ---------------------------------------------------
    shared = {}     # (rel, scope, name) -> node
    for m in repo.all_mods():
        for s in m.tree.body:
            if isinstance(s, ast.Assign) and is_mutable_expr(s.value):
                for t in s.targets:
                    if isinstance(t, ast.Name) and t.id != '__all__':
                        shared[(m.rel, '<module>', t.id)] = s
            if isinstance(s, ast.ClassDef):
                for cs in s.body:
                    if isinstance(cs, ast.Assign) and is_mutable_expr(
                            cs.value):
                        for t in cs.targets:
                            if isinstance(t, ast.Name):
                                shared[(m.rel, s.name, t.id)] = cs
    chk.extra['shared_mutable_bindings'] = sorted(
        '%s:%s.%s' % k for k in shared)
    chk.need('R15.1', len(shared), 4, 'module/class level mutable bindings')
    # classes on the decomposition/estimation path: no class-level containers
    # except the registry tables of GroupLibrary
    allowed_class_state = {
        (LIB, 'GroupLibrary', '_property_set_estimator_types'),
        (LIB, 'GroupLibrary', '_property_set_group_yaml_types'),
        ('pgradd/Units/db.py', 'UnitsDB', 'prefixes'),
        ('pgradd/Units/qty.py', 'FundamentalUnits', '_primitive_units'),
        ('pgradd/Units/qty.py', 'FundamentalUnits',
         '_primitive_units_index'),
    }
    for (rel, scope, name), node in sorted(shared.items()):
        if scope == '<module>':
            continue
        from ..match import readonly_literal_table
        cls_node = [c for c in repo.mod(rel).tree.body if isinstance(
            c, ast.ClassDef) and c.name == scope]
        const = bool(cls_node) and readonly_literal_table(
            repo.mod(rel).tree, cls_node[0], name, literal=False)
        chk.ob('R15.1', (rel, scope, name) in allowed_class_state or const,
               rel, node,
               key='class-state:%s.%s' % (scope, name), qualname=scope,
               what='class-level container %s.%s is one of the registry/'
                    'constant tables or a literal nothing writes to '
                    '(anything else is shared by all instances: a cache or '
                    'memo)' % (scope, name))
    # writers of shared state / globals
    nwriters = 0
    for rel, fn in repo.functions():
        fe = FuncEffects(fn)
        q = qualname_of(fn)
        for node, how, text, roots in fe.mutations():
            glob = [r for r in roots if r.startswith('global:')
                    or r in ('cls',) or r.startswith('elem:global:')
                    or r == 'elem:cls']
            # self.<class-level container> mutated through an instance
            cls_attr = False
            if 'self' in roots or 'elem:self' in roots:
                for (r2, scope, name) in shared:
                    if scope != '<module>' and (
                            ('self.' + name) in text or
                            ('self.__class__.' + name) in text):
                        cls_attr = True
            if not glob and not cls_attr:
                continue
            # writes to imported *modules'* attributes via a call such as
            # yaml Loader.add_constructor are module-level statements, not
            # functions; here only function bodies are scanned
            names = [r.split(':')[-1] for r in glob]
            # a local name that merely shadows nothing: builtins/modules
            if glob and all(n in ('np', 'numpy', 'Chem', 'os', 'sys', 'yaml',
                                  'warnings', 're', 'ast') for n in names):
                continue
            nwriters += 1
            ok = (rel, q) in ALLOWED_GLOBAL_WRITERS
            chk.ob('R15.1', ok, rel, node,
                   key='shared-writer:%s:%s' % (q, text[:40]), qualname=q,
                   what='%s writes process-wide state (%s); allowed writers '
                        'are the registration functions and the data-'
                        'directory cache' % (q, text[:40]),
                   found=describe((node, how, text, roots)))
    chk.need('R15.1', nwriters, 3, 'writers of process-wide state')
    # R15.1b the data-directory cache is write-once
    reviewed.check(chk, 'R15.1', repo, DD, 'get_data_dir',
                   'get_data_dir (environment override first, cache '
                   'assigned once after the directory test) is unchanged '
                   'from its reviewed reference')
    # ---- R15.2 mutable defaults -------------------------------------------
    ndef = 0
    for rel, fn in repo.functions():
        args = fn.args.args
        defaults = fn.args.defaults
        off = len(args) - len(defaults)
        for i, a in enumerate(args):
            if i < off or not is_mutable_expr(defaults[i - off]):
                continue
            ndef += 1
            p = a.arg
            q = qualname_of(fn)
            problems = []
            fe = FuncEffects(fn)
            for node, how, text, roots in fe.mutations():
                if 'param:' + p in roots or 'elem:param:' + p in roots:
                    problems.append('mutated through the parameter: %s@%d'
                                    % (text[:40], node.lineno))
            # stored on self as an alias?
            cls = getattr(fn, '_parent', None)
            for n in ast.walk(fn):
                if isinstance(n, ast.Assign) and isinstance(
                        n.value, ast.Name) and n.value.id == p:
                    # is p still the parameter here (not rebound to a copy)?
                    if 'param:' + p not in fe._name_roots(p, n.lineno,
                                                          set()):
                        continue
                    for t in n.targets:
                        if isinstance(t, ast.Attribute) and dotted(
                                t.value) == 'self' and isinstance(
                                cls, ast.ClassDef):
                            for node, kind in attr_stores(cls, t.attr):
                                if kind != 'store':
                                    problems.append(
                                        'stored as self.%s and %s@%d'
                                        % (t.attr, kind, node.lineno))
            for n in ast.walk(fn):
                if isinstance(n, ast.Return) and isinstance(
                        n.value, ast.Name) and n.value.id == p \
                        and 'param:' + p in fe._name_roots(p, n.lineno,
                                                           set()):
                    problems.append('returned@%d' % n.lineno)
            chk.ob('R15.2', not problems, rel, fn,
                   key='mutable-default:%s.%s' % (q, p), qualname=q,
                   what='the mutable default of %s(%s=...) is never mutated '
                        '(directly, through self, or after being returned)'
                        % (q, p), found='; '.join(sorted(set(problems))))
    chk.need('R15.2', ndef, 10, 'mutable default arguments')
    chk.extra['mutable_defaults'] = ndef
    # ---- R15.3 cross-call channels -------------------------------------------
    nattr = 0
    for rel, cname in STATE_CLASSES:
        c = repo.cls(rel, cname)
        for fn in c.body:
            if not isinstance(fn, ast.FunctionDef) or fn.name == '__init__':
                continue
            q = '%s.%s' % (cname, fn.name)
            if (rel, q) in DECLARED_MUTATORS:
                continue
            if _only_called_by_mutators(rel, _raw_cls(repo, rel, cname), fn):
                # a helper introduced after the review, called only from
                # the declared mutators / the constructor: part of them
                continue
            if any(isinstance(d, ast.Name) and d.id in ('classmethod',
                                                        'staticmethod')
                   for d in fn.decorator_list):
                continue
            for n in ast.walk(fn):
                if isinstance(n, ast.Attribute) and isinstance(
                        n.ctx, (ast.Store, ast.Del)) and dotted(
                        n.value) == 'self':
                    nattr += 1
                    chk.ob('R15.3', False, rel, n,
                           key='channel:%s:self.%s' % (q, n.attr),
                           qualname=q,
                           what='%s writes self.%s: state that outlives the '
                                'call and is read by later calls (a hidden '
                                'channel between API calls)' % (q, n.attr))
    # ---- R15.6 constructors keep their own containers --------------------
    # an attribute the class changes in place (+=, append, update, item
    # store) must not be the very object the caller passed in: two objects
    # built from the same arguments would share -- and grow -- one container
    from ..match import MUTATING_METHODS
    nown = 0
    for rel, cname in STATE_CLASSES:
        c = repo.cls(rel, cname)
        init = [f for f in c.body if isinstance(f, ast.FunctionDef)
                and f.name == '__init__']
        if not init:
            continue
        init = init[0]
        ps_ = set(params(init)[1:])
        mutated = set()
        for n in ast.walk(c):
            t = None
            if isinstance(n, ast.AugAssign):
                t = n.target
            elif isinstance(n, ast.Call) and isinstance(
                    n.func, ast.Attribute) and n.func.attr in \
                    MUTATING_METHODS:
                t = n.func.value
            elif isinstance(n, ast.Subscript) and isinstance(
                    n.ctx, (ast.Store, ast.Del)):
                t = n.value
            if isinstance(t, ast.Attribute) and dotted(t.value) == 'self':
                mutated.add(t.attr)
        for n in ast.walk(init):
            if not (isinstance(n, ast.Assign) and len(n.targets) == 1
                    and isinstance(n.targets[0], ast.Attribute)
                    and dotted(n.targets[0].value) == 'self'
                    and n.targets[0].attr in mutated):
                continue
            nown += 1
            cands = [n.value]
            if isinstance(n.value, ast.BoolOp):
                cands = list(n.value.values)
            elif isinstance(n.value, ast.IfExp):
                cands = [n.value.body, n.value.orelse]
            shared = [src(x) for x in cands
                      if isinstance(x, ast.Name) and x.id in ps_]
            chk.ob('R15.6', not shared, rel, n,
                   key='own-container:%s.%s' % (cname, n.targets[0].attr),
                   qualname='%s.__init__' % cname,
                   what='%s.%s is changed in place by the class, so the '
                        'constructor stores a container of its own, not the '
                        'caller\'s object' % (cname, n.targets[0].attr),
                   found='stores ' + ', '.join(shared))
    chk.need('R15.6', nown, 4, 'constructor-stored containers that the class '
                               'changes in place')
    # the estimator keeps values, not the library
    init = repo.func(GD, 'ThermochemGroupAdditive.__init__')
    libp = params(init)[1]
    keeps = [src(n) for n in ast.walk(init) if isinstance(n, ast.Assign)
             and isinstance(n.value, ast.Name) and n.value.id == libp
             and any(isinstance(t, ast.Attribute) for t in n.targets)]
    chk.ob('R15.3', not keeps, GD, init, key='estimator-keeps-no-library',
           what='the estimate stores values taken from the library at '
                'construction, not a live reference to the library',
           found='; '.join(keeps))
    est = repo.cls(GD, 'ThermochemGroupAdditive')
    set_in_init = set(n.attr for n in ast.walk(init)
                      if isinstance(n, ast.Attribute) and isinstance(
                          n.ctx, ast.Store) and dotted(n.value) == 'self')
    set_in_init |= {'range'}
    for fn in est.body:
        if isinstance(fn, ast.FunctionDef) and fn.name.startswith('get_'):
            reads = set(n.attr for n in ast.walk(fn)
                        if isinstance(n, ast.Attribute) and isinstance(
                            n.ctx, ast.Load) and dotted(n.value) == 'self')
            meths = set(f2.name for f2 in est.body
                        if isinstance(f2, ast.FunctionDef))
            base_meths = {'check_range', 'get_range', 'get_HoRT', 'get_SoR',
                          'get_CpoR', 'get_GoRT'}
            extra = reads - set_in_init - meths - base_meths
            chk.ob('R15.3', not extra, GD, fn,
                   key='estimator-reads-own-state:' + fn.name,
                   what='%s reads only what the constructor stored'
                        % fn.name, found=str(sorted(extra)))
    # ---- R15.4 purity ------------------------------------------------------------
    npure = 0
    pure = []
    for rel, cname in STATE_CLASSES:
        for fn in repo.cls(rel, cname).body:
            if isinstance(fn, ast.FunctionDef) and (
                    fn.name.startswith('get_') or fn.name in (
                        'check_range', 'has_ND_H', 'has_ND_S', 'has_ND_Cp',
                        'yaml_format', 'copy', '__getitem__',
                        '__contains__', '__iter__', '__len__', '__hash__',
                        '__eq__', 'Estimate', '_AssignGroup',
                        '_AssignDescriptor', '_AssignCenterPattern',
                        '_canonical_name', '_expand_ND_Cp_data')):
                pure.append((rel, '%s.%s' % (cname, fn.name), fn))
    pure.append((SCH, 'GroupAdditivityScheme.GetDescriptors',
                 repo.func(SCH, 'GroupAdditivityScheme.GetDescriptors')))
    pure.append((R.MQ, 'MolQuery.GetQueryMatches',
                 repo.func(R.MQ, 'MolQuery.GetQueryMatches')))
    pure.append(('pgradd/Units/parser.py', 'eval_expr',
                 repo.func('pgradd/Units/parser.py', 'eval_expr')))
    for rel, q, fn in pure:
        npure += 1
        muts = [m for m in FuncEffects(fn).persistent_mutations()
                if not all(r.startswith('param:') or r.startswith(
                    'elem:param:') for r in m[3])]
        # parameter molecules: handled by the ownership rule
        chk.ob('R15.4', not muts, rel, fn, key='pure:' + q, qualname=q,
               what='%s stores nothing on its object, class or module' % q,
               found='; '.join(describe(m) for m in muts))
    chk.need('R15.4', npure, 30, 'functions that must be pure')
    # ---- R15.5 ownership ------------------------------------------------------------
    R.ownership(chk, repo, 'R15.5')
    gq = repo.func(R.MQ, 'MolQuery.GetQueryMatches')
    first = gq.body[0]
    chk.ob('R15.5', isinstance(first, ast.Assign) and src(first) ==
           '%s = Chem.AddHs(%s)' % (params(gq)[1], params(gq)[1]), R.MQ, gq,
           key='matcher-copies-first',
           what='the matcher rebinds its molecule to an AddHs copy before '
                'anything else')
    upd = repo.func(LIB, 'GroupLibrary.Update')
    copies = [n for n in ast.walk(upd) if isinstance(n, ast.Assign)
              and any(isinstance(t, ast.Subscript)
                      and src(t.value) == 'property_sets'
                      for t in n.targets)]
    chk.ob('R15.5', len(copies) == 1 and src(copies[0].value).endswith(
        '.copy()'), LIB, upd, key='update-stores-copies',
        what='Update stores a copy of the other library\'s correlation, '
             'not the object itself')
    dl = repo.func(LIB, 'GroupLibrary._do_load')
    fresh = [n for n in ast.walk(dl) if isinstance(n, ast.Assign)
             and any(isinstance(t, ast.Name) and t.id in (
                 'lib_contents', 'uq_contents') for t in n.targets)]
    chk.ob('R15.5', fresh and all(isinstance(n.value, ast.Dict)
                                  and not n.value.keys for n in fresh),
           LIB, dl, key='load-fresh-containers',
           what='every load builds fresh dictionaries')
    sl = repo.func(SCH, 'GroupAdditivityScheme.Load')
    muts = [m for m in FuncEffects(sl).persistent_mutations()
            if any(r in ('cls',) or r.startswith('global:') for r in m[3])]
    chk.ob('R15.5', not muts, SCH, sl, key='scheme-load-no-cache',
           what='Scheme.Load stores nothing on the class or module (every '
                'load reads the file it is given)',
           found='; '.join(describe(m) for m in muts))
    si = repo.func(SCH, 'GroupAdditivityScheme.__init__')
    aliases = []
    for n in ast.walk(si):
        if isinstance(n, ast.Assign) and isinstance(n.value, ast.Name) \
                and n.value.id in params(si) and any(
                    isinstance(t, ast.Attribute) for t in n.targets):
            aliases.append(src(n))
    chk.ob('R15.5', not aliases, SCH, si, key='scheme-copies-arguments',
           what='the scheme constructor copies its list/dict arguments '
                '(it extends them when schemes are included)',
           found='; '.join(aliases))
    # reading a library never inserts into it: its container and accessors
    for q in ('GroupLibrary.__init__', 'GroupLibrary.__getitem__',
              'GroupLibrary.__contains__', 'GroupLibrary.__iter__',
              'GroupLibrary.GetDescriptors', 'GroupLibrary.Estimate'):
        if repo.has_func(LIB, q):
            reviewed.check(chk, 'R15.5', repo, LIB, q,
                           '%s is unchanged in normal form from its reviewed '
                           'reference (a plain dict built from the caller\'s '
                           'pairs; lookups through .get with a fresh default)'
                           % q)


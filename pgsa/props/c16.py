"""C16 -- a RING reaction rule applies exactly its declared edit per match."""
import ast
from fractions import Fraction

from .. import sym, refcmp, reviewed, grammar_ir
from ..match import SELF, params, is_call
from ..effects import FuncEffects, describe
from ..source import AnalysisError, dotted, src
from ..sym import show, Poly
from . import c09

EXPLANATION = (
    "R16.1: RINGToken defines __eq__/__hash__, so the readers' token/name "
    "comparisons work. R16.2: the alternatives of ConnectivityChange in the "
    "enhanced grammar are exactly the branches of ReadConnectivityChange, "
    "each dispatching to a reader that constructs an existing "
    "transformation class. R16.3: electron-balance increments, taken in "
    "polynomial normal form from each reader, are antisymmetric between "
    "form/break, increase/decrease (bond order, radical, charge) and equal "
    "on both atoms of a bond edit; the bond-order tables of BondIncrease/"
    "BondDecrease are inverse of each other. R16.4: in every transformation "
    "__call__ each atom index given to a molecule accessor/mutator is "
    "mapped_index[self.<idx>]. R16.5: RunReactants edits a copy taken "
    "inside the per-match loop, appends one product set per match, and "
    "rebuilds its per-run state on every call. R16.6: in the rule reader "
    "the non-zero balance test raising RINGReaderError lies on every path "
    "to return. R16.7/8: reader methods interpreted on every shape of the "
    "grammar (definite assignment, index ranges, asserts). R16.9: readers "
    "and transformations unchanged in normal form from their reviewed "
    "references.")
NOT_DECIDED = ("the chemistry of the products; RDKit's RWMol editing "
               "semantics; rules with more than two reactants (index "
               "offsetting is not cumulative there)")
ASSUMPTIONS = ["RDKit RWMol.__copy__ returns an independent molecule",
               "the reviewed references in reviewed/functions.json"]

RQR = 'pgradd/RINGParser/ReactionQueryRead.py'
RQ = 'pgradd/RDkitWrapper/ReactionQuery.py'
PARSER = 'pgradd/RINGParser/Parser.py'

ORDER = ['SINGLE', 'DOUBLE', 'TRIPLE', 'QUADRUPLE', 'QUINTUPLE']


def bond_table(repo, clsname):
    """bond kind name -> result name (or None / 'raise') of getbondtype."""
    f = repo.func(RQ, clsname + '.getbondtype')
    out = {}
    for p in sym.summarize(f):
        kinds = [a for a, v in p.facts().items() if v and a[0] == 'cmp'
                 and a[1] == '==']
        if len(kinds) != 1:
            continue
        consts = [x[1] for x in kinds[0][2] if x[0] == 'const']
        if len(consts) != 1:
            continue
        if p.outcome[0] == 'raise':
            out[consts[0]] = 'raise'
        elif p.outcome == ('return', ('const', None)):
            out[consts[0]] = None
        elif p.outcome[0] == 'return' and p.outcome[1][0] == 'attr':
            out[consts[0]] = p.outcome[1][2]
        else:
            out[consts[0]] = show(p.outcome[1])
    return f, out


def check_bond_tables(chk, repo, rule='R16.3'):
    fi, inc = bond_table(repo, 'BondIncrease')
    fd, dec = bond_table(repo, 'BondDecrease')
    want_inc = dict((ORDER[i], ORDER[i + 1]) for i in range(4))
    want_dec = dict((ORDER[i + 1], ORDER[i]) for i in range(4))
    want_dec['SINGLE'] = None
    got_inc = dict((k, v) for k, v in inc.items() if k in want_inc)
    got_dec = dict((k, v) for k, v in dec.items() if k in want_dec)
    chk.ob(rule, got_inc == want_inc, RQ, fi, key='bond-order-up',
           what='increase bond order: SINGLE->DOUBLE->TRIPLE->QUADRUPLE->'
                'QUINTUPLE', found=str(got_inc))
    chk.ob(rule, got_dec == want_dec, RQ, fd, key='bond-order-down',
           what='decrease bond order: the inverse table, SINGLE -> no bond',
           found=str(got_dec))
    for k in ('AROMATIC', 'DATIVE'):
        chk.ob(rule, inc.get(k) == 'raise' and dec.get(k) == 'raise', RQ, fi,
               key='bond-order-unsupported:' + k,
               what='%s bonds have no order to change: both tables raise'
                    % k, found='%s / %s' % (inc.get(k), dec.get(k)))


def check_run_reactants(chk, repo, rule='R16.5'):
    rr = repo.func(RQ, 'ReactionQuery.RunReactants')
    loops = [n for n in ast.walk(rr) if isinstance(n, ast.For)
             and 'combined_mol_match_index' in src(n.iter)]
    chk.ob(rule, len(loops) == 1, RQ, rr, key='per-match-loop',
           what='one loop over the combined match index',
           found='%d' % len(loops))
    if len(loops) == 1:
        lp = loops[0]
        first = lp.body[0] if lp.body else None
        ok = isinstance(first, ast.Assign) and isinstance(
            first.value, ast.Call) and src(first.value) in (
            'self.combined_mol.__copy__()', 'Chem.RWMol(self.combined_mol)',
            'copy.deepcopy(self.combined_mol)',
            'deepcopy(self.combined_mol)')
        chk.ob(rule, ok, RQ, first or lp, key='copy-per-match',
               what='each match is applied to its own copy of the combined '
                    'reactants', found=src(first)[:80] if first else '')
        local = first.targets[0].id if ok and isinstance(
            first.targets[0], ast.Name) else None
        tcalls = [c for c in ast.walk(lp) if isinstance(c, ast.Call)
                  and isinstance(c.func, ast.Name)
                  and c.func.id == 'transform']
        okt = bool(tcalls) and all(
            len(c.args) == 2 and isinstance(c.args[0], ast.Name)
            and c.args[0].id == local and src(c.args[1]) == src(lp.target)
            for c in tcalls)
        chk.ob(rule, okt, RQ, lp, key='transform-on-copy',
               what='every transformation is applied to that copy with this '
                    'match\'s indices')
        appends = [c for c in ast.walk(lp) if isinstance(c, ast.Call)
                   and isinstance(c.func, ast.Attribute)
                   and c.func.attr == 'append'
                   and src(c.func.value) == 'product_list']
        top = [s for s in lp.body if isinstance(s, ast.Expr)
               and s.value in appends]
        chk.ob(rule, len(appends) == 1 and len(top) == 1, RQ, lp,
               key='one-product-set-per-match',
               what='exactly one product set is appended per match, '
                    'unconditionally')
        from ..match import loop_has_exit
        chk.ob(rule, not loop_has_exit(lp, (ast.Break, ast.Return,
                                            ast.Continue)), RQ, lp,
               key='all-matches', what='no early exit from the match loop')
    # per-run state rebuilt in RunReactants before it is appended to
    for attr in ('match_indexes', 'combined_mol_match_index'):
        assigns = [n for n in ast.walk(rr) if isinstance(n, ast.Assign)
                   and any(src(t) == 'self.' + attr for t in n.targets)]
        uses = [n for n in ast.walk(rr) if isinstance(n, ast.Attribute)
                and n.attr == attr and isinstance(n.ctx, ast.Load)]
        ok = bool(assigns) and all(
            src(a.value) in ('list()', '[]') for a in assigns) and (
            not uses or min(a.lineno for a in assigns) < min(
                u.lineno for u in uses))
        chk.ob(rule, ok, RQ, rr, key='fresh-state:' + attr,
               what='self.%s is rebuilt from empty on every run before it '
                    'is used (matches of an earlier run cannot leak)' % attr)


def run(chk, repo, tier):
    strict, g = grammar_ir.load(repo)
    tok = repo.methods(PARSER, 'RINGToken')
    chk.ob('R16.1', '__eq__' in tok and '__hash__' in tok, PARSER,
           repo.cls(PARSER, 'RINGToken'), key='token-eq',
           qualname='RINGToken',
           what='RINGToken defines __eq__ and __hash__ (Python 3 ignores '
                '__cmp__), so `tree[k][0] == <rule name>` works')
    if '__eq__' in tok:
        from .. import ringrefs
        refcmp.check(chk, 'R16.1', PARSER, tok['__eq__'],
                     ringrefs.COMBINATORS['RINGToken.__eq__'],
                     key='RINGToken.__eq__',
                     what='token equality compares names (with a token or '
                          'a string)')
    # ---- R16.2 ----------------------------------------------------------
    rd = repo.methods(RQR, 'ReactionQueryReader')
    alts = g.alternatives('ConnectivityChange') or []
    rc = rd['ReadConnectivityChange']
    handled = {}
    node = rc.body[0] if rc.body else None
    for n in ast.walk(rc):
        if isinstance(n, ast.If) and isinstance(n.test, ast.Compare) \
                and isinstance(n.test.comparators[0], ast.Constant):
            name = n.test.comparators[0].value
            calls = [c for c in ast.walk(ast.Module(body=n.body,
                                                    type_ignores=[]))
                     if isinstance(c, ast.Call) and isinstance(
                         c.func, ast.Attribute) and dotted(
                         c.func.value) == 'self']
            handled[name] = calls[0].func.attr if calls else None
    chk.need('R16.2', len(alts), 11, 'alternatives of ConnectivityChange')
    chk.ob('R16.2', set(alts) == set(handled), RQR, rc,
           key='alternatives=branches',
           what='every kind of connectivity change the grammar accepts has '
                'a reader branch, and conversely',
           found='grammar only %s; reader only %s' % (
               sorted(set(alts) - set(handled)),
               sorted(set(handled) - set(alts))))
    tclasses = set(c.name for c in repo.mod(RQ).tree.body
                   if isinstance(c, ast.ClassDef))
    for name, meth in sorted(handled.items()):
        ok = meth == 'Read' + name and meth in rd
        built = []
        if ok:
            for c in ast.walk(rd[meth]):
                if isinstance(c, ast.Call) and isinstance(c.func, ast.Name) \
                        and c.func.id in tclasses:
                    built.append(c.func.id)
        expect = {'RadicalModify': 'AtomTypeModify'}.get(name, name)
        chk.ob('R16.2', ok and built == [expect], RQR, rd.get(meth, rc),
               key='branch:' + name,
               what='%s is read by Read%s, which appends one %s edit'
                    % (name, name, expect), found='%s builds %s' % (meth,
                                                                   built))
    # ---- R16.3 antisymmetry ------------------------------------------------
    def deltas(mname):
        """set of (index-role, delta poly key) over all success paths."""
        f = rd[mname]
        out = set()
        for p in sym.summarize(f):
            if p.outcome[0] == 'raise':
                continue
            d = {}
            for e in p.trace:
                if e[0] == 'aug' and e[1][0] == 'sub' and e[1][1] == (
                        'attr', SELF, 'electronbalance'):
                    val = sym.poly_of_key(e[3])
                    if e[2] == 'Sub':
                        val = -val
                    d[e[1][2]] = (d.get(e[1][2], Poly()) + val)
            out.add(tuple(sorted((show(k), v.key()) for k, v in d.items())))
        return f, out

    def single_delta(mname):
        f, ds = deltas(mname)
        vals = set(v for d in ds for _, v in d)
        return f, ds, vals
    pairs = [('ReadBondForm', 'ReadBondBreak'),
             ('ReadBondIncrease', 'ReadBondDecrease'),
             ('ReadRadicalIncrease', 'ReadRadicalDecrease'),
             ('ReadChargeIncrease', 'ReadChargeDecrease')]
    for a, b in pairs:
        fa, dsa, va = single_delta(a)
        fb, dsb, vb = single_delta(b)
        neg = set((-sym.poly_of_key(v)).key() for v in vb)
        # bond edits touch two atoms with the same delta
        natoms = set(len(d) for d in dsa | dsb)
        two = a.startswith('ReadBond')
        ok = va and va == neg and natoms == ({2} if two else {1})
        chk.ob('R16.3', ok, RQR, fa, key='antisymmetric:%s/%s' % (a, b),
               what='%s and %s change the electron balance by opposite '
                    'amounts, %s' % (a, b, 'the same on both atoms' if two
                                     else 'on the one atom'),
               found='%s: %s ; %s: %s' % (a, sorted(show(v) for v in va), b,
                                          sorted(show(v) for v in vb)))
    # sign convention: forming/increasing consumes electrons (negative)
    f, ds, v = single_delta('ReadBondIncrease')
    chk.ob('R16.3', v == {('num', Fraction(-1))}, RQR, f,
           key='sign:ReadBondIncrease',
           what='raising a bond order costs each atom one electron (-1)',
           found=str(sorted(show(x) for x in v)))
    f, ds, v = single_delta('ReadRadicalIncrease')
    chk.ob('R16.3', v == {('num', Fraction(-1))}, RQR, f,
           key='sign:ReadRadicalIncrease',
           what='a new radical electron is -1 (it is paid for by a bond '
                'break, +1)', found=str(sorted(show(x) for x in v)))
    check_bond_tables(chk, repo)
    # ---- R16.4 who-may-index -------------------------------------------------
    n_calls = 0
    for c in repo.mod(RQ).tree.body:
        if not isinstance(c, ast.ClassDef) or not any(
                src(b) == 'transformation' for b in c.bases):
            continue
        call = [s for s in c.body if isinstance(s, ast.FunctionDef)
                and s.name == '__call__']
        if not call:
            continue
        f = call[0]
        molp, mapp = params(f)[1], params(f)[2]
        bad = []
        for x in ast.walk(f):
            if isinstance(x, ast.Call) and isinstance(x.func, ast.Attribute)\
                    and isinstance(x.func.value, ast.Name) \
                    and x.func.value.id == molp and x.func.attr in (
                        'AddBond', 'RemoveBond', 'GetAtomWithIdx',
                        'GetBondBetweenAtoms', 'ReplaceAtom', 'RemoveAtom'):
                n_calls += 1
                nidx = {'AddBond': 2, 'RemoveBond': 2, 'GetAtomWithIdx': 1,
                        'GetBondBetweenAtoms': 2, 'ReplaceAtom': 1,
                        'RemoveAtom': 1}[x.func.attr]
                for a in x.args[:nidx]:
                    ok = isinstance(a, ast.Subscript) and isinstance(
                        a.value, ast.Name) and a.value.id == mapp \
                        and isinstance(a.slice, ast.Attribute) and dotted(
                            a.slice.value) == 'self' \
                        and a.slice.attr.startswith('idx')
                    if not ok:
                        bad.append('%s(%s)' % (x.func.attr, src(a)))
        chk.ob('R16.4', not bad, RQ, f, key='mapped-index:' + c.name,
               what='%s addresses only matched atoms: every index is '
                    'mapped_index[self.idx*]' % c.name,
               found=', '.join(bad))
    chk.need('R16.4', n_calls, 8, 'molecule accessor calls in edits')
    # ---- R16.5 ------------------------------------------------------------------
    check_run_reactants(chk, repo)
    _class_state(chk, repo)
    # ---- R16.6 ------------------------------------------------------------------
    rdr = rd['Read']
    paths = sym.summarize(rdr)
    ok = True
    found = ''
    nret = 0
    for p in paths:
        if p.outcome[0] != 'return':
            continue
        nret += 1
        tests = [e for e in p.trace if e[0] == 'loop'
                 and any(ev[0] == 'cond' and sym.mentions(
                     ev[1], lambda k: k == ('attr', SELF,
                                            'electronbalance'))
                     for tr, o in e[2] for ev in tr)]
        if not tests:
            ok = False
            found = 'a returning path without the balance loop'
            continue
        # the loop test is `balance[i] != 0`
        conds = set()
        for tr, o in tests[0][2]:
            for ev in tr:
                if ev[0] == 'cond':
                    conds.add(sym.atom_of(ev[1] if ev[1][0] != 'not'
                                          else ev[1][1])[0])
        wants = [('cmp', '==', tuple(sorted((
            ('sub', ('attr', SELF, 'electronbalance'), ix),
            ('num', Fraction(0))), key=repr)))
            for ix in (('bv', 0), ('bv', 0, 'idx'))]
        if len(conds) != 1 or not (conds & set(wants)):
            ok = False
            found = 'balance test is %s' % [show(c) for c in conds]
        # message empty before returning
        if not any(a[0] == 'truthy' and not v
                   for a, v in p.facts().items()):
            ok = False
            found = found or 'return not guarded by the empty-message test'
    chk.ob('R16.6', ok and nret >= 1, RQR, rdr, key='balance-check',
           what='every returning path of the rule reader has tested every '
                'labelled atom\'s balance for != 0 and found no mismatch',
           found=found)
    raises = [p for p in paths if p.outcome[0] == 'raise'
              and p.outcome[1] == 'RINGReaderError']
    chk.ob('R16.6', bool(raises), RQR, rdr, key='balance-raise',
           what='an unbalanced rule raises RINGReaderError')
    # ---- R16.10 exception arity ---------------------------------------------------
    c09.exception_arity(chk, repo, 'R16.10', [RQR, RQ])
    # ---- R16.7/8 ------------------------------------------------------------------
    c09.check_shapes(chk, repo, g, 'R16.8', only_class='ReactionQueryReader')
    # ---- R16.9 reviewed --------------------------------------------------------------
    for m in sorted(rd):
        reviewed.check(chk, 'R16.9', repo, RQR, 'ReactionQueryReader.' + m,
                       'ReactionQueryReader.%s is unchanged in normal form '
                       'from its reviewed reference' % m)
    for c in repo.mod(RQ).tree.body:
        if isinstance(c, ast.ClassDef):
            for s_ in c.body:
                if isinstance(s_, ast.FunctionDef) and s_.name in (
                        '__init__', '__call__', 'getbondtype',
                        'RunReactants', 'AppendReactantQuery',
                        'GetNumReactantTemplates'):
                    reviewed.check(
                        chk, 'R16.9', repo, RQ, '%s.%s' % (c.name, s_.name),
                        '%s.%s is unchanged in normal form from its '
                        'reviewed reference' % (c.name, s_.name))


def _class_state(chk, repo):
    from . import c17
    c17.class_state(chk, repo, 'R16.5')


def thorough(chk, repo):
    """Thorough tier: the shapes of every shipped pattern tree are among the
    analysed ones."""
    from .. import sweeps, grammar_ir as G
    from . import c09 as _c09
    strict, g = G.load(repo)
    I, esc = _c09.run_shapes(repo, g)
    sweeps.data_shapes_covered(chk, repo, g, I, 'R09.7')

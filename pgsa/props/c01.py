"""C01 -- Estimate is the exact count-weighted sum of group contributions."""
import ast

from .. import sym
from ..match import (SELF, is_attr, is_call, method_call, params, terms,
                     attr_stores, loop_has_exit, whole_iter, has_try)
from ..source import AnalysisError, src, dotted
from ..sym import show

EXPLANATION = (
    "Static rules over GroupAdd/Library.py, ThermoChem/group_data.py and "
    "ThermoChem/base.py. R01.1: each estimator method get_CpoR/get_HoRT/"
    "get_SoR is brought to polynomial normal form and must be exactly "
    "SUM over self.correlations of count * (that correlation's same-named "
    "method)(own T) [minus the elemental offset, zero unless requested]; "
    "R01.2: the estimator constructor appends exactly one (lib[g][pset], "
    "groups[g]) term per key of the caller's mapping, unconditionally, in a "
    "complete loop, and nothing else in the package writes .correlations; "
    "R01.3: in GroupLibrary.Estimate the missing-data raise dominates the "
    "estimator construction and lists exactly the keys lacking the property "
    "set; R01.4: library lookup is total; R01.5: G/RT = H/RT - S/R and is "
    "not overridden; R01.6: every library attribute the estimator "
    "constructor reads is initialised by GroupLibrary.__init__; R01.7: no "
    "estimator method can swallow a constituent's error. R01.8: Estimate and "
    "the estimator methods store nothing, and no evaluator of a correlation "
    "class changes an object it is given (the same temperature array goes to "
    "every term). R01.10: the constituents raise IncompleteDataError under "
    "the reviewed conditions.")
NOT_DECIDED = ("floating-point summation error; correctness of each "
               "constituent correlation (C05); pmutt/numpy internals")
ASSUMPTIONS = [
    "CPython 3.12 semantics of sum(), generator expressions and dict "
    "iteration",
    "the estimator class is the one registered by "
    "GroupLibrary.register_property_set_type in ThermoChem/group_data.py",
]

LIB = 'pgradd/GroupAdd/Library.py'
GD = 'pgradd/ThermoChem/group_data.py'
BASE = 'pgradd/ThermoChem/base.py'


def find_registration(repo):
    """(pset_name, yaml_type, estimator class name) from the register call."""
    for n in ast.walk(repo.mod(GD).tree):
        if isinstance(n, ast.Call) and isinstance(n.func, ast.Attribute) \
                and n.func.attr == 'register_property_set_type' \
                and len(n.args) == 3 and isinstance(n.args[0], ast.Constant) \
                and isinstance(n.args[2], ast.Name):
            return n.args[0].value, n.args[1], n.args[2].id
    raise AnalysisError('register_property_set_type(...) call not found in '
                        + GD)


def sum_term_shape(k):
    """k = ('sum', body, gens).  Returns (iter_key, count_bv, corr_bv,
    method, args, kwargs) when body == count_bv * corr_bv.method(args)."""
    if not (isinstance(k, tuple) and k[0] == 'sum'):
        return None
    body, gens = k[1], k[2]
    if len(gens) != 1 or gens[0][2]:
        return None
    base, it, _ = gens[0]
    ts = terms(body)
    if len(ts) != 1:
        return None
    c, mono = ts[0]
    if c != 1 or len(mono) != 2 or set(mono.values()) != {1}:
        return None
    a, b = list(mono)
    for cnt, call in ((a, b), (b, a)):
        mc = method_call(call)
        if mc and cnt[0] == 'bv' and mc[0][0] == 'bv' and cnt != mc[0] \
                and cnt[:2] == base[:2] and mc[0][:2] == base[:2]:
            return it, cnt, mc[0], mc[1], mc[2], mc[3]
    return None


def linear_forms(chk, repo, rule='R01.1', rule_try='R01.7',
                 only=('get_CpoR', 'get_HoRT', 'get_SoR')):
    pset, _, est = find_registration(repo)
    methods = repo.methods(GD, est)
    positions = set()

    # ---- R01.1 linear form -------------------------------------------
    n_inst = 0
    for mname in only:
        if mname not in methods:
            raise AnalysisError('estimator %s lacks %s' % (est, mname))
        f = methods[mname]
        ps = params(f)
        tparam = ps[1] if len(ps) > 1 else None
        paths = sym.summarize(f)
        n_inst += 1
        chk.ob(rule_try, not has_try(f), GD, f, key='no-handler:' + mname,
               what='%s has no try/except (a handler could return a partial '
                    'sum or hide IncompleteDataError)' % mname)
        for p in paths:
            ok = False
            found = p.describe()
            required = ('return SUM{count*corr.%s(%s) | (corr,count) in '
                        'self.correlations}' % (mname, tparam))
            if p.outcome[0] == 'return':
                ts = terms(p.outcome[1])
                sums = [(c, m) for c, m in ts
                        if len(m) == 1 and list(m)[0][0] == 'sum'
                        and list(m.values()) == [1]]
                rest = [(c, m) for c, m in ts if (c, m) not in sums]
                if len(sums) == 1 and sums[0][0] == 1:
                    sh = sum_term_shape(list(sums[0][1])[0])
                    if sh:
                        it, cnt, corr, meth, args, kw = sh
                        ok = (it == ('attr', SELF, 'correlations')
                              and meth == mname
                              and args == (('name', tparam),) and not kw)
                        positions.add((corr[2:], cnt[2:]))
                # remainder
                if ok and mname != 'get_SoR':
                    ok = not rest
                elif ok:
                    required += (' - (0 when S_elements is falsy, else '
                                 'self.get_Selements())')
                    selem = ps[2] if len(ps) > 2 else None
                    falsy = p.says(('truthy', ('name', selem)), False)
                    truthy = p.says(('truthy', ('name', selem)), True)
                    if not rest:
                        ok = falsy
                    else:
                        ok = (truthy and len(rest) == 1 and rest[0][0] == -1
                              and list(rest[0][1].items()) == [
                                  (('call', ('attr', SELF, 'get_Selements'),
                                    (), ()), 1)])
            chk.ob(rule, ok, GD, f, key='linear-form:%s:%s' % (
                mname, ';'.join(('' if pol else '!') + show(k)
                                for k, pol in p.conds())),
                   what='%s is the count-weighted sum of the constituents\' '
                        'own %s at the same T' % (mname, mname),
                   found=found, required=required)
    chk.need(rule, n_inst, len(only), 'estimator methods')
    if len(positions) > 1:
        chk.ob(rule, False, GD, methods[only[0]],
               key='tuple-order-agreement',
               what='the three methods destructure self.correlations '
                    'elements differently', found=str(sorted(positions)))
    pos = sorted(positions)[0] if positions else ((0,), (1,))
    return pset, est, methods, pos


def run(chk, repo, tier):
    pset, est, methods, pos = linear_forms(chk, repo)

    # ---- R01.2 term list -----------------------------------------------
    init = methods.get('__init__')
    if init is None:
        raise AnalysisError('estimator %s has no __init__' % est)
    ips = params(init)
    libp, groupsp = ips[1], ips[2]
    loops = [n for n in ast.walk(init) if isinstance(n, ast.For)
             and any(isinstance(c, ast.Call) and isinstance(c.func,
                                                            ast.Attribute)
                     and c.func.attr == 'append'
                     and dotted(c.func.value) == 'self.correlations'
                     for c in ast.walk(n))]
    chk.ob('R01.2', len(loops) == 1, GD, init, key='one-term-loop',
           what='exactly one loop appends to self.correlations',
           found='%d loops' % len(loops))
    if len(loops) == 1:
        loop = loops[0]
        whole = whole_iter(loop.iter)
        items_form = (isinstance(loop.iter, ast.Call)
                      and isinstance(loop.iter.func, ast.Attribute)
                      and loop.iter.func.attr == 'items')
        chk.ob('R01.2', whole is not None and dotted(whole) == groupsp,
               GD, loop, key='iterates-whole-mapping',
               what='the term loop iterates the whole caller mapping %r'
                    % groupsp, found=src(loop.iter))
        exits = loop_has_exit(loop, (ast.Break, ast.Return, ast.Continue))
        # a `continue` after the append is harmless; before it, it filters
        appends = [c for c in ast.walk(loop) if isinstance(c, ast.Call)
                   and isinstance(c.func, ast.Attribute)
                   and c.func.attr == 'append'
                   and dotted(c.func.value) == 'self.correlations']
        chk.ob('R01.2', len(appends) == 1, GD, loop, key='one-append',
               what='one append per iteration', found='%d' % len(appends))
        ap = appends[0]
        bad_exits = [e for e in exits if e.lineno <= ap.lineno
                     or isinstance(e, (ast.Break, ast.Return))]
        chk.ob('R01.2', not bad_exits, GD, loop, key='no-early-exit',
               what='no break/return in the term loop and no continue before '
                    'the append',
               found=', '.join('%s@%d' % (type(e).__name__, e.lineno)
                               for e in bad_exits))
        # unconditional: the append statement is a direct child of the loop
        stmt = ap
        while not isinstance(getattr(stmt, '_parent', None), ast.For) \
                and stmt is not loop and hasattr(stmt, '_parent'):
            stmt = stmt._parent
            if isinstance(stmt, (ast.If, ast.Try, ast.While, ast.With)):
                break
        chk.ob('R01.2', getattr(stmt, '_parent', None) is loop
               and isinstance(stmt, ast.Expr), GD, ap,
               key='append-unconditional',
               what='the append is not under a condition/handler',
               found=type(stmt).__name__)
        # appended value, forward-substituted
        S = sym.Summarizer()
        st = sym.State()
        if items_form and isinstance(loop.target, ast.Tuple):
            S._bind_target(loop.target, ('bv', 0), st)
            gkey, cnt_expected = ('bv', 0, 0), ('bv', 0, 1)
        else:
            S._bind_target(loop.target, ('bv', 0), st)
            gkey = ('bv', 0)
            cnt_expected = ('sub', ('name', groupsp), gkey)
        ok = True
        found = ''
        try:
            for s in loop.body:
                if any(x is ap for x in ast.walk(s)):
                    break
                S.stmt(s, st)
            arg = S.k(ap.args[0], st) if len(ap.args) == 1 else None
            found = show(arg) if arg else 'no single argument'
            corr_expected = ('sub', ('sub', ('name', libp), gkey),
                             ('const', pset))
            ok = (arg is not None and arg[0] == 'tuple' and len(arg[1]) == 2)
            if ok:
                ci, ni = pos[0][0], pos[1][0]
                ok = arg[1][ci] == corr_expected and arg[1][ni] == cnt_expected
        except sym.Unmodelled as exc:
            ok = False
            found = 'unmodelled: %s' % exc
        chk.ob('R01.2', ok, GD, ap, key='term=(lib[g][pset],groups[g])',
               what='the appended term pairs the group\'s own correlation '
                    'with the caller\'s count for that group',
               found=found,
               required='(%s[g][%r], %s[g]) in the positions the methods '
                        'destructure' % (libp, pset, groupsp))
        # initialised empty before the loop
        inits = [n for n in ast.walk(init) if isinstance(n, ast.Assign)
                 and any(dotted(t) == 'self.correlations'
                         for t in n.targets)]
        chk.ob('R01.2', len(inits) == 1 and isinstance(
            inits[0].value, (ast.List, ast.Call))
            and (not isinstance(inits[0].value, ast.List)
                 or not inits[0].value.elts)
            and (not isinstance(inits[0].value, ast.Call)
                 or (dotted(inits[0].value.func) == 'list'
                     and not inits[0].value.args))
            and inits[0].lineno < loop.lineno, GD, init,
            key='starts-empty', what='self.correlations starts as an empty '
                                     'list before the loop',
            found='; '.join(src(i) for i in inits))
    # who may write .correlations
    writers = []
    for m in repo.all_mods():
        for node, kind in attr_stores(m.tree, 'correlations'):
            f = node
            while f is not None and not isinstance(f, ast.FunctionDef):
                f = getattr(f, '_parent', None)
            if not (m.rel == GD and f is init):
                writers.append('%s:%d %s' % (m.rel, node.lineno, kind))
    chk.ob('R01.2', not writers, GD, init, key='sole-writer',
           what='only the estimator constructor writes .correlations',
           found=', '.join(writers))

    # ---- R01.3 guard dominance in Estimate ------------------------------
    estf = repo.func(LIB, 'GroupLibrary.Estimate')
    eps = params(estf)
    gp, pp = eps[1], eps[2]
    paths = sym.summarize(estf)
    lookups = [('sub', SELF, ('bv', 0)),
               ('call', ('attr', ('attr', SELF, 'contents'), 'get'),
                (('bv', 0), ('dict', ())), ()),
               ('call', ('attr', SELF, 'get'), (('bv', 0), ('dict', ())), ()),
               ('call', ('attr', SELF, '__getitem__'), (('bv', 0),), ())]

    def is_missing_list(k):
        if not (isinstance(k, tuple) and k[0] == 'comp'
                and k[1] in ('list', 'set', 'gen')):
            return False
        elt, gens = k[2], k[3]
        if len(gens) != 1 or elt != ('bv', 0):
            return False
        base, it, conds = gens[0]
        if it != ('name', gp) or len(conds) != 1:
            return False
        c = conds[0]
        return any(c == ('not', ('cmp', 'in', ('name', pp), lk))
                   for lk in lookups)

    n_constructs = 0
    for p in paths:
        if p.outcome[0] != 'return':
            continue
        k = p.outcome[1]
        if not is_call(k):
            chk.ob('R01.3', False, LIB, estf,
                   key='returns-fresh-estimator',
                   what='every successful path returns a newly constructed '
                        'estimator for exactly this mapping (no cached or '
                        'stored object)', found=p.describe())
            continue
        n_constructs += 1
        guard = [c for c, v in p.facts().items()
                 if c[0] == 'truthy' and is_missing_list(c[1]) and not v]
        chk.ob('R01.3', bool(guard), LIB, estf, key='guard-dominates',
               what='estimator construction only on the path where the '
                    'missing-groups list is empty',
               found=p.describe(),
               required='[not bool([g for g in %s if %s not in self[g]])] '
                        'before the constructor call' % (gp, pp))
        fk = k[1]
        chk.ob('R01.3', fk == ('sub', ('attr', SELF,
                                       '_property_set_estimator_types'),
                               ('name', pp))
               and k[2] == (SELF, ('name', gp)) and not k[3], LIB, estf,
               key='constructs-registered-estimator',
               what='the estimator registered under the requested name is '
                    'built from (self, the caller\'s mapping unchanged)',
               found=show(k))
    chk.need('R01.3', n_constructs, 1, 'estimator construction paths')
    raises = [p for p in paths if p.outcome[0] == 'raise'
              and p.outcome[1] == 'GroupMissingDataError']
    ok = bool(raises)
    found = 'no raise GroupMissingDataError'
    for p in raises:
        conds = [c for c, v in p.facts().items()
                 if c[0] == 'truthy' and is_missing_list(c[1]) and v]
        args = p.outcome[2]
        good = (bool(conds) and len(args) == 2 and is_missing_list(args[0])
                and args[1] == ('name', pp))
        if not good:
            ok = False
            found = p.describe() + ' args=' + ', '.join(show(a) for a in args)
    chk.ob('R01.3', ok, LIB, estf, key='raise-names-missing',
           what='GroupMissingDataError is raised exactly when some key lacks '
                'the property set and carries exactly those keys',
           found=found)

    # ---- R01.10 a constituent without the datum raises -----------------------
    # (the estimate's sum propagates whatever its constituents raise, R01.1;
    # the constituents are ThermochemIncomplete objects)
    from .. import reviewed as _rv
    for mname in ('get_CpoR', 'get_HoRT', 'get_SoR'):
        _rv.check(chk, 'R01.10', repo, 'pgradd/ThermoChem/incomplete.py',
                  'ThermochemIncomplete.' + mname,
                  'ThermochemIncomplete.%s raises IncompleteDataError under '
                  'the reviewed conditions (absent datum, no heat-capacity '
                  'data, temperature outside the table)' % mname,
                  mode='raises')
    # ---- R01.8 purity ---------------------------------------------------
    from ..effects import FuncEffects, describe
    pure = [(LIB, estf)] + [(GD, methods[m]) for m in
                            ('get_CpoR', 'get_HoRT', 'get_SoR')]
    for rel, f in pure:
        muts = FuncEffects(f).persistent_mutations()
        chk.ob('R01.8', not muts, rel, f, key='pure:' + f.name,
               what='%s stores nothing on the library/estimator, module or '
                    'class (no cache can stand between the mapping and the '
                    'sum)' % f.name,
               found='; '.join(describe(m) for m in muts))

    # the estimate hands the *same* T object to every constituent: no
    # evaluator of a constituent correlation may change its argument
    n_eval = 0
    for rel in ('pgradd/ThermoChem/raw_data.py',
                'pgradd/ThermoChem/incomplete.py',
                'pgradd/ThermoChem/base.py', GD):
        for c in repo.mod(rel).tree.body:
            if not isinstance(c, ast.ClassDef):
                continue
            for f in c.body:
                if isinstance(f, ast.FunctionDef) and (
                        f.name.startswith('get_')
                        or f.name.startswith('_get_')
                        or f.name == 'check_range'):
                    n_eval += 1
                    ps_ = set('param:' + a for a in params(f)[1:])
                    muts = [m for m in FuncEffects(f).persistent_mutations()
                            if m[3] & ps_]
                    chk.ob('R01.8', not muts, rel, f,
                           key='argument-unchanged:%s.%s' % (c.name, f.name),
                           what='%s.%s does not change the objects it is '
                                'given (the temperature array is shared by '
                                'all terms of the sum)' % (c.name, f.name),
                           found='; '.join(describe(m) for m in muts))
    chk.need('R01.8', n_eval, 20, 'evaluator methods of the correlations')

    # ---- R01.9 what the membership test relies on --------------------------
    from .. import reviewed
    reviewed.check(chk, 'R01.9', repo, 'pgradd/yaml_io/schema.py',
                   'ObjectLoader.__call__',
                   'the object loader leaves absent optional members out of '
                   'the loaded record (the missing-data test is '
                   '`pset not in lib[group]`)')
    reviewed.check(chk, 'R01.9', repo, 'pgradd/Error.py',
                   'GroupMissingDataError.__init__',
                   'GroupMissingDataError stores the groups and the '
                   'property-set name it is given, in that order')
    for q in ('GroupLibrary.__init__', 'GroupLibrary.__contains__'):
        reviewed.check(chk, 'R01.9', repo, LIB, q,
                       '%s (library contents and lookup) is unchanged in '
                       'normal form from its reviewed reference' % q)

    # ---- R01.4 total lookup ---------------------------------------------
    gi = repo.func(LIB, 'GroupLibrary.__getitem__')
    gps = sym.summarize(gi)
    kp = params(gi)[1]
    ok = (len(gps) == 1 and gps[0].outcome[0] == 'return'
          and gps[0].outcome[1] in (
              ('call', ('attr', ('attr', SELF, 'contents'), 'get'),
               (('name', kp), ('dict', ())), ()),
              ('call', ('attr', ('attr', SELF, 'contents'), 'get'),
               (('name', kp), ('call', ('name', 'dict'), (), ())), ())))
    chk.ob('R01.4', ok, LIB, gi, key='getitem-total',
           what='library lookup returns {} for unknown descriptors and '
                'never raises',
           found='; '.join(p.describe() for p in gps),
           required='return self.contents.get(%s, {})' % kp)

    # ---- R01.5 G = H - S --------------------------------------------------
    check_gort(chk, repo)

    # ---- R01.6 initialised-before-use ------------------------------------
    lib_init = repo.func(LIB, 'GroupLibrary.__init__')
    assigned = set()
    for n in ast.walk(lib_init):
        if isinstance(n, ast.Attribute) and isinstance(n.ctx, ast.Store) \
                and dotted(n.value) == 'self':
            assigned.add(n.attr)
    cls = repo.cls(LIB, 'GroupLibrary')
    class_names = set()
    for s in cls.body:
        if isinstance(s, ast.FunctionDef):
            class_names.add(s.name)
        elif isinstance(s, ast.Assign):
            for t in s.targets:
                if isinstance(t, ast.Name):
                    class_names.add(t.id)
    mapping_mixin = {'get', 'items', 'keys', 'values', '__contains__',
                     '__eq__', '__ne__'}
    reads = {}
    for n in ast.walk(init):
        if isinstance(n, ast.Attribute) and dotted(n.value) == libp \
                and isinstance(n.ctx, ast.Load):
            reads.setdefault(n.attr, n)
    chk.need('R01.6', len(reads), 1, 'library attributes read by the '
                                     'estimator constructor')
    for attr, node in sorted(reads.items()):
        chk.ob('R01.6', attr in assigned or attr in class_names
               or attr in mapping_mixin, GD, node,
               key='lib.%s-initialised' % attr,
               what='library attribute %r read by the estimator constructor '
                    'is set by GroupLibrary.__init__ (or is a class member)'
                    % attr,
               found='assigned in __init__: %s' % sorted(assigned))


def check_gort(chk, repo, rule='R01.5'):
    g = repo.func(BASE, 'ThermochemBase.get_GoRT')
    ps = params(g)
    paths = sym.summarize(g)
    T, se = ps[1], (ps[2] if len(ps) > 2 else None)
    h = ('call', ('attr', SELF, 'get_HoRT'), (('name', T),), ())
    s_kw = ('call', ('attr', SELF, 'get_SoR'), (('name', T),),
            (('S_elements', ('name', se)),))
    s_pos = ('call', ('attr', SELF, 'get_SoR'),
             (('name', T), ('name', se)), ())
    want = [(sym.Poly.atom(h) - sym.Poly.atom(s)).key() for s in (s_kw,
                                                                  s_pos)]
    ok = (len(paths) == 1 and paths[0].outcome[0] == 'return'
          and paths[0].outcome[1] in want)
    chk.ob(rule, ok, BASE, g, key='G=H-S',
           what='get_GoRT(T, S_elements) == get_HoRT(T) - get_SoR(T, '
                'S_elements=S_elements)',
           found='; '.join(p.describe() for p in paths), required=show(want[0]))
    over = []
    for rel, c in repo.classes():
        if c.name == 'ThermochemBase':
            continue
        for s in c.body:
            if isinstance(s, ast.FunctionDef) and s.name == 'get_GoRT':
                over.append('%s:%s' % (rel, c.name))
            if isinstance(s, ast.Assign) and any(
                    isinstance(t, ast.Name) and t.id == 'get_GoRT'
                    for t in s.targets):
                over.append('%s:%s' % (rel, c.name))
    chk.ob(rule, not over, BASE, g, key='no-override',
           what='no class overrides get_GoRT', found=', '.join(over))

"""C18 -- a correlation written to YAML reads back as the same correlation."""
import ast
import re

import yaml

from .. import sym, refcmp
from ..match import SELF, params, is_call
from ..source import AnalysisError, dotted
from ..sym import show, Poly
from . import c12, c13, c10

EXPLANATION = (
    "R18.1: yaml_format is compared in normal form with a reference: T_ref "
    "always; H/S/Cp only when present (presence = `is not None`, rule "
    "R18.3); dimensional key with `value unit` text when a unit is chosen, "
    "else the ND_ key with %r of a plain float; table rows in sorted "
    "temperature order as [T, value] pairs; range last; every key written "
    "is a key of the class's own _yaml_schema with the matching kind "
    "(quantity text for qty members, bare number for float members). "
    "R18.2: writer o reader is the identity in the checker's algebra: "
    "(R*T_ref*x)/(R*T_ref) = x, (R*x)/R = x for H, S, Cp, taking both "
    "expressions from the code. R18.3: the reader (yaml_construct) and the "
    "writer agree on absence (None), not truthiness. R18.4: every %r "
    "operand is wrapped in float() (numpy scalars print as np.float64(..) "
    "under numpy 2, which the float loader rejects). R18.5: the number "
    "format used for dimensional values (%g) stays inside the unit "
    "tokenizer's number syntax, exponents included. R18.6: tagged loading "
    "registers the group class under its own schema.")
NOT_DECIDED = ("six-significant-digit rounding effects; YAML scalar "
               "resolution of unusual floats (nan, inf)")
ASSUMPTIONS = ["repr(float) round-trips through float()",
               "the unit evaluator decided in C10"]

INC = 'pgradd/ThermoChem/incomplete.py'
QTY = 'pgradd/Units/qty.py'
GD = 'pgradd/ThermoChem/group_data.py'
PARSER = 'pgradd/Units/parser.py'

REF_FORMAT = """
def f(self, units={}):
    lines = []
    T_ref = with_units(self.T_ref, 'K')
    T_units = units.get('temperature', 'K')
    lines.append('T_ref: %s' % T_ref.fmt_in_units(T_units))
    if self.has_ND_H():
        H_units = units.get('molar enthalpy')
        if H_units:
            lines.append('H_ref: %s' % (R*T_ref*self.ND_H_ref)
                         .fmt_in_units(H_units))
        else:
            lines.append('ND_H_ref: %r' % float(self.ND_H_ref))
    if self.has_ND_S():
        S_units = units.get('molar entropy')
        if S_units:
            lines.append('S_ref: %s' % (R*self.ND_S_ref)
                         .fmt_in_units(S_units))
        else:
            lines.append('ND_S_ref: %r' % float(self.ND_S_ref))
    if self.has_ND_Cp():
        Cp_units = units.get('molar heat capacity')
        if Cp_units:
            lines.append('Cp_data:')
            for T in sorted(self.ND_Cp_data):
                lines.append('    - [%s, %s]' % (
                    with_units(T, 'K').fmt_in_units(T_units),
                    (R*self.ND_Cp_data[T]).fmt_in_units(Cp_units)))
        else:
            lines.append('ND_Cp_data:')
            for T in sorted(self.ND_Cp_data):
                lines.append('    - [%s, %r]' % (
                    with_units(T, 'K').fmt_in_units(T_units),
                    float(self.ND_Cp_data[T])))
    range = self.get_range()
    if range is not None:
        lines.append('range: [%s, %s]' % (
            with_units(range[0], 'K').fmt_in_units(T_units),
            with_units(range[1], 'K').fmt_in_units(T_units)))
    return '\\n'.join(lines)
"""


def run(chk, repo, tier):
    yf = repo.func(INC, 'ThermochemIncomplete.yaml_format')
    refcmp.check(chk, 'R18.1', INC, yf, REF_FORMAT,
                 key='ThermochemIncomplete.yaml_format',
                 what='the writer emits T_ref, the present data in the '
                      'chosen form, sorted table rows and the range, each '
                      'converted to the unit it is labelled with')
    # keys written vs schema
    schema, snode = c12.schema_of(repo)
    written = {}
    for n in ast.walk(yf):
        if isinstance(n, ast.Constant) and isinstance(n.value, str):
            m = re.match(r'^([A-Za-z_]+):', n.value)
            if m:
                written[m.group(1)] = n.value
    chk.need('R18.1', len(written), 8, 'keys written by yaml_format')
    for key, text in sorted(written.items()):
        ent = schema.get(key)
        ok = ent is not None
        what = 'key %s written by the formatter is a schema member' % key
        if ok:
            typ = ent.get('type')
            if typ == 'qty':
                ok = '%s' in text and '%r' not in text
                what += ' of quantity kind, written as `value unit` text'
            elif typ == 'float':
                ok = '%r' in text
                what += ' of float kind, written as a bare number'
        chk.ob('R18.1', ok, INC, yf, key='schema-key:' + key, what=what,
               found=text)
    # unit kind fetched for each dimensional key matches the schema kind
    fetched = {}
    for n in ast.walk(yf):
        if isinstance(n, ast.Assign) and isinstance(n.value, ast.Call) \
                and dotted(n.value.func) == 'units.get' and n.value.args \
                and isinstance(n.value.args[0], ast.Constant):
            fetched[n.targets[0].id] = n.value.args[0].value
    for var, kind, key in (('H_units', 'molar enthalpy', 'H_ref'),
                           ('S_units', 'molar entropy', 'S_ref'),
                           ('Cp_units', 'molar heat capacity', 'Cp_data'),
                           ('T_units', 'temperature', 'T_ref')):
        ent = schema.get(key) or {}
        skind = ent.get('kind')
        if key == 'Cp_data':
            its = ((ent.get('item_type') or {}).get('item_types') or [{}, {}])
            skind = its[1].get('kind')
        chk.ob('R18.1', kind in fetched.values() and skind == kind, INC, yf,
               key='unit-kind:' + key,
               what='%s is written in the unit chosen for %r, the kind the '
                    'schema reads it with' % (key, kind),
               found='fetched kinds %s; schema kind %s' % (
                   sorted(fetched.values()), skind))
    # ---- R18.2 inverse algebra ----------------------------------------------
    yc = repo.func(INC, 'ThermochemIncomplete.yaml_construct')
    pw = sym.summarize(yf)
    pr = sym.summarize(yc)
    Tq = sym.expr_key("with_units(self.T_ref, 'K')")
    Rk = ('name', 'R')

    def writer_arg(keyword):
        """receiver of .fmt_in_units(...) inside the line that starts with
        keyword"""
        out = set()
        for p in pw:
            for k in sym.path_keys(p):
                if k[0] == 'fmt' and k[1] == ('const', keyword + ': %s'):
                    arg = k[2]
                    if is_call(arg) and arg[1][0] == 'attr' \
                            and arg[1][2] == 'fmt_in_units':
                        out.add(arg[1][1])
        return out

    def reader_value(argpos, key):
        out = set()
        P = ('name', params(yc)[1])
        for p in pr:
            if p.outcome[0] == 'return' and is_call(p.outcome[1]):
                v = p.outcome[1][2][argpos]
                if sym.mentions(v, lambda k: k == ('sub', P,
                                                   ('const', key))):
                    out.add(v)
        return out, P

    for key, argpos, attr in (('H_ref', 0, 'ND_H_ref'),
                              ('S_ref', 1, 'ND_S_ref')):
        ws = writer_arg(key)
        rs, P = reader_value(argpos, key)
        ok = len(ws) == 1 and len(rs) == 1
        resid = None
        if ok:
            w = sym.poly_of_key(list(ws)[0])
            r = list(rs)[0]
            # substitute params[key] := writer value, params['T_ref'] := T_q
            from .c05 import _sub_atom
            r2 = _sub_atom(r, {('sub', P, ('const', key)): ('W',),
                               ('sub', P, ('const', 'T_ref')): Tq})
            rp = sym.poly_of_key(sym.rename(r2, {}))
            comp = Poly()
            for mono, c in rp.terms.items():
                term = Poly.const(c)
                for a, e in mono:
                    term = term * ((w if a == ('W',) else Poly.atom(a)) ** e)
                comp = comp + term
            resid = comp - Poly.atom(('attr', SELF, attr))
            ok = not resid.terms
        chk.ob('R18.2', ok, INC, yf, key='inverse:' + key,
               what='reading back the written %s gives the stored %s: '
                    'reader(writer(x)) - x == 0' % (key, attr),
               found='writer %s ; reader %s ; residual %s' % (
                   [show(x) for x in ws], [show(x) for x in rs],
                   show(resid) if resid is not None else '-'))
    # Cp rows: writer R*x, reader Cp/R
    wcp = None
    for n in ast.walk(yf):
        if isinstance(n, ast.Call) and isinstance(n.func, ast.Attribute) \
                and n.func.attr == 'fmt_in_units' and n.args \
                and dotted(n.args[0]) == 'Cp_units':
            wcp = n.func.value
    rcp = None
    for n in ast.walk(yc):
        if isinstance(n, ast.ListComp) and isinstance(n.elt, ast.BinOp) \
                and isinstance(n.elt.op, ast.Div):
            rcp = n
    ok = wcp is not None and rcp is not None
    if ok:
        ev = sym.Evaluator(record_calls=False)
        w = sym.to_poly(ev.ev(wcp, sym.State(env={'T': ('name', 'T')})))
        st = sym.State(env={rcp.generators[0].target.id: ('W',)})
        rr = sym.to_poly(ev.ev(rcp.elt, st))
        comp = Poly()
        for mono, c in rr.terms.items():
            term = Poly.const(c)
            for a, e in mono:
                term = term * ((w if a == ('W',) else Poly.atom(a)) ** e)
            comp = comp + term
        x = [a for a in w.atoms() if a != Rk]
        ok = len(x) == 1 and not (comp - Poly.atom(x[0])).terms
    chk.ob('R18.2', ok, INC, yf, key='inverse:Cp_data',
           what='reading back a written heat capacity gives the stored '
                'value: (R*x)/R == x')
    # ---- R18.3 --------------------------------------------------------------
    meths = repo.methods(INC, 'ThermochemIncomplete')
    for m in ('has_ND_H', 'has_ND_S', 'has_ND_Cp'):
        refcmp.check(chk, 'R18.3', INC, meths[m], c13.REFS_INC[m],
                     key='ThermochemIncomplete.' + m,
                     what='%s: presence is `is not None` (zero is a value)'
                          % m)
    refcmp.check(chk, 'R18.3', INC, yc, c12.REF_CONSTRUCT,
                 key='ThermochemIncomplete.yaml_construct',
                 what='the reader takes a non-dimensional value when it is '
                      'not None (zero included), and passes the five '
                      'fields to the constructor in order')
    # ---- R18.4 provenance ----------------------------------------------------
    n_r = 0
    for n in ast.walk(yf):
        if isinstance(n, ast.BinOp) and isinstance(n.op, ast.Mod) \
                and isinstance(n.left, ast.Constant) \
                and isinstance(n.left.value, str) and '%' in n.left.value:
            specs = re.findall(r'%[-#0 +]*\d*(?:\.\d+)?([a-zA-Z%])',
                               n.left.value)
            specs = [s for s in specs if s != '%']
            ops = n.right.elts if isinstance(n.right, ast.Tuple) \
                else [n.right]
            if len(specs) != len(ops):
                chk.ob('R18.4', False, INC, n, key='format-arity',
                       what='format arity matches', found=ast.unparse(n))
                continue
            for sp, op in zip(specs, ops):
                if sp == 'r':
                    n_r += 1
                    ok = isinstance(op, ast.Call) and dotted(
                        op.func) == 'float'
                    chk.ob('R18.4', ok, INC, op,
                           key='%%r-of-float:%s' % n.left.value.strip(),
                           what='the %%r operand in %r is a builtin float '
                                '(explicit float())' % n.left.value.strip(),
                           found=ast.unparse(op))
    chk.need('R18.4', n_r, 3, '%r operands in yaml_format')
    # ---- R18.5 number format within the tokenizer's syntax ---------------------
    fm = repo.func(QTY, 'Quantity.fmt_in_units')
    refcmp.check(chk, 'R18.5', QTY, fm,
                 "def f(self, units):\n"
                 "    return '%g %s' % (self.in_units(units), units)\n",
                 key='Quantity.fmt_in_units',
                 what='dimensional values are written with six significant '
                      'digits (%g) followed by the unit')
    tok = repo.class_assign(PARSER, 'UnitsParser', 'tokenize_re')
    pat = tok.args[0].value if isinstance(tok, ast.Call) and tok.args \
        and isinstance(tok.args[0], ast.Constant) else ''
    # %g emits d.ddddde[+-]dd outside 1e-4 <= |x| < 1e6: representative
    # spellings must be single tokens of the reader's tokenizer
    samples = ['1e-05', '1.5e+06', '-2.25e-07', '3e+10']
    bad = []
    try:
        rx = re.compile(pat)
        for s_ in samples:
            toks = [t for t in rx.findall(s_ + ' K') if not t.isspace()]
            if toks[:1] != [s_]:
                bad.append('%s -> %s' % (s_, toks))
    except re.error as exc:
        bad.append('pattern does not compile: %s' % exc)
    pn = repo.func(PARSER, 'UnitsParser.parse_number')
    # and the number builder must accept exponent spellings without a dot
    builds_float = False
    for n in ast.walk(pn):
        if isinstance(n, ast.If):
            t = ast.unparse(n.test)
            if "'e'" in t or '"e"' in t or 'float(' in ast.unparse(n) \
                    and "'.' in" not in t:
                builds_float = True
    chk.ob('R18.5', not bad, PARSER, repo.cls(PARSER, 'UnitsParser'),
           key='exponent-tokens', qualname='UnitsParser',
           what='numbers in exponent notation, which %g writes for '
                'magnitudes outside [1e-4, 1e6), are single tokens for the '
                'reader', found='; '.join(bad))
    # ---- R18.6 registration --------------------------------------------------
    ok = False
    for n in ast.walk(repo.mod(GD).tree):
        if isinstance(n, ast.Call) and dotted(n.func) == \
                'yaml_io.register_class' and len(n.args) == 3:
            a0, a1, a2 = n.args
            if isinstance(a0, ast.Constant) and a0.value == \
                    'ThermochemGroup' and dotted(a2) == 'ThermochemGroup' \
                    and ast.unparse(a1) == \
                    'yaml_io.parse(ThermochemGroup._yaml_schema)':
                ok = True
    chk.ob('R18.6', ok, GD, repo.mod(GD).tree.body[0],
           key='register-ThermochemGroup', qualname='<module>',
           what='the group correlation class is registered under its own '
                'tag with its own schema')
    reg = c10 and None
    pset = None
    for n in ast.walk(repo.mod(GD).tree):
        if isinstance(n, ast.Call) and isinstance(n.func, ast.Attribute) \
                and n.func.attr == 'register_property_set_type' \
                and len(n.args) == 3:
            pset = n.args
    chk.ob('R18.6', pset is not None and isinstance(pset[1], ast.Constant)
           and pset[1].value == 'ThermochemGroup', GD,
           repo.mod(GD).tree.body[0], key='pset-yaml-type',
           qualname='<module>',
           what='the property set is loaded with the ThermochemGroup tag')
    gcls = repo.cls(GD, 'ThermochemGroup')
    body = [s for s in gcls.body if not (isinstance(s, ast.Expr)
                                         and isinstance(s.value,
                                                        ast.Constant))]
    chk.ob('R18.6', not body and [ast.unparse(b) for b in gcls.bases] == [
        'ThermochemIncomplete'], GD, gcls, key='group-class-inherits',
        qualname='ThermochemGroup',
        what='ThermochemGroup adds nothing to ThermochemIncomplete (same '
             'writer, reader and schema)')
    from . import c12 as _c12
    _c12.yaml_machinery(chk, repo, 'R18.7')
    # what the writer can emit (%g: exponent forms) the reader recognises as
    # a number
    from .. import reviewed as _rv
    for q in ('UnitsParser.isnumber', 'UnitsParser.parse_number'):
        _rv.check(chk, 'R18.5', repo, 'pgradd/Units/parser.py', q,
                  '%s is unchanged in normal form from its reviewed reference '
                  '(numbers in exponent notation are numbers)' % q)


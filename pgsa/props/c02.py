"""C02 -- descriptors equal the scheme file's declared decomposition."""
from .. import schemerules as R, reviewed
from . import c19

EXPLANATION = (
    'Data (every shipped scheme.yaml): D02.7 remaps are chain-free (one pass is the whole substitution); D02.8 no two centre patterns and no two correction descriptors share a pattern text; D02.9 a named centre carries the same name as a neighbour. '

    "The bookkeeping around the matcher in GroupAdd/Scheme.py. R02.1: on "
    "both input forms GetDescriptors runs AddHs, Kekulize, the weak-bond "
    "rewrite, aromatic perception, centre assignment, group assignment and "
    "correction descriptors in that order and returns groups updated with "
    "descriptors. R02.2: an atom that already has a centre raises "
    "PatternMatchError (bare HasProp test), otherwise centre and peripheral "
    "names are set together from the same pattern; centres are the first "
    "atoms of that pattern's matches; afterwards every atom without a "
    "centre raises. R02.3: each atom whose centre is not 'none' adds 1 to "
    "Group(self, centre, peripherals of all direct neighbours except "
    "'none'). R02.4: both remap blocks remove the key and add n*k to every "
    "target, accumulating (polynomial normal form; the two blocks are "
    "siblings). R02.5: correction descriptors are counted len(distinct "
    "order-canonical atom sets). R02.6: canonical group naming (rules of "
    "C19) and the matcher/reader functions unchanged in normal form from "
    "their reviewed references. D02.7-10 (shipped schemes): remaps chain-"
    "free, patterns pairwise distinct, centre name = neighbour name, "
    "neighbour atoms of centre patterns carry the `?` suffix.")
NOT_DECIDED = ("what RDKit's substructure search and Kekule/aromatic "
               "perception return for a molecule; whether a pattern means "
               "what its author intended")
ASSUMPTIONS = ["RDKit atom properties set by SetProp persist on the "
               "molecule copy for the duration of the call",
               "the reviewed references in reviewed/functions.json"]


def run(chk, repo, tier):
    R.stage_order(chk, repo, 'R02.1')
    R.one_centre(chk, repo, 'R02.2')
    R.assign_group(chk, repo, 'R02.3')
    R.remap_blocks(chk, repo, 'R02.4')
    R.dedup_keys(chk, repo, 'R02.5')
    R.complete_loops(chk, repo, 'R02.1')
    R.reviewed_scheme(chk, repo, 'R02.6')
    R.reviewed_matcher(chk, repo, 'R02.6')
    import ast
    for s_ in repo.cls(R.MQR, 'MolQueryReader').body:
        if isinstance(s_, ast.FunctionDef):
            reviewed.check(chk, 'R02.6', repo, R.MQR,
                           'MolQueryReader.' + s_.name,
                           'MolQueryReader.%s (pattern compilation) is '
                           'unchanged from its reviewed reference' % s_.name)
    from .. import refcmp
    gm = repo.methods(c19.GRP, 'Group')
    refcmp.check(chk, 'R02.6', c19.GRP, gm['_canonical_name'], c19.REF_CANON,
                 key='Group._canonical_name',
                 what='group names are canonical (sorted peripherals with '
                      'multiplicities)')
    refcmp.check(chk, 'R02.6', c19.GRP, gm['__init__'], c19.REF_INIT,
                 key='Group.__init__', what='a group names itself by its '
                                            'canonical name')
    # comparison numbers used by the patterns' constraints
    from . import c08 as _c08
    from .. import grammar_ir as _G, reviewed as _rv
    _c08.ops_table(chk, repo, _G.load(repo)[1], R2='R02.6', R3='R02.6')
    for q in ('ConstraintNumber.__init__', 'ConstraintNumber.__call__'):
        _rv.check(chk, 'R02.6', repo, 'pgradd/RDkitWrapper/MolQuery.py', q,
                  '%s is unchanged from its reviewed reference' % q)
    R.message_concat_types(chk, repo, 'R02.2', [R.SCH, 'pgradd/Error.py'])
    # ---- the scheme files themselves ------------------------------------
    from .. import dataaudit
    dataaudit.remaps_chain_free(chk, repo, 'D02.7')
    dataaudit.patterns_distinct(chk, repo, 'D02.8')
    dataaudit.periph_convention(chk, repo, 'D02.9')
    dataaudit.neighbour_wildcards(chk, repo, 'D02.10')


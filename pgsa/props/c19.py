"""C19 -- group identity is the centre plus the multiset of peripherals."""
import ast

from .. import sym, refcmp
from ..match import SELF, params, is_call
from ..effects import FuncEffects, describe
from ..source import AnalysisError, dotted
from ..sym import show

EXPLANATION = (
    "R19.1: Descriptor hashes hash(self.name) and compares self.name (with "
    "another descriptor's name or with a plain string); Group and every "
    "other subclass define neither __eq__ nor __hash__. R19.2: Group stores "
    "csg/psgs and takes its name from _canonical_name() on every "
    "construction (no memo); _canonical_name counts the peripherals into a "
    "multiset and writes them in sorted order with run lengths. R19.3: the "
    "name parser splits on exactly the two delimiters the formatter writes, "
    "appends each peripheral once or repeat-count times (additively), and "
    "builds the group through the same constructor. R19.4: nothing outside "
    "the constructors stores .name/.csg/.psgs on another object, and the "
    "Group class keeps no class-level mutable state. R19.5: library keys "
    "are built by Group.parse / Descriptor from the file's names, with the "
    "duplicate test on the parsed key before insertion; lookups go through "
    "dict.get on the same dictionary.")
NOT_DECIDED = "behaviour on malformed names; str/hash of non-str names"
ASSUMPTIONS = ["Python dict lookup uses __hash__ then __eq__",
               "sorted() on str is a total deterministic order"]

GRP = 'pgradd/GroupAdd/Group.py'
LIB = 'pgradd/GroupAdd/Library.py'

REFS_DESC = {
    '__init__': "def f(self, scheme, name):\n    self.scheme = scheme\n"
                "    self.name = name\n",
    '__hash__': "def f(self):\n    return hash(self.name)\n",
    '__eq__': "def f(self, other):\n"
              "    if isinstance(other, type(self)):\n"
              "        return self.name == other.name\n"
              "    else:\n        return self.name == other\n",
    '__str__': "def f(self):\n    return self.name\n",
}

REF_INIT = """
def f(self, scheme, csg, psgs):
    self.csg = csg
    self.psgs = psgs
    canon_name = self._canonical_name()
    Descriptor.__init__(self, scheme, canon_name)
"""

REF_CANON = """
def f(self):
    canon_name = self.csg
    psg_counts = defaultdict(int)
    for psg in self.psgs:
        psg_counts[psg] += 1
    for name in sorted(psg_counts):
        if psg_counts[name] == 1:
            canon_name += '(' + name + ')'
        else:
            canon_name += '(' + name + ')' + '%d' % psg_counts[name]
    return canon_name
"""

REF_PARSE = """
def f(cls, scheme, text):
    def append_to_psgs(count, psg):
        for i in range(count):
            psgs.append(psg)
    parts = cls._parser_re.split(text)
    csg = parts[0]
    next_psg = None
    psgs = []
    for part in parts[1:]:
        if not part:
            continue
        if part.isdigit():
            if next_psg is None:
                raise GroupSyntaxError('x')
            append_to_psgs(int(part), next_psg)
            next_psg = None
        else:
            if next_psg is not None:
                append_to_psgs(1, next_psg)
                next_psg = None
            next_psg = part
    if next_psg is not None:
        append_to_psgs(1, next_psg)
    return cls(scheme, csg, psgs)
"""

REF_APPEND = """
def f(count, psg):
    for i in range(count):
        psgs.append(psg)
"""


def do_load_keys(chk, repo, rule):
    """Shared with C13: keys of the library dictionary in _do_load."""
    dl = repo.func(LIB, 'GroupLibrary._do_load')
    schemep = params(dl)[3]
    loops = [n for n in ast.walk(dl) if isinstance(n, ast.For)
             and any(isinstance(x, ast.Raise) for x in ast.walk(n))]
    chk.need(rule, len(loops), 2, 'key-building loops in _do_load')
    kinds = {}
    for lp in loops:
        S = sym.Summarizer()
        st = sym.State()
        S._bind_target(lp.target, ('bv', 0), st)
        outs = S.block(lp.body, st)
        paths = [sym.Path(s, o or ('fall',)) for s, o in outs]
        # which constructor?
        ctor = None
        for want, label in ((('call', ('attr', ('name', 'Group'), 'parse'),
                              (('name', schemep), ('bv', 0)), ()), 'group'),
                            (('call', ('name', 'Descriptor'),
                              (('name', schemep), ('bv', 0)), ()),
                             'descriptor')):
            if any(want in p.calls() for p in paths):
                ctor, kind = want, label
        ok = ctor is not None
        found = []
        if ok:
            kinds[kind] = True
            dup = ('cmp', 'in', ctor, ('name', 'lib_contents'))
            raised = [p for p in paths if p.outcome[0] == 'raise']
            falls = [p for p in paths if p.outcome[0] != 'raise']
            ok = (len(raised) == 1 and raised[0].outcome[1] == 'KeyError'
                  and raised[0].says(dup, True) and len(falls) == 1
                  and falls[0].says(dup, False))
            if ok:
                stores = [(e[1], e[2]) for e in falls[0].stores()]
                ok = (len(stores) == 1 and stores[0][0] ==
                      ('sub', ('name', 'lib_contents'), ctor))
                # the duplicate test precedes the insertion and nothing is
                # stored on the raising path
                ok = ok and not raised[0].stores()
                found = ['%s := %s' % (show(a), show(b)[:80])
                         for a, b in stores]
            else:
                found = [p.describe()[:200] for p in paths]
        chk.ob(rule, ok, LIB, lp, key='keys:%s' % (
            kind if ctor else src_of(lp.iter)),
            what='each %s name from the file is parsed to its key, a key '
                 'already present raises KeyError, otherwise the entry is '
                 'stored under the parsed key' % (kind if ctor else 'entry'),
            found=' || '.join(found))
    chk.ob(rule, set(kinds) == {'group', 'descriptor'}, LIB, dl,
           key='both-key-kinds', what='groups are keyed by Group.parse, '
                                      'other descriptors by Descriptor',
           found=str(sorted(kinds)))


def src_of(n):
    return ast.unparse(n)


def run(chk, repo, tier):
    dm = repo.methods(GRP, 'Descriptor')
    for m, ref in REFS_DESC.items():
        if m not in dm:
            chk.ob('R19.1', False, GRP, repo.cls(GRP, 'Descriptor'),
                   key='Descriptor.' + m, qualname='Descriptor',
                   what='Descriptor defines %s' % m)
            continue
        refcmp.check(chk, 'R19.1', GRP, dm[m], ref, key='Descriptor.' + m,
                     what='Descriptor.%s: identity is the name' % m)
    # subclasses: no __eq__/__hash__
    over = []
    for rel, c in repo.classes():
        bases = [ast.unparse(b) for b in c.bases]
        if c.name != 'Descriptor' and (
                'Descriptor' in bases or 'Group' in bases):
            for s in c.body:
                if isinstance(s, ast.FunctionDef) and s.name in (
                        '__eq__', '__hash__', '__ne__', '__str__'):
                    over.append('%s.%s' % (c.name, s.name))
                if isinstance(s, ast.Assign) and any(
                        isinstance(t, ast.Name) and t.id in (
                            '__eq__', '__hash__', '__ne__', '__str__')
                        for t in s.targets):
                    over.append('%s.%s (assigned)' % (c.name,
                                                      s.targets[0].id))
    chk.ob('R19.1', not over, GRP, repo.cls(GRP, 'Group'), key='no-override',
           qualname='Group',
           what='Group (and any other descriptor subclass) inherits hash and '
                'equality unchanged', found=', '.join(over))
    gm = repo.methods(GRP, 'Group')
    for need in ('__init__', '_canonical_name', 'parse'):
        if need not in gm:
            raise AnalysisError('Group.%s vanished' % need)
    refcmp.check(chk, 'R19.2', GRP, gm['__init__'], REF_INIT,
                 key='Group.__init__',
                 what='Group stores centre and peripherals and names itself '
                      'by _canonical_name() on every construction')
    # a live `__ne__` (or ordering method) on Descriptor or a subclass must
    # be the complement of `__eq__`, string operand included (a misspelt
    # `__neq__` is dead code: Python derives != from __eq__)
    for cname in ('Descriptor', 'Group'):
        for mname, f in repo.methods(GRP, cname).items():
            if mname == '__ne__':
                refcmp.check(chk, 'R19.1', GRP, f,
                             "def f(self, other):\n"
                             "    return not (self == other)\n",
                             key='%s.__ne__' % cname,
                             what='%s.__ne__ is `not (self == other)` (so a '
                                  'group and its canonical name as a plain '
                                  'string never compare both equal and '
                                  'unequal)' % cname)
            elif mname in ('__lt__', '__le__', '__gt__', '__ge__',
                           '__cmp__'):
                chk.ob('R19.1', False, GRP, f, key='%s.%s' % (cname, mname),
                       what='%s defines no ordering of its own' % cname)
    refcmp.check(chk, 'R19.2', GRP, gm['_canonical_name'], REF_CANON,
                 key='Group._canonical_name',
                 what='canonical name = centre + peripherals in sorted '
                      'order, each once with its multiplicity')
    refcmp.check(chk, 'R19.3', GRP, gm['parse'], REF_PARSE, key='Group.parse',
                 what='parse splits on the delimiters and appends each '
                      'peripheral once or repeat-count times')
    # (the nested append helper is followed by the summariser: it is part
    # of parse's own normal form; compared separately when it exists)
    nested = [n for n in gm['parse'].body if isinstance(n, ast.FunctionDef)]
    if len(nested) == 1 and nested[0].name == 'append_to_psgs':
        refcmp.check(chk, 'R19.3', GRP, nested[0], REF_APPEND,
                     key='Group.parse.append_to_psgs',
                     what='the helper appends the peripheral `count` times '
                          '(additive, so repeated runs accumulate)')
    rx = repo.class_assign(GRP, 'Group', '_parser_re')
    pat = None
    if isinstance(rx, ast.Call) and dotted(rx.func) == 're.compile' \
            and rx.args and isinstance(rx.args[0], ast.Constant):
        pat = rx.args[0].value
    ok = False
    if pat is not None:
        import re._parser as rp
        try:
            ok = repr(rp.parse(pat)) == repr(rp.parse('[()]'))
        except Exception:
            ok = False
    chk.ob('R19.3', ok, GRP, repo.cls(GRP, 'Group'), key='delimiters',
           qualname='Group',
           what='the split pattern matches exactly "(" and ")", the '
                'delimiters _canonical_name writes', found=repr(pat))
    # ---- R19.4 ------------------------------------------------------------
    bad = []
    for m in repo.all_mods():
        if not (m.rel.startswith('pgradd/GroupAdd/')
                or m.rel.startswith('pgradd/ThermoChem/')):
            continue
        for n in ast.walk(m.tree):
            if isinstance(n, ast.Attribute) and n.attr in ('csg', 'psgs') \
                    and isinstance(n.ctx, (ast.Store, ast.Del)):
                f = n
                while f is not None and not isinstance(f, ast.FunctionDef):
                    f = getattr(f, '_parent', None)
                if not (m.rel == GRP and f is gm['__init__']):
                    bad.append('%s:%d .%s' % (m.rel, n.lineno, n.attr))
            if isinstance(n, ast.Attribute) and n.attr == 'name' \
                    and isinstance(n.ctx, (ast.Store, ast.Del)) \
                    and dotted(n.value) not in ('self',) \
                    and m.rel.startswith('pgradd/GroupAdd/'):
                bad.append('%s:%d %s' % (m.rel, n.lineno, ast.unparse(n)))
            if isinstance(n, ast.Call) and isinstance(n.func, ast.Attribute)\
                    and n.func.attr in ('append', 'extend', 'sort', 'insert',
                                        'remove', 'pop', 'clear') \
                    and isinstance(n.func.value, ast.Attribute) \
                    and n.func.value.attr == 'psgs':
                bad.append('%s:%d mutates .psgs' % (m.rel, n.lineno))
    chk.ob('R19.4', not bad, GRP, gm['__init__'], key='identity-immutable',
           what='identity fields are written only by the constructors',
           found=', '.join(bad))
    state = []
    for cname in ('Descriptor', 'Group'):
        for s in repo.cls(GRP, cname).body:
            if isinstance(s, ast.Assign) and isinstance(
                    s.value, (ast.Dict, ast.List, ast.Set)):
                state.append('%s.%s' % (cname, ast.unparse(s.targets[0])))
            if isinstance(s, ast.Assign) and isinstance(s.value, ast.Call) \
                    and dotted(s.value.func) in ('dict', 'list', 'set',
                                                 'defaultdict'):
                state.append('%s.%s' % (cname, ast.unparse(s.targets[0])))
    chk.ob('R19.4', not state, GRP, repo.cls(GRP, 'Group'),
           key='no-class-state', qualname='Group',
           what='no class-level mutable container (a shared memo could '
                'alias two groups)', found=', '.join(state))
    for m in ('__init__', '_canonical_name', 'parse'):
        muts = [x for x in FuncEffects(gm[m]).persistent_mutations()
                if not (m == '__init__' and x[1] == 'store'
                        and x[3] == {'self'})]
        chk.ob('R19.4', not muts, GRP, gm[m], key='pure:Group.' + m,
               what='Group.%s writes nothing but the new object\'s own '
                    'fields' % m, found='; '.join(describe(x) for x in muts))
    # ---- R19.5 ------------------------------------------------------------
    do_load_keys(chk, repo, 'R19.5')
    gi = repo.func(LIB, 'GroupLibrary.__getitem__')
    refcmp.check(chk, 'R19.5', LIB, gi,
                 "def f(self, group):\n"
                 "    return self.contents.get(group, {})\n",
                 key='GroupLibrary.__getitem__',
                 what='lookups use dict.get on the contents dictionary')
    refcmp.check(chk, 'R19.5', LIB,
                 repo.func(LIB, 'GroupLibrary.__contains__'),
                 "def f(self, group):\n    return group in self.contents\n",
                 key='GroupLibrary.__contains__',
                 what='membership uses the contents dictionary')
    # ---- R19.6 malformed names raise the group syntax error ------------------------
    from . import c09
    c09.exception_arity(chk, repo, 'R19.6', [GRP, LIB], minimum=1)
    from .. import reviewed
    for q in ('GroupMissingDataError.__init__',):
        reviewed.check(chk, 'R19.6', repo, 'pgradd/Error.py', q,
                       '%s unchanged from its reviewed reference' % q)


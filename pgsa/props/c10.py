"""C10 -- unit expressions evaluate to the exact SI value and dimension."""
import ast
import re
from fractions import Fraction

from .. import sym, refcmp, dims, si_reference
from ..match import params, is_call
from ..effects import FuncEffects, describe
from ..source import AnalysisError, literal, dotted

EXPLANATION = (
    "R10.1: the four unit tables (base, derived, customary units, prefixes) "
    "are lifted from the AST and every definition string is evaluated, in "
    "definition order, by the checker's own exact-rational evaluator; "
    "magnitude and the seven exponents are compared with SI/NIST reference "
    "definitions. R10.2: define-before-use, no name twice. R10.3: the "
    "prefixed-name lookup subscripts exactly the keys it tested, in the "
    "order exact / one-letter / two-letter, and raises UnitsParseError "
    "otherwise. R10.4: all prefix x unit names are enumerated under that "
    "order against the reference (shadowed readings listed). R10.5/6: the "
    "tokenizer pattern and every parser method and the tree evaluator are "
    "compared in normal form with a reference stating the documented "
    "grammar (left fold for * / and juxtaposition, ^ tighter, parentheses "
    "re-enter the top, tags expr/factor/base/name/number mapped to "
    "Mult/Div/Pow/lookup). R10.7: conversion = division then residual-"
    "dimension test raising UnitsError; to_SI_from/from_SI_to are inverse; "
    "None passes through. R10.8: the only exceptions raised explicitly on "
    "the evaluation path are UnitsParseError; float()/int() sit under the "
    "isnumber idiom; evaluation keeps no state. R10.9: the constants in "
    "Consts.py evaluate to their CODATA values and dimensions.")
NOT_DECIDED = ("floating-point rounding of magnitudes and of there-and-back "
               "conversion; numpy behaviour for array quantities")
ASSUMPTIONS = ["the SI/NIST reference table in pgsa/si_reference.py",
               "Python re semantics for the tokenizer pattern"]

PARSER = 'pgradd/Units/parser.py'
DBF = 'pgradd/Units/db.py'
BUILTIN = 'pgradd/Units/builtin.py'
HELPERS = 'pgradd/Units/helpers.py'
QTY = 'pgradd/Units/qty.py'
CONSTS = 'pgradd/Consts.py'

REFS = {
    'isnumber': """
def f(self, what):
    try:
        float(what)
        return True
    except ValueError:
        return False
""",
    'peek': """
def f(self):
    if self.idx == len(self.tokens):
        return None
    return self.tokens[self.idx]
""",
    'take': """
def f(self):
    val = self.peek()
    if val is not None:
        self.idx += 1
    return val
""",
    'fork': "def f(self):\n    return self.idx\n",
    'join': "def f(self, old_idx):\n    self.idx = old_idx\n",
    'parse': """
def f(self):
    self.enter('[root]')
    result = None
    try:
        result = self.parse_expr()
        next = self.peek()
        if next is not None:
            result = None
            raise UnitsParseError('x')
    finally:
        self.leave(result)
    return result
""",
    'parse_expr': """
def f(self):
    self.enter('expr')
    result = None
    try:
        result = ('expr', self.parse_factor())
        next = self.peek()
        while True:
            if next is None:
                break
            elif next in '*/':
                self.take()
                result = ('expr', result, next, self.parse_factor())
                next = self.peek()
            else:
                old_state = self.fork()
                try:
                    result = ('expr', result, '*', self.parse_factor())
                    next = self.peek()
                except UnitsParseError:
                    self.join(old_state)
                    break
    finally:
        self.leave(result)
    return result
""",
    'parse_factor': """
def f(self):
    self.enter('factor')
    result = None
    try:
        left = self.parse_base()
        next = self.peek()
        if next == '^':
            self.take()
            result = ('factor', left, '^', self.parse_number())
        else:
            result = ('factor', left)
    finally:
        self.leave(result)
    return result
""",
    'parse_base': """
def f(self):
    self.enter('base')
    result = None
    try:
        next = self.peek()
        if next is None:
            result = None
            raise UnitsParseError('x')
        elif next == '(':
            self.take()
            expr = self.parse_expr()
            if self.take() != ')':
                raise UnitsParseError('x')
            result = ('base', expr)
        elif self.isnumber(next):
            result = ('base', self.parse_number())
        else:
            result = ('base', self.parse_name())
    finally:
        self.leave(result)
    return result
""",
    'parse_name': """
def f(self):
    self.enter('name')
    result = None
    try:
        next = self.take()
        if next is None:
            raise UnitsParseError('x')
        if not next.isalpha():
            raise UnitsParseError('x')
        result = ('name', next)
    finally:
        self.leave(result)
    return result
""",
    'parse_number': """
def f(self):
    self.enter('number')
    result = None
    try:
        next = self.take()
        if next == '(':
            next = self.take()
            closing = self.take()
            if closing != ')':
                raise UnitsParseError('x')
        if next is None:
            raise UnitsParseError('x')
        if self.isnumber(next):
            if '.' in next or 'e' in next or 'E' in next:
                result = ('number', float(next))
            else:
                result = ('number', int(next))
        else:
            raise UnitsParseError('x')
    finally:
        self.leave(result)
    return result
""",
}

EVAL_SUBTREE = """
def f(tree):
    if tree[0] == 'expr':
        if len(tree) > 2:
            if tree[2] == '*':
                return eval_subtree(tree[1])*eval_subtree(tree[3])
            elif tree[2] == '/':
                return eval_subtree(tree[1])/eval_subtree(tree[3])
        else:
            return eval_subtree(tree[1])
    elif tree[0] == 'factor':
        if len(tree) > 2:
            if tree[2] == '^':
                return eval_subtree(tree[1])**eval_subtree(tree[3])
        else:
            return eval_subtree(tree[1])
    elif tree[0] == 'base':
        return eval_subtree(tree[1])
    elif tree[0] == 'name':
        return units_db.lookup(tree[1])
    elif tree[0] == 'number':
        return tree[1]
    assert False
"""

LOOKUP = """
def f(self, name):
    if name in self.db:
        return self.db[name]
    if name[1:] in self.db and name[:1] in self.prefixes:
        return self.prefixes[name[:1]]*self.db[name[1:]]
    if name[2:] in self.db and name[:2] in self.prefixes:
        return self.prefixes[name[:2]]*self.db[name[2:]]
    raise UnitsParseError('x')
"""

HELPER_REFS = {
    'with_units': """
def f(number, units):
    if number is None:
        return None
    return number*eval_qty(units)
""",
    'in_units': """
def f(qty, units):
    if qty is None:
        return None
    return qty.in_units(units)
""",
    'has_units': "def f(qty, units):\n    return qty.has_units(units)\n",
    'to_SI_from': "def f(value, units):\n    return value*eval_qty(units)"
                  ".value\n",
    'from_SI_to': "def f(value, units):\n    return value/eval_qty(units)"
                  ".value\n",
}


def close(a, b, tol):
    a, b = Fraction(a), Fraction(b)
    if b == 0:
        return a == 0
    return abs(a - b) <= Fraction(tol) * abs(b)


def lift_tables(repo):
    base = literal(repo.module_assign(BUILTIN, 'base_SI_units'))
    derived = literal(repo.module_assign(BUILTIN, 'derived_SI_units'))
    other = literal(repo.module_assign(BUILTIN, 'other_units'))
    prefixes = literal(repo.class_assign(DBF, 'UnitsDB', 'prefixes'))
    return base, derived, other, prefixes


def unit_tables(chk, repo, R1='R10.1', R2='R10.2'):
    """Definitions and prefixes against the SI reference; returns the
    checker's database built from them."""
    base, derived, other, prefixes = lift_tables(repo)
    chk.need(R1, len(base), 7, 'base units')
    chk.need(R1, len(derived), 8, 'derived units')
    chk.need(R1, len(other), 20, 'customary units')
    chk.need(R1, len(prefixes), 20, 'prefixes')
    bnode = repo.mod(BUILTIN).tree
    # ---- prefixes ---------------------------------------------------------
    for name, exp in si_reference.PREFIXES.items():
        got = prefixes.get(name)
        chk.ob(R1, got is not None and close(
            Fraction(repr(float(got))), Fraction(10) ** exp, 1e-12), DBF,
            None, key='prefix:' + name, qualname='UnitsDB.prefixes',
            what='prefix %s = 1e%d' % (name, exp), found=repr(got))
    extra = sorted(set(prefixes) - set(si_reference.PREFIXES))
    chk.ob(R1, not extra, DBF, None, key='prefix:extra',
           qualname='UnitsDB.prefixes', what='no non-SI prefix',
           found=str(extra))
    # ---- definitions in order -----------------------------------------------
    db = dims.DB(dict((k, Fraction(repr(float(v))))
                      for k, v in prefixes.items()))
    seen = []

    def check_unit(name, q, where):
        ref = si_reference.UNITS.get(name)
        if ref is None:
            chk.ob(R1, False, BUILTIN, None, key='unit:' + name,
                   qualname=where, what='unit %r is not in the reference '
                                        'table (extend si_reference.py '
                                        'after confirming its definition)'
                                        % name)
            return
        mag, dim, tol = ref
        ok = q is not None and close(q.mag, mag, tol) and tuple(
            q.dim) == tuple(Fraction(d) for d in dim)
        chk.ob(R1, ok, BUILTIN, None, key='unit:' + name, qualname=where,
               what='%s evaluates to its SI definition' % name,
               found=repr(q),
               required='%s with dimension %s' % (float(mag), dim))

    for entry in base:
        if len(entry) != 3:
            raise AnalysisError('base_SI_units entry shape changed')
        name, mult, prim = entry
        chk.ob(R2, name not in seen, BUILTIN, None,
               key='dup:' + name, qualname='base_SI_units',
               what='%s defined once' % name)
        seen.append(name)
        q = None
        if prim in dims.DIMS:
            q = dims.Q.base(prim, Fraction(repr(float(mult))))
            db.units[name] = q
        check_unit(name, q, 'base_SI_units')
    for table, tname in ((derived, 'derived_SI_units'),
                         (other, 'other_units')):
        for entry in table:
            name, text = entry
            chk.ob(R2, name not in seen, BUILTIN, None,
                   key='dup:' + name, qualname=tname,
                   what='%s defined once' % name)
            seen.append(name)
            q = None
            try:
                q = db.eval(text)
            except dims.UnitSyntaxError as exc:
                chk.ob(R2, False, BUILTIN, None,
                       key='define-before-use:' + name, qualname=tname,
                       what='definition of %s uses only names defined '
                            'earlier' % name, found='%r: %s' % (text, exc))
            if q is not None:
                db.units[name] = q
            check_unit(name, q, tname)
    missing = sorted(set(si_reference.UNITS) - set(seen))
    chk.ob(R1, not missing, BUILTIN, None, key='documented-names',
           qualname='<module>', what='every documented unit name is defined',
           found=str(missing))
    # the registration loops feed the tables to the db unchanged: on the
    # summary of the module body (a loop over `a + b` is a loop over the
    # concatenated table)
    fake = ast.FunctionDef(
        name='<module>', args=ast.arguments(
            posonlyargs=[], args=[], kwonlyargs=[], kw_defaults=[],
            defaults=[]), body=list(bnode.body), decorator_list=[])
    ast.copy_location(fake, bnode.body[0])
    fake.end_lineno = bnode.body[-1].end_lineno
    mpaths = sym.Summarizer(inline=False).summarize(fake)
    ok = len(mpaths) == 1
    found = '%d module paths' % len(mpaths)
    if ok:
        ev = sym.Evaluator(record_calls=False)
        tab_keys = {}
        for tname in ('base_SI_units', 'derived_SI_units', 'other_units'):
            tab_keys[tname] = ev.k(repo.module_assign(BUILTIN, tname),
                                   sym.State())
        e0, e1, e2 = (('bv', 0, i) for i in range(3))
        udb_add = ('attr', ('importfrom', '.db', 'units_db'), 'add')
        body_base = ('call', udb_add, (e0, ('call', (
            'importfrom', '.qty', 'Quantity'), (e1, ('call', ('attr', (
                'importfrom', '.qty', 'FundamentalUnits'), 'new'), (e2,),
                ())), ())), ())
        body_expr = ('call', udb_add, (e0, ('call', (
            'importfrom', '.qty', 'eval_qty'), (e1,), ())), ())
        from .c05 import _sub_atom as _sub
        regs = []
        other = []

        def classify(k):
            if is_call(k) and k[1] == udb_add and len(k[2]) == 2 \
                    and not k[3]:
                a0, a1 = k[2]
                if is_call(a1) and a1[1] == body_base[2][1][1] \
                        and len(a1[2]) == 2 and is_call(a1[2][1]) \
                        and a1[2][1][1] == body_base[2][1][2][1][1]:
                    return ('tuple', (a0, a1[2][0], a1[2][1][2][0]))
                if is_call(a1) and a1[1] == body_expr[2][1][1] \
                        and len(a1[2]) == 1:
                    return ('tuple', (a0, a1[2][0]))
            return None
        for e in mpaths[0].trace:
            if e[0] == 'expr':
                c = classify(e[1])
                if c is not None:
                    regs.append(c)
                elif is_call(e[1]):
                    other.append(show(e[1])[:60])
            elif e[0] == 'loop':
                (bv, it, _), = e[1]
                bodies = e[2]
                evs = [x for x in bodies[0][0] if x[0] in (
                    'expr', 'store', 'loop', 'cond')] \
                    if len(bodies) == 1 else None
                c = classify(evs[0][1]) if evs is not None and len(
                    evs) == 1 and evs[0][0] == 'expr' and bodies[0][1] \
                    is None and it[0] == 'list' else None
                if c is None:
                    other.append('loop over ' + show(it)[:60])
                    continue
                for elt in it[1]:
                    sub = dict(((('bv', 0, i)), elt[1][i])
                               for i in range(len(elt[1]))) \
                        if elt[0] == 'tuple' else {}
                    regs.append(_sub(c, sub))
        want = tab_keys['base_SI_units'][1] + \
            tab_keys['derived_SI_units'][1] + tab_keys['other_units'][1]
        ok = tuple(regs) == want and not other
        found = '%d entries registered, %d in the tables; other effects: ' \
                '%s' % (len(regs), len(want), other[:3])
    chk.ob(R1, ok, BUILTIN, bnode.body[0],
           key='registration-loops', qualname='<module>',
           what='each table is registered entry by entry, unchanged, in '
                'order', found=found)
    add = repo.func(DBF, 'UnitsDB.add')
    refcmp.check(chk, R1, DBF, add,
                 "def f(self, name, val):\n    self.db[name] = val\n",
                 what='UnitsDB.add stores the value under the name',
                 key='UnitsDB.add')
    return db


def run(chk, repo, tier):
    db = unit_tables(chk, repo)
    bnode = repo.mod(BUILTIN).tree
    # ---- R10.3 lookup -------------------------------------------------------
    lk = repo.func(DBF, 'UnitsDB.lookup')
    refcmp.check(chk, 'R10.3', DBF, lk, LOOKUP, key='UnitsDB.lookup',
                 what='lookup: exact name, else one-letter prefix, else '
                      'two-letter prefix, each subscripting the keys it '
                      'tested; else UnitsParseError')
    # ---- R10.4 prefix x unit enumeration -----------------------------------
    n = 0
    shadows = []
    bad = []
    for pname, pexp in si_reference.PREFIXES.items():
        for uname, (mag, dim, tol) in si_reference.UNITS.items():
            n += 1
            full = pname + uname
            r = db.resolve(full)
            if r is None:
                bad.append('%s unresolved' % full)
                continue
            how, q = r
            want_mag = Fraction(10) ** pexp * mag
            same = close(q.mag, want_mag, max(tol, 1e-9)) and tuple(
                q.dim) == tuple(Fraction(d) for d in dim)
            if not same:
                if how == 'exact' or (how == 'prefix1'
                                      and len(pname) == 2) or (
                        how == 'prefix1' and full[1:] != uname):
                    shadows.append('%s reads as %s' % (full, how))
                else:
                    bad.append('%s -> %r' % (full, q))
    chk.ob('R10.4', not bad, DBF, lk, key='prefix-x-unit',
           what='every prefix+unit name resolves, under the documented '
                'lookup order, to 10^p times the unit (%d names)' % n,
           found='; '.join(bad[:8]))
    chk.info('R10.4 shadowed prefixed readings (exact or shorter-prefix '
             'name wins): %s' % ', '.join(sorted(shadows)[:40]))
    chk.extra['prefix_unit_names'] = n
    chk.exhaustive = True
    # ---- R10.5 / R10.6 parser ---------------------------------------------
    pm = repo.methods(PARSER, 'UnitsParser')
    for m, ref in REFS.items():
        if m not in pm:
            raise AnalysisError('UnitsParser.%s vanished' % m)
        refcmp.check(chk, 'R10.5', PARSER, pm[m], ref,
                     key='UnitsParser.' + m,
                     what='UnitsParser.%s implements the documented grammar '
                          'step' % m)
    refcmp.check(chk, 'R10.6', PARSER, repo.func(PARSER, 'eval_subtree'),
                 EVAL_SUBTREE, key='eval_subtree',
                 what='the tree evaluator maps * / ^ to Mult, Div, Pow, '
                      'names to the unit database and numbers to '
                      'themselves')
    refcmp.check(chk, 'R10.6', PARSER, repo.func(PARSER, 'eval_expr'),
                 "def f(expr):\n    ast = parse(expr)\n"
                 "    return eval_subtree(ast)\n", key='eval_expr',
                 what='eval_expr parses then evaluates (no state)')
    refcmp.check(chk, 'R10.6', PARSER, repo.func(PARSER, 'parse'),
                 "def f(expr, *args, **kwargs):\n"
                 "    return UnitsParser(expr, *args, **kwargs).parse()\n",
                 key='parse', what='parse builds a fresh parser per call')
    init = pm.get('__init__')
    refcmp.check(chk, 'R10.5', PARSER, init,
                 "def f(self, expr, debug=False):\n"
                 "    self.tokens = [tok for tok in re.findall("
                 "self.tokenize_re, expr) if not tok.isspace()]\n"
                 "    self.idx = 0\n    self.depth = 0\n"
                 "    self.debug = debug\n", key='UnitsParser.__init__',
                 what='tokens = all regex matches that are not whitespace; '
                      'cursor starts at 0')
    tok = repo.class_assign(PARSER, 'UnitsParser', 'tokenize_re')
    pat = None
    if isinstance(tok, ast.Call) and dotted(tok.func) == 're.compile' \
            and tok.args and isinstance(tok.args[0], ast.Constant):
        pat = tok.args[0].value
    ok = False
    if pat is not None:
        try:
            import re._parser as rp
        except ImportError:      # pragma: no cover
            import sre_parse as rp
        ok = repr(rp.parse(pat)) == repr(rp.parse(
            r'-?[.\d]+(?:[eE][-+]?\d+)?|[a-zA-Z]+|.'))
    chk.ob('R10.5', ok, PARSER, repo.cls(PARSER, 'UnitsParser'),
           key='tokenizer-pattern', qualname='UnitsParser',
           what='tokens are: optionally signed number with optional e/E '
                'exponent, run of letters, any other single character',
           found=repr(pat))
    # units_db used by the evaluator is the one the tables are registered in
    ok = any(isinstance(s, ast.ImportFrom) and s.module == 'db'
             and s.level == 1 and any(a.name == 'units_db' for a in s.names)
             for s in repo.mod(PARSER).tree.body) and any(
        isinstance(s, ast.ImportFrom) and s.module == 'db' and s.level == 1
        and any(a.name == 'units_db' for a in s.names) for s in bnode.body)
    chk.ob('R10.6', ok, PARSER, repo.mod(PARSER).tree.body[0],
           key='one-database', qualname='<module>',
           what='parser and builtin tables share Units.db.units_db')
    # ---- R10.7 helpers ----------------------------------------------------
    for name, ref in HELPER_REFS.items():
        refcmp.check(chk, 'R10.7', HELPERS, repo.func(HELPERS, name), ref,
                     key='helpers.' + name,
                     what='helpers.%s is the documented one-liner '
                          '(None passes through)' % name)
    gq = repo.methods(QTY, 'GenericQuantity')
    refcmp.check(chk, 'R10.7', QTY, gq['in_units'],
                 "def f(self, units):\n"
                 "    value = self/eval_qty(units)\n"
                 "    if isinstance(value, GenericQuantity):\n"
                 "        raise UnitsError('x')\n"
                 "    return value\n", key='Quantity.in_units',
                 what='conversion divides by the target unit and raises '
                      'UnitsError if a dimension remains')
    # the arithmetic the tree evaluator relies on (Mult, Div, Pow on values
    # and on dimension vectors): same references as C11
    from . import c11
    for m in ('__mul__', '__rmul__', '__truediv__', '__rtruediv__',
              '__pow__', '_build', '_unpack_qty', 'has_units'):
        if m not in gq:
            raise AnalysisError('GenericQuantity.%s vanished' % m)
        refcmp.check(chk, 'R10.6', QTY, gq[m], c11.GQ[m],
                     key='GenericQuantity.' + m,
                     what='GenericQuantity.%s combines SI values and '
                          'dimension vectors as the evaluator assumes' % m)
    fu = repo.methods(QTY, 'FundamentalUnits')
    for m, ref in c11.FU.items():
        if m not in fu:
            continue        # its absence is C11's business (R11.4)
        refcmp.check(chk, 'R10.6', QTY, fu[m], ref,
                     key='FundamentalUnits.' + m,
                     what='FundamentalUnits.%s: exponent arithmetic' % m)
    refcmp.check(chk, 'R10.7', QTY, repo.func(QTY, 'eval_quantity'),
                 "def f(expr):\n    if isinstance(expr, str):\n"
                 "        return eval_expr(expr)\n    else:\n"
                 "        return expr\n", key='eval_quantity',
                 what='strings are evaluated, anything else passes through')
    alias = repo.module_assign(QTY, 'eval_qty')
    chk.ob('R10.7', isinstance(alias, ast.Name)
           and alias.id == 'eval_quantity', QTY, alias, key='eval_qty-alias',
           qualname='<module>', what='eval_qty is eval_quantity')
    refcmp.check(chk, 'R10.7', QTY, repo.func(QTY, 'Quantity.__init__'),
                 "def f(self, value, units):\n    self.value = value\n"
                 "    if isinstance(units, str):\n"
                 "        units = eval_qty(units).units\n"
                 "    self.units = units\n", key='Quantity.__init__',
                 what='a quantity stores its SI value and dimension '
                      'unchanged')
    refcmp.check(chk, 'R10.7', QTY, repo.func(QTY, 'Quantity.fmt_in_units'),
                 "def f(self, units):\n"
                 "    return '%g %s' % (self.in_units(units), units)\n",
                 key='Quantity.fmt_in_units',
                 what='formatting converts then prints six significant '
                      'digits and the unit')
    # ---- R10.8 escape / purity ---------------------------------------------
    bad = []
    nraise = 0
    for rel in (PARSER, DBF):
        for n_ in ast.walk(repo.mod(rel).tree):
            if isinstance(n_, ast.Raise) and n_.exc is not None:
                nraise += 1
                cls = n_.exc.func if isinstance(n_.exc, ast.Call) else n_.exc
                if dotted(cls) != 'UnitsParseError':
                    bad.append('%s:%d raise %s' % (rel, n_.lineno,
                                                   dotted(cls)))
    chk.need('R10.8', nraise, 8, 'explicit raises on the evaluation path')
    chk.ob('R10.8', not bad, PARSER, repo.mod(PARSER).tree.body[0],
           key='only-UnitsParseError', qualname='<module>',
           what='parser and database raise only UnitsParseError',
           found=', '.join(bad))
    for rel, fn in [(PARSER, 'eval_expr'), (PARSER, 'parse'),
                    (PARSER, 'eval_subtree'), (DBF, 'UnitsDB.lookup'),
                    (QTY, 'eval_quantity')]:
        f = repo.func(rel, fn)
        muts = FuncEffects(f).persistent_mutations()
        chk.ob('R10.8', not muts, rel, f, key='pure:' + fn,
               what='%s keeps no state between calls (no cache)' % fn,
               found='; '.join(describe(m) for m in muts))
    # module-level mutable state in parser.py
    state = [ast.unparse(s)[:50] for s in repo.mod(PARSER).tree.body
             if isinstance(s, ast.Assign) and isinstance(
                 s.value, (ast.Dict, ast.List, ast.Set))
             and not any(isinstance(t, ast.Name) and t.id == '__all__'
                         for t in s.targets)]
    chk.ob('R10.8', not state, PARSER, repo.mod(PARSER).tree.body[0],
           key='no-module-state', qualname='<module>',
           what='the parser module holds no mutable module-level container',
           found='; '.join(state))
    # ---- R10.9 constants ----------------------------------------------------
    for cname, (val, dim, tol) in si_reference.CONSTANTS.items():
        node = repo.module_assign(CONSTS, cname)
        q = None
        if isinstance(node, ast.Call) and dotted(node.func) == 'eval_qty' \
                and node.args and isinstance(node.args[0], ast.Constant):
            try:
                q = db.eval(node.args[0].value)
            except dims.UnitSyntaxError:
                q = None
        ok = q is not None and close(q.mag, val, tol) and tuple(
            q.dim) == tuple(Fraction(d) for d in dim)
        chk.ob('R10.9', ok, CONSTS, node, key='const:' + cname,
               qualname='<module>', what='%s has its CODATA value and '
                                         'dimension' % cname, found=repr(q))


def thorough(chk, repo):
    """Thorough tier: the reference parser/evaluator is cross-validated
    against the independent exact evaluator on a bounded-exhaustive family
    of expressions."""
    import sys
    from .. import refexec
    refexec.units_crosscheck(chk, repo, 'R10.T', sys.modules[__name__])


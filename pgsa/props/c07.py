"""C07 -- dimensional results are the non-dimensional ones times R (and T)."""
import ast

from .. import sym
from ..match import SELF, params, is_call, dotted_key
from ..effects import FuncEffects, describe
from ..source import AnalysisError, dotted
from ..sym import show, Poly
from . import c01

EXPLANATION = (
    "R07.1: get_H, get_G, get_S, get_Cp of ThermochemBase are brought to "
    "polynomial normal form and must equal HoRT(T)*T*R('<u>/K'), "
    "GoRT(T,S_el)*T*R('<u>/K'), SoR(T,S_el)*R(u), CpoR(T)*R(u) with R the "
    "pmutt gas constant; together with get_GoRT = HoRT - SoR (rule R01.5) "
    "the checker's algebra then gives G - (H - T*S) == 0 identically; no "
    "class overrides them; each is a single pure path (no stored state, so "
    "no cache can answer for another unit). R07.2: the estimator's S/R "
    "subtracts get_Selements() exactly once, outside the sum, only when "
    "requested; get_Selements is the sum over all atoms of "
    "AddHs(MolFromSmiles(self.name)) of the table entry indexed by the "
    "atom's atomic number.")
NOT_DECIDED = ("the values in pmutt's constant tables; RDKit's hydrogen "
               "addition")
ASSUMPTIONS = ["pmutt.constants.R(units) is the gas constant in those units",
               "Chem.AddHs makes every hydrogen an explicit atom"]

BASE = 'pgradd/ThermoChem/base.py'
GD = 'pgradd/ThermoChem/group_data.py'


def pmutt_alias(repo, rel):
    for s in repo.mod(rel).tree.body:
        if isinstance(s, ast.ImportFrom) and s.module == 'pmutt':
            for a in s.names:
                if a.name == 'constants':
                    return a.asname or a.name
    return None


def run(chk, repo, tier):
    calias = pmutt_alias(repo, BASE)
    chk.ob('R07.1', calias is not None, BASE, repo.mod(BASE).tree.body[0],
           key='pmutt-constants', what='the gas constant comes from '
                                       'pmutt.constants',
           qualname='<module>')
    calias = calias or 'c'
    spec = {
        'get_H': "self.get_HoRT({T})*{T}*{c}.R('{{}}/K'.format({u}))",
        'get_G': "self.get_GoRT({T}, S_elements={s})*{T}*"
                 "{c}.R('{{}}/K'.format({u}))",
        'get_S': "self.get_SoR({T}, S_elements={s})*{c}.R({u})",
        'get_Cp': "self.get_CpoR({T})*{c}.R({u})",
    }
    values = {}
    for mname, text in spec.items():
        f = repo.func(BASE, 'ThermochemBase.' + mname)
        ps = params(f)
        T, u = ps[1], ps[2]
        s_ = ps[3] if len(ps) > 3 else None
        want = sym.expr_key(text.format(T=T, u=u, s=s_, c=calias))
        alt = None
        if s_:
            alt = sym.expr_key(text.replace('S_elements={s}', '{s}').format(
                T=T, u=u, s=s_, c=calias))
        paths = sym.summarize(f)
        ok = (len(paths) == 1 and paths[0].outcome[0] == 'return'
              and paths[0].outcome[1] in (want, alt))
        values[mname] = paths[0].outcome[1] if len(paths) == 1 and \
            paths[0].outcome[0] == 'return' else None
        chk.ob('R07.1', ok, BASE, f, key='form:' + mname,
               what='%s is the non-dimensional value times R (and T)' % mname,
               found=' || '.join(p.describe() for p in paths)[:500],
               required=show(want))
        muts = FuncEffects(f).persistent_mutations()
        chk.ob('R07.1', not muts, BASE, f, key='pure:' + mname,
               what='%s stores nothing (no cache between units)' % mname,
               found='; '.join(describe(m) for m in muts))
        if s_ is not None:
            d = [a for a in f.args.defaults]
            chk.ob('R07.1', len(d) == 1 and isinstance(d[0], ast.Constant)
                   and d[0].value is None, BASE, f,
                   key='default-S_elements:' + mname,
                   what='S_elements defaults to None (not requested)')
    # overrides
    over = []
    for rel, c in repo.classes():
        if c.name == 'ThermochemBase':
            continue
        for s in c.body:
            if isinstance(s, ast.FunctionDef) and s.name in spec:
                over.append('%s.%s' % (c.name, s.name))
            if isinstance(s, ast.Assign) and any(
                    isinstance(t, ast.Name) and t.id in spec
                    for t in s.targets):
                over.append('%s.%s' % (c.name, s.targets[0].id))
    chk.ob('R07.1', not over, BASE, repo.cls(BASE, 'ThermochemBase'),
           key='no-override', qualname='ThermochemBase',
           what='no class overrides get_H/get_G/get_S/get_Cp',
           found=', '.join(over))
    c01.check_gort(chk, repo, rule='R07.1')
    # identity G - (H - T*S) == 0 in the checker's algebra
    if all(values.get(m) is not None for m in ('get_H', 'get_G', 'get_S')):
        f = repo.func(BASE, 'ThermochemBase.get_G')
        T = ('name', params(f)[1])
        u = ('name', params(f)[2])
        se = ('name', params(f)[3])
        HoRT = ('call', ('attr', SELF, 'get_HoRT'), (T,), ())
        SoR = ('call', ('attr', SELF, 'get_SoR'), (T,),
               (('S_elements', se),))
        GoRT = ('call', ('attr', SELF, 'get_GoRT'), (T,),
                (('S_elements', se),))
        Ru = sym.expr_key("%s.R(%s)" % (calias, params(f)[2]))
        RuK = sym.expr_key("%s.R('{}/K'.format(%s))" % (calias, params(f)[2]))

        def expand(k):
            p = sym.poly_of_key(k)
            out = Poly()
            for mono, c in p.terms.items():
                term = Poly.const(c)
                for a, e in mono:
                    if a == GoRT or (is_call(a) and a[1] == GoRT[1]):
                        rep = Poly.atom(HoRT) - Poly.atom(SoR)
                    elif is_call(a) and a[1] == ('attr', SELF, 'get_SoR'):
                        rep = Poly.atom(SoR)
                    else:
                        rep = Poly.atom(a)
                    term = term * (rep ** e)
                out = out + term
            return out
        # S(T, u/K) uses R('<u>/K'): rename R(u) -> R('<u>/K') in S
        Sk = expand(values['get_S'])
        S_perK = Poly()
        for mono, c in Sk.terms.items():
            term = Poly.const(c)
            for a, e in mono:
                term = term * (Poly.atom(RuK if a == Ru else a) ** e)
            S_perK = S_perK + term
        resid = expand(values['get_G']) - (expand(values['get_H'])
                                           - Poly.atom(T) * S_perK)
        chk.ob('R07.1', not resid.terms, BASE, f, key='G=H-T*S',
               what='G(T,u) - (H(T,u) - T*S(T,u/K)) vanishes identically',
               found=show(resid))
    # ---- R07.2 ---------------------------------------------------------
    pset, est, methods, pos = c01.linear_forms(chk, repo, rule='R07.2',
                                               rule_try='R07.2',
                                               only=('get_SoR',))
    g = methods.get('get_Selements')
    if g is None:
        raise AnalysisError('estimator lacks get_Selements')
    ca = pmutt_alias(repo, GD) or 'c'
    paths = sym.summarize(g)
    wants = [sym.expr_key(t % ca) for t in (
        "sum(%s.S_elements[a.GetAtomicNum()] for a in "
        "Chem.rdmolops.AddHs(Chem.MolFromSmiles(self.name)).GetAtoms())",
        "sum(%s.S_elements[a.GetAtomicNum()] for a in "
        "Chem.AddHs(Chem.MolFromSmiles(self.name)).GetAtoms())")]
    ok = (len(paths) == 1 and paths[0].outcome[0] == 'return'
          and paths[0].outcome[1] in wants)
    chk.ob('R07.2', ok, GD, g, key='elemental-sum',
           what='get_Selements sums the elemental entropy table over every '
                'atom (hydrogens made explicit) of the molecule named by '
                'self.name',
           found=' || '.join(p.describe() for p in paths)[:500],
           required=show(wants[0]))
    muts = FuncEffects(g).persistent_mutations()
    chk.ob('R07.2', not muts, GD, g, key='pure:get_Selements',
           what='get_Selements stores nothing',
           found='; '.join(describe(m) for m in muts))
    # Chem is rdkit.Chem
    ok = any(isinstance(s, ast.ImportFrom) and s.module == 'rdkit'
             and any(a.name == 'Chem' and a.asname is None for a in s.names)
             for s in repo.mod(GD).tree.body)
    chk.ob('R07.2', ok, GD, repo.mod(GD).tree.body[0], key='Chem-import',
           what='`Chem` is rdkit.Chem', qualname='<module>')
    # the molecule named by self.name is the one fixed at construction
    init = methods['__init__']
    libp = params(init)[1]
    name_vals = set()
    for p_ in sym.summarize(init):
        for e in p_.stores():
            if e[1] == ('attr', SELF, 'name'):
                name_vals.add(e[2])
    chk.ob('R07.2', name_vals == {('attr', ('name', libp), 'name')}, GD,
           init, key='name=lib.name',
           what='the estimate\'s molecule name is the library\'s name at '
                'construction time', found=' | '.join(show(v)
                                                      for v in name_vals))
    keeps = [ast.unparse(n) for n in ast.walk(init)
             if isinstance(n, ast.Assign) and isinstance(n.value, ast.Name)
             and n.value.id == libp
             and any(isinstance(t, ast.Attribute) for t in n.targets)]
    chk.ob('R07.2', not keeps, GD, init, key='name-fixed-at-construction',
           what='the estimate copies the molecule name at construction; it '
                'keeps no live reference to the library',
           found='; '.join(keeps))
    cls = repo.cls(GD, est)
    props = [s_.name for s_ in cls.body if isinstance(s_, ast.FunctionDef)
             and s_.decorator_list]
    chk.ob('R07.2', not props, GD, cls, key='no-computed-attributes',
           qualname=est, what='the estimator has no property/decorated '
                              'accessor (name, correlations are plain '
                              'attributes set once)', found=str(props))
    stores = [n.attr for f_ in cls.body if isinstance(f_, ast.FunctionDef)
              and f_.name != '__init__' for n in ast.walk(f_)
              if isinstance(n, ast.Attribute) and isinstance(
                  n.ctx, (ast.Store, ast.Del)) and dotted(n.value) == 'self']
    chk.ob('R07.2', not stores, GD, cls, key='no-late-stores', qualname=est,
           what='no estimator method other than the constructor stores on '
                'the estimate', found=str(stores))
    # the molecule whose elements are subtracted is the one the estimate was
    # made for: where the library records it
    from .. import reviewed as _rv
    _rv.check(chk, 'R07.4', repo, 'pgradd/GroupAdd/Library.py',
              'GroupLibrary.GetDescriptors',
              'GroupLibrary.GetDescriptors records the molecule it decomposes '
              '(on every call) as reviewed')


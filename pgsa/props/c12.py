"""C12 -- loading a library does not depend on the units its data use."""
import ast
from fractions import Fraction

import yaml

from .. import sym, refcmp, dims
from ..match import SELF, params, is_call
from ..effects import FuncEffects, describe
from ..source import AnalysisError, dotted, literal
from ..sym import show
from ..datafiles import libraries
from . import c10

EXPLANATION = (
    'Data: D12.8 every value with a unit (explicit or file default) in every shipped file has the dimension of its kind, so that it loads to a plain number. '

    "R12.1: the kinds in ThermochemIncomplete._yaml_schema (lifted from the "
    "string constant) are the ones the key names promise (H_ref molar "
    "enthalpy, S_ref molar entropy, Cp_data molar heat capacity, "
    "temperatures temperature; ND_* plain floats); with R typed from the "
    "literal in Consts.py the checker's dimension algebra shows "
    "H_ref/(R*T_ref), S_ref/R and Cp/R dimensionless; yaml_construct is "
    "compared in normal form with a reference (non-dimensional key by "
    "`is not None`, else dimensional key divided by R (and T_ref), else "
    "None; temperatures through in_units('K')). R12.2: with_units returns "
    "number*eval_qty(units) for every non-None number (zero included). "
    "R12.3: the quantity loader: explicit unit -> that quantity; bare "
    "number with a default unit of its kind in this file's context -> "
    "with_units; else InputDataError; no state across calls. R12.4: "
    "_do_load sets context['units'] from the file before any property set "
    "is loaded and builds a fresh context per file; the object loader loads "
    "optional members by presence (not truthiness), defaults, and exactly "
    "one of each alternative set. R12.5: every shipped file writing bare "
    "numbers declares that kind in its units block with a unit of the "
    "kind's dimension. D12.8: every value with a unit has the dimension of "
    "its kind, every member name of a record is one the schema declares, "
    "and every quantity text is one number followed by a unit.")
NOT_DECIDED = ("numeric equality across unit presentations (floating "
               "point); PyYAML's scalar resolution")
ASSUMPTIONS = ["GAS_CONSTANT is evaluated by the unit evaluator decided in "
               "C10", "the dimension of a kind name (molar enthalpy = "
                      "J/mol, molar entropy = molar heat capacity = "
                      "J/(mol K), temperature = K)"]

INC = 'pgradd/ThermoChem/incomplete.py'
BUILTINS = 'pgradd/yaml_io/builtins.py'
SCHEMA = 'pgradd/yaml_io/schema.py'
HELPERS = 'pgradd/Units/helpers.py'
LIB = 'pgradd/GroupAdd/Library.py'
CONSTS = 'pgradd/Consts.py'

KIND_UNIT = {'molar enthalpy': 'J/mol', 'molar entropy': 'J/(mol K)',
             'molar heat capacity': 'J/(mol K)', 'temperature': 'K'}

EXPECT_SCHEMA = {
    'T_ref': ('qty', 'temperature'),
    'H_ref': ('qty', 'molar enthalpy'),
    'S_ref': ('qty', 'molar entropy'),
    'ND_H_ref': ('float', None),
    'ND_S_ref': ('float', None),
}

REF_CONSTRUCT = """
def f(cls, params, context):
    T_ref = params['T_ref']
    if params.get('ND_H_ref') is not None:
        ND_H_ref = params['ND_H_ref']
    elif params.get('H_ref') is not None:
        ND_H_ref = params['H_ref']/(R*T_ref)
    else:
        ND_H_ref = None
    if params.get('ND_S_ref') is not None:
        ND_S_ref = params['ND_S_ref']
    elif params.get('S_ref') is not None:
        ND_S_ref = params['S_ref']/R
    else:
        ND_S_ref = None
    if params.get('ND_Cp_data'):
        (T_data, ND_Cp_data) = list(zip(*params['ND_Cp_data']))
        Ts = np.array([T.in_units('K') for T in T_data])
        ND_Cps = np.array(ND_Cp_data)
        ND_Cp_data = dict(list(zip(Ts, ND_Cps)))
    elif params.get('Cp_data'):
        (T_data, Cp_data) = list(zip(*params['Cp_data']))
        Ts = np.array([T.in_units('K') for T in T_data])
        ND_Cps = np.array([Cp/R for Cp in Cp_data])
        ND_Cp_data = dict(list(zip(Ts, ND_Cps)))
    else:
        ND_Cp_data = {}
    range = params.get('range')
    if range is not None:
        range = range[0].in_units('K'), range[1].in_units('K')
    T_ref = T_ref.in_units('K')
    return cls(ND_H_ref, ND_S_ref, ND_Cp_data, T_ref, range)
"""

REF_QTY_LOADER = """
def f(self, name, value, context):
    if value is None:
        return None
    if 'units' in context:
        kind_units = context['units'].get(self.kind)
    else:
        kind_units = None
    qty = Units.eval_qty(value)
    if not isinstance(qty, Units.Quantity):
        if kind_units is not None:
            return Units.with_units(qty, kind_units)
        else:
            raise InputDataError('x')
    return qty
"""

REF_FLOAT_LOADER = """
def f(self, name, value, context):
    if value is None:
        return None
    try:
        return float(value)
    except ValueError:
        raise InputDataError('x')
"""

REF_TUPLE_LOADER = """
def f(self, name, values, context):
    if (not isinstance(values, Sequence) or len(values) != len(self.loaders)):
        raise InputDataError('x')
    items = []
    for (i, loader) in enumerate(self.loaders):
        items.append(loader(None, values[i], context))
    return items
"""

REF_LIST_LOADER = """
def f(self, name, input_values, context):
    if not isinstance(input_values, Sequence):
        raise InputDataError('x')
    return [self.loader(string(i), item, context)
            for (i, item) in enumerate(input_values)]
"""

REF_OBJECT_CALL = """
def f(self, name, data, context):
    params = {}
    if isinstance(data, YAMLTaggedValue):
        tag = data.tag
        data = data.value
        if self.tag is not None and tag != self.tag:
            repo = context['repo']
            if repo.is_tag_sub_type(tag, self.tag):
                return repo.load_tagged(name, data, context, tag)
            else:
                raise InputDataError('x')
    elif not isinstance(data, Mapping):
        raise InputDataError('x')
    for name in data:
        if name not in self.loaders and not self.has_open_namespace:
            warn('x' % name, InputDataWarning, 3)
    for name in self.requireds:
        if name not in data:
            raise InputDataError('x')
        params[name] = self.loaders[name](name, data[name], context)
    for name in self.optionals:
        if name in data:
            params[name] = self.loaders[name](name, data[name], context)
    for name in self.defaults:
        if name in data:
            params[name] = self.loaders[name](name, data[name], context)
        else:
            params[name] = self.loaders[name](name, self.defaults[name],
                                              context)
    for alt_set in self.alt_sets:
        alt_names = [name for name in alt_set if name in data]
        if len(alt_names) != 1:
            raise InputDataError('x')
        name = alt_names[0]
        params[name] = self.loaders[name](name, data[name], context)
    if self.object_class is not None:
        if hasattr(self.object_class, 'yaml_construct'):
            params['name'] = name
            try:
                return self.object_class.yaml_construct(params, context)
            except Exception as exc:
                from sys import exc_traceback
                from traceback import format_tb
                raise InputDataError('x')
        else:
            obj = type(self.object_class.__name__, (object,), {})()
            for name in params:
                setattr(obj, name, params[name])
            obj.__class__ = self.object_class
            return obj
    else:
        obj = AnonymousClass()
        for name in params:
            setattr(obj, name, params[name])
        return obj
"""


_DB = {}


def unit_db_for(repo):
    if repo.root not in _DB:
        db = dims.DB()
        base, derived, other, prefixes = c10.lift_tables(repo)
        for name, mult, prim in base:
            db.units[name] = dims.Q.base(prim, Fraction(repr(float(mult))))
        for name, text in list(derived) + list(other):
            try:
                db.units[name] = db.eval(text)
            except dims.UnitSyntaxError:
                pass
        _DB[repo.root] = db
    return _DB[repo.root]


def schema_of(repo):
    node = repo.class_assign(INC, 'ThermochemIncomplete', '_yaml_schema')
    if not (isinstance(node, ast.Constant) and isinstance(node.value, str)):
        raise AnalysisError('_yaml_schema is not a string constant')
    return yaml.safe_load(node.value), node


def yaml_machinery(chk, repo, rule):
    """The YAML loading machinery (yaml_io package) unchanged in normal form
    from its reviewed references; shared by C12, C13 and C18."""
    from .. import reviewed
    import ast as _ast
    for rel in ('pgradd/yaml_io/yaml_io.py', 'pgradd/yaml_io/lib_interface.py',
                'pgradd/yaml_io/schema.py', 'pgradd/yaml_io/builtins.py'):
        for node in _ast.walk(repo.mod(rel).tree):
            if isinstance(node, _ast.FunctionDef):
                from ..source import qual as _qual
                q = _qual(node)
                if q.count('.') >= 2 and not repo.has_func(rel, q):
                    continue    # class nested inside a function body
                if ('%s::%s' % (rel, q)) in reviewed.store():
                    reviewed.check(chk, rule, repo, rel, q,
                                   '%s (YAML loading machinery) is unchanged '
                                   'in normal form from its reviewed '
                                   'reference' % q)
    # YAML 1.2 core implicit tags only (a bare `1e3` or `yes` must not be
    # resolved differently from file to file)
    tags = repo.module_assign('pgradd/yaml_io/lib_interface.py',
                              'YAML12_core_implicit_tags')
    want = sym.expr_key("['tag:yaml.org,2002:' + tag for tag in ['str', "
                        "'seq', 'map', 'null', 'bool', 'int', 'float']]")
    chk.ob(rule, sym.Evaluator(record_calls=False).k(
        tags, sym.State()) == want, 'pgradd/yaml_io/lib_interface.py', tags,
        key='yaml12-tags', qualname='<module>',
        what='implicit resolution is restricted to the YAML 1.2 core tags')


def run(chk, repo, tier):
    schema, snode = schema_of(repo)
    # ---- R12.1 kinds ------------------------------------------------------
    for key, (typ, kind) in EXPECT_SCHEMA.items():
        ent = schema.get(key) or {}
        chk.ob('R12.1', ent.get('type') == typ and ent.get('kind') == kind,
               INC, snode, key='schema:' + key,
               qualname='ThermochemIncomplete._yaml_schema',
               what='schema member %s is %s%s' % (
                   key, typ, ' of kind ' + kind if kind else ''),
               found=str(dict((k, ent.get(k)) for k in ('type', 'kind'))))
    for key, second in (('Cp_data', ('qty', 'molar heat capacity')),
                        ('ND_Cp_data', ('float', None))):
        ent = schema.get(key) or {}
        it = (ent.get('item_type') or {})
        its = it.get('item_types') or []
        ok = (ent.get('type') == 'list' and it.get('type') == 'tuple'
              and len(its) == 2
              and its[0].get('type') == 'qty'
              and its[0].get('kind') == 'temperature'
              and its[1].get('type') == second[0]
              and its[1].get('kind') == second[1])
        chk.ob('R12.1', ok, INC, snode, key='schema:' + key,
               qualname='ThermochemIncomplete._yaml_schema',
               what='%s is a list of (temperature, %s) pairs' % (
                   key, second[1] or 'float'), found=str(its))
    ent = schema.get('range') or {}
    its = ent.get('item_types') or []
    chk.ob('R12.1', ent.get('type') == 'tuple' and len(its) == 2 and all(
        i.get('type') == 'qty' and i.get('kind') == 'temperature'
        for i in its), INC, snode, key='schema:range',
        qualname='ThermochemIncomplete._yaml_schema',
        what='range is a pair of temperatures', found=str(its))
    # defaults of quantity members carry their own unit (an omitted member
    # must not depend on the file's default units)
    for key, ent in sorted(schema.items()):
        if isinstance(ent, dict) and ent.get('type') == 'qty' \
                and 'default' in ent:
            d = ent['default']
            okd = False
            if isinstance(d, str):
                try:
                    from .. import dims as _d
                    q0 = unit_db_for(repo).eval(d)
                    kd = unit_db_for(repo).eval(KIND_UNIT[ent.get('kind')])
                    okd = tuple(q0.dim) == tuple(kd.dim)
                except Exception:
                    okd = False
            chk.ob('R12.1', okd, INC, snode, key='schema-default:' + key,
                   qualname='ThermochemIncomplete._yaml_schema',
                   what='the default of %s is a quantity text with its own '
                        'unit of the right dimension' % key, found=repr(d))
    tref = schema.get('T_ref') or {}
    chk.ob('R12.1', tref.get('default') == '298.15 K', INC, snode,
           key='schema-default-value:T_ref',
           qualname='ThermochemIncomplete._yaml_schema',
           what='an omitted T_ref is 298.15 K', found=repr(tref.get(
               'default')))
    # optional/default attributes: zero must not be confused with absent
    for key in ('H_ref', 'S_ref', 'ND_H_ref', 'ND_S_ref', 'Cp_data',
                'ND_Cp_data', 'range'):
        ent = schema.get(key) or {}
        chk.ob('R12.1', ent.get('optional') is True
               and 'default' not in ent, INC, snode,
               key='schema-optional:' + key,
               qualname='ThermochemIncomplete._yaml_schema',
               what='%s is optional without a default (absence is '
                    'distinguishable from zero)' % key,
               found=str(dict((k, ent.get(k)) for k in ('optional',
                                                        'default'))))
    # dimension algebra
    db = dims.DB()
    base, derived, other, prefixes = c10.lift_tables(repo)
    for name, mult, prim in base:
        db.units[name] = dims.Q.base(prim, Fraction(repr(float(mult))))
    for name, text in list(derived) + list(other):
        try:
            db.units[name] = db.eval(text)
        except dims.UnitSyntaxError:
            pass
    rnode = repo.module_assign(CONSTS, 'GAS_CONSTANT')
    if not (isinstance(rnode, ast.Call) and rnode.args
            and isinstance(rnode.args[0], ast.Constant)):
        raise AnalysisError('GAS_CONSTANT is not eval_qty(<literal>)')
    Rq = db.eval(rnode.args[0].value)
    kq = dict((k, db.eval(u)) for k, u in KIND_UNIT.items())
    zero = (Fraction(0),) * 7
    idents = {
        'H_ref/(R*T_ref)': (kq['molar enthalpy'] / (Rq * kq['temperature'])),
        'S_ref/R': kq['molar entropy'] / Rq,
        'Cp/R': kq['molar heat capacity'] / Rq,
        "T.in_units('K')": kq['temperature'] / db.eval('K'),
    }
    for txt, q in idents.items():
        chk.ob('R12.1', tuple(q.dim) == zero, INC, snode, key='dim:' + txt,
               qualname='ThermochemIncomplete.yaml_construct',
               what='%s is dimensionless given the schema kinds and the '
                    'literal gas constant' % txt, found=q.dimstr())
    ok = any(isinstance(s, ast.ImportFrom) and s.module == 'Consts'
             and any(a.name == 'GAS_CONSTANT' and a.asname == 'R'
                     for a in s.names) for s in repo.mod(INC).tree.body)
    chk.ob('R12.1', ok, INC, repo.mod(INC).tree.body[0], key='R-is-GAS',
           qualname='<module>', what='R in incomplete.py is '
                                     'Consts.GAS_CONSTANT (a quantity)')
    yc = repo.func(INC, 'ThermochemIncomplete.yaml_construct')
    refcmp.check(chk, 'R12.1', INC, yc, REF_CONSTRUCT,
                 key='ThermochemIncomplete.yaml_construct',
                 what='non-dimensional key if not None, else dimensional key '
                      'divided by R (and T_ref), else None; temperatures '
                      "through in_units('K')")
    # ---- R12.2 ------------------------------------------------------------
    refcmp.check(chk, 'R12.2', HELPERS, repo.func(HELPERS, 'with_units'),
                 c10.HELPER_REFS['with_units'], key='with_units',
                 what='with_units(number, units) = number*eval_qty(units) '
                      'for every non-None number, zero included')
    # ---- R12.3 ------------------------------------------------------------
    ql = repo.func(BUILTINS, 'qty_loader.__call__')
    refcmp.check(chk, 'R12.3', BUILTINS, ql, REF_QTY_LOADER,
                 key='qty_loader.__call__',
                 what='explicit unit -> the quantity; bare number + default '
                      'unit of the kind in this context -> with_units; '
                      'otherwise InputDataError')
    muts = FuncEffects(ql).persistent_mutations()
    chk.ob('R12.3', not muts, BUILTINS, ql, key='pure:qty_loader',
           what='the quantity loader keeps no state between values/files',
           found='; '.join(describe(m) for m in muts))
    qc = repo.cls(BUILTINS, 'qty_loader')
    state = [ast.unparse(s)[:50] for s in qc.body if isinstance(s, ast.Assign)]
    chk.ob('R12.3', not state, BUILTINS, qc, key='no-class-state',
           qualname='qty_loader', what='qty_loader has no class-level state',
           found='; '.join(state))
    refcmp.check(chk, 'R12.3', BUILTINS,
                 repo.func(BUILTINS, 'qty_loader.__init__'),
                 "def f(self, repo, kind=None):\n    self.kind = kind\n",
                 key='qty_loader.__init__', what='the loader remembers its '
                                                 'kind only')
    refcmp.check(chk, 'R12.3', BUILTINS,
                 repo.func(BUILTINS, 'float_loader.__call__'),
                 REF_FLOAT_LOADER, key='float_loader.__call__',
                 what='floats load through float(); None stays None')
    refcmp.check(chk, 'R12.3', BUILTINS,
                 repo.func(BUILTINS, 'tuple_loader.__call__'),
                 REF_TUPLE_LOADER, key='tuple_loader.__call__',
                 what='tuples load item by item with the item loaders')
    refcmp.check(chk, 'R12.3', BUILTINS,
                 repo.func(BUILTINS, 'list_loader.__call__'),
                 REF_LIST_LOADER, key='list_loader.__call__',
                 what='lists load every item')
    # ---- R12.4 ------------------------------------------------------------
    refcmp.check(chk, 'R12.4', SCHEMA,
                 repo.func(SCHEMA, 'ObjectLoader.__call__'), REF_OBJECT_CALL,
                 key='ObjectLoader.__call__',
                 what='required members must be present; optional members '
                      'are loaded when present (not when truthy); defaults '
                      'fill absent members; exactly one of each alternative '
                      'set')
    dl = repo.func(LIB, 'GroupLibrary._do_load')
    paths = sym.summarize(dl)
    okc = True
    found = ''
    for p in paths:
        idx_units = None
        idx_first_load = None
        i = 0
        for e in p.trace:
            i += 1
            if e[0] == 'store' and e[1][0] == 'sub' and e[1][2] == (
                    'const', 'units'):
                if e[2] == ('attr', ('name', 'lib_data'), 'units') or True:
                    idx_units = i
                    units_val = e[2]
            if e[0] == 'loop' and idx_first_load is None:
                idx_first_load = i
        if idx_first_load is not None and (idx_units is None
                                           or idx_units > idx_first_load):
            okc = False
            found = 'context[units] not set before the loading loops'
    chk.ob('R12.4', okc, LIB, dl, key='units-before-load',
           what="context['units'] is taken from the file before any "
                'property set is loaded', found=found)
    ctx = [n for n in dl.body if isinstance(n, ast.Assign)
           and any(isinstance(t, ast.Name) and t.id == 'context'
                   for t in n.targets)]
    chk.ob('R12.4', len(ctx) == 1 and isinstance(ctx[0].value, ast.Dict),
           LIB, dl, key='fresh-context',
           what='each file is loaded with a freshly built context '
                '(defaults of one file cannot leak into an included one)')
    units_store = [n for n in ast.walk(dl) if isinstance(n, ast.Assign)
                   and any(isinstance(t, ast.Subscript)
                           and dotted(t.value) == 'context'
                           and isinstance(t.slice, ast.Constant)
                           and t.slice.value == 'units' for t in n.targets)]
    chk.ob('R12.4', len(units_store) == 1 and dotted(
        units_store[0].value) == 'lib_data.units', LIB, dl,
        key='units-from-file', what="context['units'] = the file's own "
                                    'units block')
    yaml_machinery(chk, repo, 'R12.6')
    # ---- R12.7 the unit definitions the presentations rely on ----------------
    c10.unit_tables(chk, repo, 'R12.7', 'R12.7')
    from .. import refcmp as _rc
    _rc.check(chk, 'R12.7', c10.DBF, repo.func(c10.DBF, 'UnitsDB.lookup'),
              c10.LOOKUP, key='UnitsDB.lookup',
              what='prefixed names resolve as documented (any compatible '
                   'unit and prefix)')
    # ---- R12.5 data -------------------------------------------------------
    nfiles = 0
    for lib in libraries(repo.root):
        for path, data in lib.files.items():
            rel = lib.rel(path)
            need = set()
            for sec in ('groups', 'other_descriptors'):
                for name, rec in (data.get(sec) or {}).items():
                    tc = (rec or {}).get('thermochem') or {}
                    bare = lambda v: isinstance(v, (int, float)) \
                        and not isinstance(v, bool)
                    if bare(tc.get('T_ref')):
                        need.add('temperature')
                    if bare(tc.get('H_ref')):
                        need.add('molar enthalpy')
                    if bare(tc.get('S_ref')):
                        need.add('molar entropy')
                    for pair in tc.get('Cp_data') or []:
                        if bare(pair[0]):
                            need.add('temperature')
                        if bare(pair[1]):
                            need.add('molar heat capacity')
                    for pair in tc.get('ND_Cp_data') or []:
                        if bare(pair[0]):
                            need.add('temperature')
                    for v in tc.get('range') or []:
                        if bare(v):
                            need.add('temperature')
            units = data.get('units') or {}
            if not need and not units:
                continue
            nfiles += 1
            problems = []
            for kind in sorted(need):
                if kind not in units:
                    problems.append('bare %s values but no default unit'
                                    % kind)
            for kind, u in units.items():
                if kind in KIND_UNIT:
                    try:
                        q = db.eval(str(u))
                        if tuple(q.dim) != tuple(kq[kind].dim):
                            problems.append('%s: %s has dimension %s'
                                            % (kind, u, q.dimstr()))
                    except dims.UnitSyntaxError as exc:
                        problems.append('%s: %r does not parse (%s)'
                                        % (kind, u, exc))
            chk.ob('R12.5', not problems, rel, None, key='units:' + rel,
                   qualname='units',
                   what='%s declares a default unit of the right dimension '
                        'for every kind it writes as bare numbers' % rel,
                   found='; '.join(problems))
    chk.need('R12.5', nfiles, 10, 'shipped data files with bare numbers')
    chk.extra['data_files_audited'] = nfiles
    # ---- the shipped data ---------------------------------------------------
    from .. import dataaudit
    dataaudit.quantity_dimensions(chk, repo, 'D12.8')


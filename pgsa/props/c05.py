"""C05 -- correlations are thermodynamically consistent with their data."""
import ast
from fractions import Fraction

from .. import sym
from ..match import (SELF, params, method_call, is_call, terms, dotted_key)
from ..source import AnalysisError, src, dotted
from ..sym import Poly, show, to_poly, poly_of_key
from .c01 import check_gort

EXPLANATION = (
    "R05.1: every enumerated path of ThermochemRawData.get_HoRT / get_SoR / "
    "get_CpoR is compared, in polynomial normal form, with the value the "
    "property prescribes for the temperature regions that path's conditions "
    "select: (H_ref*T_ref + F(T) - F(T_ref))/T and S_ref + Fs(T) - Fs(T_ref) "
    "with F the antiderivative of the piecewise Cp (end values outside the "
    "table, spline inside; spline.integral(p,q) is modelled as G(q)-G(p), "
    "quad(spline(t)/t,p,q)[0] as L(q)-L(p), log(p/q) as log p - log q); the "
    "one-point case is checked under min_T=max_T. R05.2/3: the constructor "
    "derives everything from the sorted copy (no stale parameter), end "
    "values from index 0/-1. R05.4: spline order 1<=k<=min(3,N-1) by "
    "evaluating the order expression for N=2..64; N==1 uses the constant "
    "spline whose integral is c*(b-a). R05.5: one interpolant attribute. "
    "R05.6: the incomplete-data wrapper delegates to a ThermochemRawData "
    "built from its own fields in signature order, rebuilt only after the "
    "fields it reads are stored and (R05.8) rebuilt on every path of "
    "_setup_correlation on which heat-capacity data exist (no memo). R05.7: G/RT = H/RT - S/R.")
NOT_DECIDED = ("that scipy's spline interpolates the table and quad "
               "converges; numeric reproduction of reference values; "
               "floating-point error")
ASSUMPTIONS = [
    "scipy InterpolatedUnivariateSpline.integral(a,b) and quad(f,a,b)[0] are "
    "the definite integrals they document (additive over adjacent intervals)",
    "min_T <= max_T (the table is sorted by the constructor, rule R05.2)",
]

RAW = 'pgradd/ThermoChem/raw_data.py'
INC = 'pgradd/ThermoChem/incomplete.py'
BASE = 'pgradd/ThermoChem/base.py'
GDATA = 'pgradd/ThermoChem/group_data.py'


def A(name):
    return ('attr', SELF, name)


def rewrite(k, tname):
    """Replace integral/log atoms by antiderivative differences."""
    p = poly_of_key(k)
    out = Poly()
    for mono, c in p.terms.items():
        term = Poly.const(c)
        for a, e in mono:
            term = term * (rewrite_atom(a) ** e)
        out = out + term
    return out


def _is_spline_over_t(body):
    ts = terms(body)
    if len(ts) != 1 or ts[0][0] != 1:
        return False
    m = ts[0][1]
    want = {('bv', 'lam', 0): -1,
            ('call', A('spline'), (('bv', 'lam', 0),), ()): 1}
    return m == want


def rewrite_atom(a):
    # self.spline.integral(p, q) -> G(q) - G(p)
    if is_call(a) and a[1] == ('attr', A('spline'), 'integral') \
            and len(a[2]) == 2 and not a[3]:
        return Poly.atom(('G', a[2][1])) - Poly.atom(('G', a[2][0]))
    # integrate(lambda t: self.spline(t)/t, p, q)[0] -> L(q) - L(p)
    if a[0] == 'sub' and a[2] == ('num', Fraction(0)) and is_call(a[1]) \
            and a[1][1] in (('name', 'integrate'), ('name', 'quad')) \
            and len(a[1][2]) == 3 and a[1][2][0][0] == 'lambda' \
            and a[1][2][0][1] == 1 and _is_spline_over_t(a[1][2][0][2]):
        return Poly.atom(('L', a[1][2][2])) - Poly.atom(('L', a[1][2][1]))
    # np.log(monomial) -> sum e*LOG(atom)
    if is_call(a) and dotted_key(a[1]) in ('np.log', 'numpy.log', 'math.log',
                                           'log') and len(a[2]) == 1:
        ts = terms(a[2][0])
        if len(ts) == 1 and ts[0][0] == 1:
            out = Poly()
            for atom, e in ts[0][1].items():
                out = out + Poly.atom(('LOG', atom)) * Poly.const(e)
            return out
    return Poly.atom(a)


def subst(p, mapping):
    out = Poly()
    for mono, c in p.terms.items():
        term = Poly.const(c)
        for a, e in mono:
            term = term * (to_poly(poly_of_key(sym.rename(
                _sub_atom(a, mapping), {}))) ** e)
        out = out + term
    return out


def _sub_atom(a, mapping):
    if a in mapping:
        return mapping[a]
    if isinstance(a, tuple):
        return tuple(_sub_atom(x, mapping) if isinstance(x, tuple) else x
                     for x in a)
    return a


REPS = {False: {'min': 10, 'max': 20, 'lo': 5, 'mid': 15, 'hi': 25},
        True: {'min': 10, 'max': 10, 'lo': 5, 'hi': 15}}


def numeric(k, vals):
    if k in vals:
        return vals[k]
    if k[0] == 'num':
        return k[1]
    return None


def cond_value(k, vals):
    """Evaluate a comparison key numerically; None if not over the four
    temperature atoms."""
    if k[0] == 'cmp' and k[1] in ('<', '<='):
        x, y = numeric(k[2], vals), numeric(k[3], vals)
        if x is None or y is None:
            return None
        return x < y if k[1] == '<' else x <= y
    if k[0] == 'not':
        v = cond_value(k[1], vals)
        return None if v is None else not v
    if k[0] in ('and', 'or'):
        vs = [cond_value(x, vals) for x in k[1]]
        if any(v is None for v in vs):
            return None
        return all(vs) if k[0] == 'and' else any(vs)
    return None


def F(kind, region, x, degenerate):
    """Antiderivative of the piecewise Cp (kind 'H') or Cp/t (kind 'S')
    from min_T to x, for x in the given region."""
    mn, mx = Poly.atom(A('min_T')), Poly.atom(A('max_T'))
    cmin, cmax = Poly.atom(A('min_ND_Cp')), Poly.atom(A('max_ND_Cp'))
    X = Poly.atom(x)
    if kind == 'H':
        G = lambda v: Poly.atom(('G', v))
        lin = lambda c, p, q: c * (p - q)
        if region == 'lo':
            return lin(cmin, X, mn)
        if region == 'mid':
            return G(x) - G(A('min_T'))
        return G(A('max_T')) - G(A('min_T')) + lin(cmax, X, mx)
    else:
        L = lambda v: Poly.atom(('L', v))
        LOG = lambda v: Poly.atom(('LOG', v))
        if region == 'lo':
            return cmin * (LOG(x) - LOG(A('min_T')))
        if region == 'mid':
            return L(x) - L(A('min_T'))
        return L(A('max_T')) - L(A('min_T')) + cmax * (LOG(x)
                                                       - LOG(A('max_T')))


def check_integral_method(chk, repo, mname, kind):
    f = repo.func(RAW, 'ThermochemRawData.' + mname)
    tname = params(f)[1]
    Tk = ('name', tname)
    paths = sym.summarize(f)
    chk.need('R05.1', len(paths), 4, 'paths of ' + mname)
    n_feasible = 0
    for p in paths:
        if p.outcome[0] != 'return':
            chk.ob('R05.1', False, RAW, f, key='%s:nonreturn:%s' % (
                mname, p.outcome[0]), what='%s has a path that does not '
                   'return a value' % mname, found=p.describe())
            continue
        code = rewrite(p.outcome[1], tname)
        matched = False
        compatible = 0
        detail = []
        for deg in (False, True):
            reps = REPS[deg]
            regions = ['lo', 'hi'] if deg else ['lo', 'mid', 'hi']
            for ra in regions:
                for rb in regions:
                    vals = {A('min_T'): reps['min'], A('max_T'): reps['max'],
                            A('T_ref'): reps[ra],
                            Tk: reps[rb] + Fraction(1, 2)}
                    ok = True
                    for ck, pol in p.conds():
                        v = cond_value(ck, vals)
                        if v is not None and v != pol:
                            ok = False
                            break
                    if not ok:
                        continue
                    compatible += 1
                    if kind == 'H':
                        exp = (Poly.atom(A('ND_H_ref')) * Poly.atom(
                            A('T_ref')) + F('H', rb, Tk, deg)
                            - F('H', ra, A('T_ref'), deg)) \
                            * Poly.atom(Tk).inverse()
                    else:
                        exp = Poly.atom(A('ND_S_ref')) + F('S', rb, Tk, deg) \
                            - F('S', ra, A('T_ref'), deg)
                    c2, e2 = code, exp
                    if deg:
                        mp = {A('max_T'): A('min_T'),
                              A('max_ND_Cp'): A('min_ND_Cp')}
                        c2, e2 = subst(code, mp), subst(exp, mp)
                    diff = c2 - e2
                    if diff.terms:
                        detail.append('T_ref in %s, T in %s%s: code - '
                                      'required = %s' % (
                                          ra, rb, ' (one-point table)'
                                          if deg else '', show(diff)))
                    else:
                        matched = True
        if compatible == 0:
            chk.info('%s: infeasible path skipped: %s' % (mname,
                                                           p.describe()[:160]))
            continue
        n_feasible += 1
        condtxt = ';'.join(('' if pol else '!') + show(k)
                           for k, pol in p.conds())
        chk.ob('R05.1', not detail, RAW, f,
               key='%s:%s' % (mname, condtxt),
               what='%s returns the reference value plus the integral of the '
                    'piecewise Cp%s between T_ref and T on this path'
                    % (mname, '' if kind == 'H' else '/t'),
               found=show(p.outcome[1]) + ' || ' + ' | '.join(detail[:3]),
               required='(ND_H_ref*T_ref + F(T) - F(T_ref))/T' if kind == 'H'
               else 'ND_S_ref + Fs(T) - Fs(T_ref)')
    chk.need('R05.1', n_feasible, 9, 'feasible paths of ' + mname)


def check_cp(chk, repo):
    f = repo.func(RAW, 'ThermochemRawData.get_CpoR')
    tname = params(f)[1]
    Tk = ('name', tname)
    paths = sym.summarize(f)
    seen = set()
    for p in paths:
        if p.outcome[0] != 'return':
            chk.ob('R05.1', False, RAW, f, key='get_CpoR:nonreturn',
                   what='get_CpoR path without value', found=p.describe())
            continue
        v = p.outcome[1]
        # array dispatch
        if v == ('call', A('_get_CpoR_ar'), (Tk,), ()):
            seen.add('array')
            continue
        for rb in ('lo', 'mid', 'hi'):
            vals = {A('min_T'): 10, A('max_T'): 20, Tk: REPS[False][rb]}
            if all(cond_value(ck, vals) in (None, pol)
                   for ck, pol in p.conds()):
                want = {'lo': A('min_ND_Cp'), 'hi': A('max_ND_Cp'),
                        'mid': ('call', A('spline'), (Tk,), ())}[rb]
                seen.add(rb)
                chk.ob('R05.1', v == want, RAW, f, key='get_CpoR:' + rb,
                       what='Cp/R for T %s the table is %s' % (
                           {'lo': 'below', 'mid': 'inside',
                            'hi': 'above'}[rb], show(want)),
                       found=p.describe(), required=show(want))
    chk.ob('R05.1', {'lo', 'mid', 'hi'} <= seen, RAW, f,
           key='get_CpoR:regions', what='get_CpoR distinguishes below / '
                                        'inside / above the table',
           found=str(sorted(seen)))
    # array twin
    g = repo.func(RAW, 'ThermochemRawData._get_CpoR_ar')
    tn = params(g)[1]
    ps = sym.summarize(g)
    ok = len(ps) == 1
    found = ''
    if ok:
        st = dict((e[1], e[2]) for e in ps[0].stores())
        Tg = ('name', tn)
        below = ('cmp', '<', Tg, A('min_T'))
        above = ('cmp', '<', A('max_T'), Tg)
        found = '; '.join('%s := %s' % (show(a), show(b))
                          for a, b in st.items())
        arr = [t[1] for t in st if t[0] == 'sub']
        ok = len(set(arr)) == 1 and len(st) == 3
        if ok:
            base = arr[0]
            mids = [t for t in st if t[2] not in (below, above)]
            ok = (st.get(('sub', base, below)) == A('min_ND_Cp')
                  and st.get(('sub', base, above)) == A('max_ND_Cp')
                  and len(mids) == 1
                  and st[mids[0]] == ('call', A('spline'),
                                      (('sub', Tg, mids[0][2]),), ())
                  and ps[0].outcome == ('return', base))
            if ok:
                m = mids[0][2]
                alts = [sym.expr_key(
                    'np.logical_not(np.logical_or(%s < self.min_T, %s > '
                    'self.max_T))' % (tn, tn)),
                    sym.expr_key('np.logical_and(%s >= self.min_T, %s <= '
                                 'self.max_T)' % (tn, tn))]
                ok = m in alts
    chk.ob('R05.1', ok, RAW, g, key='_get_CpoR_ar',
           what='array evaluation assigns min/max/spline by the same three '
                'masks', found=found)


def check_constructor(chk, repo):
    f = repo.func(RAW, 'ThermochemRawData.__init__')
    ps = params(f)
    if len(ps) < 5:
        raise AnalysisError('ThermochemRawData.__init__ signature changed')
    hp, sp, tsp, cpp = ps[1], ps[2], ps[3], ps[4]
    # sorted copy
    sort_stmt = None
    for n in f.body:
        if isinstance(n, ast.Assign) and any(
                isinstance(c, ast.Call) and dotted(c.func) == 'sorted'
                for c in ast.walk(n.value)):
            sort_stmt = n
            break
    chk.ob('R05.2', sort_stmt is not None, RAW, f, key='sorted-copy',
           what='the constructor sorts the (T, Cp) pairs by temperature')
    if sort_stmt is None:
        return
    # the stored columns, from the path summaries (the sort and the split
    # into columns may be one statement or several)
    paths = sym.summarize(f)
    finals = {}
    for p in paths:
        for e in p.stores():
            if e[1][0] == 'attr' and e[1][1] == SELF:
                finals.setdefault(e[1][2], set()).add(e[2])
    alts = []
    for text in ('list(zip(*sorted(zip({t}, {c}), key=lambda q: q[0])))',
                 'list(zip(*sorted(zip({t}, {c}))))',
                 'zip(*sorted(zip({t}, {c}), key=lambda q: q[0]))',
                 'zip(*sorted(zip({t}, {c})))',
                 'tuple(zip(*sorted(zip({t}, {c}), key=lambda q: q[0])))',
                 'tuple(zip(*sorted(zip({t}, {c}))))'):
        alts.append(sym.expr_key(text.format(t=tsp, c=cpp)))

    def sole(attr):
        vs = finals.get(attr, set())
        return next(iter(vs)) if len(vs) == 1 else ('const', None)
    ts_val = sole('Ts')
    cp_val = sole('ND_Cps')
    ok = any(ts_val == ('sub', a, ('num', Fraction(0)))
             and cp_val == ('sub', a, ('num', Fraction(1))) for a in alts)
    chk.ob('R05.2', ok, RAW, sort_stmt, key='sorted-zip-by-T',
           what='self.Ts, self.ND_Cps are the columns of the pairs sorted by '
                'temperature', found='Ts=%s ; ND_Cps=%s' % (show(ts_val),
                                                           show(cp_val)))
    # stale parameter: Ts / ND_Cps not read after the sort
    stale = []
    for n in ast.walk(f):
        if isinstance(n, ast.Name) and n.id in (tsp, cpp) \
                and isinstance(n.ctx, ast.Load) \
                and n.lineno > sort_stmt.end_lineno:
            stale.append('%s@%d' % (n.id, n.lineno))
    chk.ob('R05.2', not stale, RAW, f, key='no-stale-parameter',
           what='after the sorted copy is stored the unsorted arguments are '
                'not read again', found=', '.join(stale))
    # endpoints
    sortedTs = ts_val
    sortedCps = cp_val
    want = {'min_T': ('sub', sortedTs, ('num', Fraction(0))),
            'max_T': ('sub', sortedTs, ('num', Fraction(-1))),
            'min_ND_Cp': ('sub', sortedCps, ('num', Fraction(0))),
            'max_ND_Cp': ('sub', sortedCps, ('num', Fraction(-1))),
            'ND_H_ref': ('name', hp), 'ND_S_ref': ('name', sp),
            'T_ref': ('name', ps[5]) if len(ps) > 5 else None}
    def unfwd(k):
        # a read of self.Ts / self.ND_Cps after an intervening call is the
        # same object: both are stored once, by the sort statement
        return _sub_atom(_sub_atom(k, {A('Ts'): sortedTs}),
                         {A('ND_Cps'): sortedCps})
    nstores = dict((a, sum(1 for n in ast.walk(f)
                           if isinstance(n, ast.Attribute) and n.attr == a
                           and isinstance(n.ctx, ast.Store)))
                   for a in ('Ts', 'ND_Cps'))
    chk.ob('R05.2', nstores == {'Ts': 1, 'ND_Cps': 1}, RAW, f,
           key='sorted-copy-stored-once',
           what='self.Ts and self.ND_Cps are stored exactly once',
           found=str(nstores))
    for attr, w in want.items():
        got = set(unfwd(g) for g in finals.get(attr, set()))
        chk.ob('R05.3', got == {w}, RAW, f, key='field:' + attr,
               what='self.%s is %s' % (attr, show(w)),
               found=' | '.join(show(g) for g in got) or 'never stored',
               required=show(w))
    # spline order: evaluated per path (a conditional expression and an
    # if/else statement are the same thing to the summariser)
    spl = set(unfwd(v) for v in finals.get('spline', set()))
    spl_paths = []
    for p in paths:
        for e in p.stores():
            if e[1] == A('spline'):
                spl_paths.append((p, unfwd(e[2])))
    npts = ('call', ('name', 'len'), (sortedTs,), ())
    const_ok = False
    order_found = ''
    interp = []
    for p, v in spl_paths:
        if is_call(v) and v[1] == ('name', 'ConstantSpline'):
            const_ok = v[2] == (('sub', sortedCps, ('num', Fraction(0))),)
        elif is_call(v) and v[1] == ('name',
                                     'InterpolatedUnivariateSpline'):
            kw = dict(v[3])
            kexpr = kw.get('k')
            if kexpr is None and len(v[2]) >= 5:
                kexpr = v[2][4]
            interp.append((p, v, kexpr,
                           v[2][:2] == (sortedTs, sortedCps)))
    order_ok = bool(interp) and all(x[3] and x[2] is not None
                                    for x in interp)
    if order_ok:
        for N in range(2, 65):
            env = {npts: N}
            n_feasible = 0
            for p, v, kexpr, _ in interp:
                feas = True
                for c, pol in p.conds():
                    t = eval_cond(unfwd(c), env)
                    if t is not None and t != pol:
                        feas = False
                if not feas:
                    continue
                n_feasible += 1
                kv = eval_int(kexpr, env)
                if kv is None or kv != min(3, N - 1):
                    order_ok = False
                    order_found = '%s -> k(%d)=%r' % (show(kexpr), N, kv)
            if not n_feasible:
                order_ok = False
                order_found = 'no interpolating spline for N=%d' % N
            if not order_ok:
                break
    chk.ob('R05.4', order_ok, RAW, f, key='spline-order',
           what='the interpolating spline is built on the sorted table with '
                'order min(3, N-1) for N>=2', found=order_found)
    chk.ob('R05.4', const_ok, RAW, f, key='one-point-constant',
           what='a one-point table uses the constant spline of that value',
           found=' | '.join(show(v) for v in spl))
    # the N==1 test guards the choice
    guard_ok = False
    for p in paths:
        for e in p.stores():
            if e[1] == A('spline') and is_call(e[2]) \
                    and e[2][1] == ('name', 'ConstantSpline'):
                guard_ok = any(
                    unfwd(a) == ('cmp', '==', tuple(sorted(
                        (npts, ('num', Fraction(1))), key=repr))) and v
                    for a, v in p.facts().items())
    chk.ob('R05.4', guard_ok, RAW, f, key='one-point-guard',
           what='the constant spline is chosen exactly when N == 1')
    # ConstantSpline
    ci = sym.summarize(repo.func(RAW, 'ConstantSpline.integral'))
    cp_ = params(repo.func(RAW, 'ConstantSpline.integral'))
    want_i = (Poly.atom(A('ND_Cp')) * (Poly.atom(('name', cp_[2]))
                                       - Poly.atom(('name', cp_[1])))).key()
    chk.ob('R05.4', len(ci) == 1 and ci[0].outcome == ('return', want_i),
           RAW, repo.func(RAW, 'ConstantSpline.integral'),
           key='constant-integral', what='ConstantSpline.integral(a,b) = '
                                         'c*(b-a)',
           found='; '.join(p.describe() for p in ci), required=show(want_i))
    cc = repo.func(RAW, 'ConstantSpline.__call__')
    cps = sym.summarize(cc)
    arg = params(cc)[1]
    want_c = (Poly.atom(A('ND_Cp')) * Poly.atom(
        ('call', ('attr', ('name', 'np'), 'ones_like'),
         (('name', arg),), ()))).key()
    chk.ob('R05.4', len(cps) == 1 and cps[0].outcome == ('return', want_c),
           RAW, cc, key='constant-call', what='ConstantSpline(t) = c '
                                              'everywhere',
           found='; '.join(p.describe() for p in cps))
    cinit = sym.summarize(repo.func(RAW, 'ConstantSpline.__init__'))
    ip = params(repo.func(RAW, 'ConstantSpline.__init__'))
    chk.ob('R05.4', len(cinit) == 1 and [
        (e[1], e[2]) for e in cinit[0].stores()] == [
            (A('ND_Cp'), ('name', ip[1]))], RAW,
        repo.func(RAW, 'ConstantSpline.__init__'), key='constant-init',
        what='ConstantSpline stores its value unchanged')
    # alias integrate = scipy quad
    ok = False
    for n in repo.mod(RAW).tree.body:
        if isinstance(n, ast.ImportFrom) and n.module == 'scipy.integrate':
            for a in n.names:
                if a.name == 'quad' and (a.asname or a.name) == 'integrate':
                    ok = True
    chk.ob('R05.5', ok, RAW, repo.mod(RAW).tree.body[0], key='integrate=quad',
           what='`integrate` is scipy.integrate.quad', qualname='<module>')
    # one interpolant attribute
    writers = []
    for m in repo.all_mods():
        for n in ast.walk(m.tree):
            if isinstance(n, ast.Attribute) and n.attr in (
                    'spline', 'min_T', 'max_T', 'min_ND_Cp', 'max_ND_Cp') \
                    and isinstance(n.ctx, (ast.Store, ast.Del)):
                fn = n
                while fn is not None and not isinstance(fn, ast.FunctionDef):
                    fn = getattr(fn, '_parent', None)
                if not (m.rel == RAW and fn is f):
                    writers.append('%s:%d .%s' % (m.rel, n.lineno, n.attr))
    chk.ob('R05.5', not writers, RAW, f, key='interpolant-sole-writer',
           what='the interpolant and the table ends are written only by the '
                'constructor', found=', '.join(writers))


def eval_int(k, env):
    """Tiny evaluator for the spline-order expression."""
    if k in env:
        return env[k]
    if k[0] == 'num':
        return int(k[1]) if k[1].denominator == 1 else None
    if k[0] == 'poly':
        tot = Fraction(0)
        for mono, c in k[1]:
            v = Fraction(c)
            for a, e in mono:
                x = eval_int(a, env)
                if x is None:
                    return None
                v *= Fraction(x) ** e
            tot += v
        return int(tot) if tot.denominator == 1 else None
    if k[0] == 'ifexp':
        t = eval_cond(k[1], env)
        if t is None:
            return None
        return eval_int(k[2] if t else k[3], env)
    if k[0] == 'call' and k[1] in (('name', 'min'), ('name', 'max')):
        vs = [eval_int(a, env) for a in k[2]]
        if any(v is None for v in vs):
            return None
        return min(vs) if k[1][1] == 'min' else max(vs)
    return None


def eval_cond(k, env):
    if k[0] == 'cmp' and k[1] in ('<', '<='):
        a, b = eval_int(k[2], env), eval_int(k[3], env)
        if a is None or b is None:
            return None
        return a < b if k[1] == '<' else a <= b
    if k[0] == 'cmp' and k[1] == '==':
        a, b = eval_int(k[2][0], env), eval_int(k[2][1], env)
        return None if a is None or b is None else a == b
    if k[0] == 'not':
        v = eval_cond(k[1], env)
        return None if v is None else not v
    return None


def rebuild_unconditional(chk, repo, rule, paths=None):
    """On every path of _setup_correlation with heat-capacity data the
    delegate is built anew from the current fields (a memo keyed on part of
    them serves an old table after update(overwrite=True), or old reference
    values after a merge that adds them); also used by C13."""
    setup = repo.func(INC, 'ThermochemIncomplete._setup_correlation')
    if paths is None:
        paths = sym.summarize(setup)
    stale = [p for p in paths if p.outcome[0] == 'return'
             and not p.says(('truthy', A('ND_Cp_data')), False)
             and not any(e[1] == A('_correlation') for e in p.stores())]
    chk.ob(rule, not stale, INC, setup, key='rebuild-unconditional',
           what='_setup_correlation builds the delegate anew on every path '
                'on which heat-capacity data exist (no early return, no '
                'memo)',
           found='; '.join(p.describe()[:160] for p in stale)[:500])
    from .. import reviewed as _rv
    _rv.check(chk, rule, repo, INC,
              'ThermochemIncomplete._setup_correlation',
              'ThermochemIncomplete._setup_correlation is unchanged in '
              'normal form from its reviewed reference (old delegate '
              'dropped, new one built from the current fields whenever '
              'heat-capacity data exist)')


def check_wrapper(chk, repo, rule_delegate='R05.6'):
    # signature order of the table correlation
    raw_init = repo.func(RAW, 'ThermochemRawData.__init__')
    sig = params(raw_init)[1:]
    setup = repo.func(INC, 'ThermochemIncomplete._setup_correlation')
    paths = sym.summarize(setup)
    built = []
    for p in paths:
        for e in p.stores():
            if e[1] == A('_correlation'):
                built.append((p, e[2]))
    chk.need(rule_delegate, len(built), 1, 'constructions of the delegate '
                                     'correlation')
    exp_pair = ('call', A('_expand_ND_Cp_data'), (A('ND_Cp_data'),), ())
    for p, v in built:
        def orzero(attr, p=p):
            isnone = ('cmp', 'is', A(attr), ('const', None))
            if p.says(isnone, False):
                return A(attr)
            if p.says(isnone, True):
                return ('num', Fraction(0))
            return ('ifexp', ('not', isnone), A(attr), ('num', Fraction(0)))
        want_args = (orzero('ND_H_ref'), orzero('ND_S_ref'),
                     ('sub', exp_pair, ('num', Fraction(0))),
                     ('sub', exp_pair, ('num', Fraction(1))),
                     A('T_ref'), ('call', A('get_range'), (), ()))
        want_alt = want_args[:5] + (A('range'),)
        ok = (is_call(v) and v[1] == ('name', 'ThermochemRawData')
              and not v[3] and v[2] in (want_args, want_alt)
              and sig[:6] == ['ND_H_ref', 'ND_S_ref', 'Ts', 'ND_Cps',
                              'T_ref', 'range'])
        chk.ob(rule_delegate, ok, INC, setup, key='delegate-args',
               what='the delegate is ThermochemRawData(H_ref or 0, S_ref or '
                    '0, sorted Ts, sorted Cps, T_ref, range) in signature '
                    'order', found=show(v),
               required='ThermochemRawData%s' % (tuple(sig),))
        chk.ob(rule_delegate, p.says(('truthy', A('ND_Cp_data')), True), INC,
               setup,
               key='delegate-only-with-Cp',
               what='the delegate is built only when heat-capacity data '
                    'exist', found=p.describe()[:200])
    rebuild_unconditional(chk, repo, 'R05.8', paths)
    ex = repo.func(INC, 'ThermochemIncomplete._expand_ND_Cp_data')
    dp = params(ex)[1]
    eps = sym.summarize(ex)
    alts = [sym.expr_key(t.format(d=dp)) for t in (
        'list(zip(*sorted(list({d}.items()), key=lambda item: item[0])))',
        'list(zip(*sorted({d}.items(), key=lambda item: item[0])))',
        'list(zip(*sorted({d}.items())))',
        'list(zip(*sorted(list({d}.items()))))')]
    ok = True
    for p in eps:
        if p.outcome[0] != 'return':
            ok = False
        elif p.says(('truthy', ('name', dp)), False):
            ok = ok and p.outcome[1] == ('tuple', (('list', ()),
                                                   ('list', ())))
        else:
            ok = ok and p.outcome[1] in alts
    chk.ob(rule_delegate, ok and len(eps) == 2, INC, ex, key='expand-sorted',
           what='the Cp mapping expands to (Ts, Cps) sorted by temperature',
           found='; '.join(p.describe() for p in eps)[:400])
    # delegation of get_X on the with-data branch
    for mname in ('get_CpoR', 'get_HoRT', 'get_SoR'):
        f = repo.func(INC, 'ThermochemIncomplete.' + mname)
        tn = params(f)[1]
        want = ('call', ('attr', A('_correlation'), mname),
                (('name', tn),), ())
        rets = [p for p in sym.summarize(f) if p.outcome[0] == 'return'
                and p.says(('truthy', A('ND_Cp_data')), True)]
        chk.need(rule_delegate, len(rets), 1, 'with-data return of ' + mname)
        for p in rets:
            chk.ob(rule_delegate, p.outcome[1] == want, INC, f,
                   key='delegates:' + mname,
                   what='with heat-capacity data %s is the table '
                        'correlation\'s %s at the same T' % (mname, mname),
                   found=p.describe()[:300], required=show(want))
    # rebuild after the fields it reads are stored (R05.8)
    reads = set()
    for n in ast.walk(setup):
        if isinstance(n, ast.Attribute) and dotted(n.value) == 'self' \
                and isinstance(n.ctx, ast.Load):
            reads.add(n.attr)
    # get_range() reads self.range (through set_range in update)
    reads.add('range')
    cls = repo.cls(INC, 'ThermochemIncomplete')
    ncalls = 0
    for fn in cls.body:
        if not isinstance(fn, ast.FunctionDef) or fn is setup:
            continue
        calls = [c for c in ast.walk(fn) if isinstance(c, ast.Call)
                 and dotted(c.func) == 'self._setup_correlation']
        for c in calls:
            ncalls += 1
            late = []
            for n in ast.walk(fn):
                if isinstance(n, ast.Attribute) and dotted(n.value) == 'self'\
                        and isinstance(n.ctx, (ast.Store, ast.Del)) \
                        and n.attr in reads and n.lineno > c.lineno:
                    late.append('self.%s@%d' % (n.attr, n.lineno))
                if isinstance(n, ast.Call) and dotted(n.func) in (
                        'self.set_range', 'ThermochemBase.__init__') \
                        and n.lineno > c.lineno:
                    late.append('%s@%d' % (dotted(n.func), n.lineno))
            chk.ob('R05.8', not late, INC, c,
                   key='rebuild-after-stores:' + fn.name,
                   what='%s rebuilds the delegate only after every field the '
                        'rebuild reads has been stored' % fn.name,
                   found=', '.join(late))
    chk.need('R05.8', ncalls, 3, 'calls of _setup_correlation')


def run(chk, repo, tier):
    check_integral_method(chk, repo, 'get_HoRT', 'H')
    check_integral_method(chk, repo, 'get_SoR', 'S')
    check_cp(chk, repo)
    check_constructor(chk, repo)
    check_wrapper(chk, repo)
    check_gort(chk, repo, rule='R05.7')
    # G/RT = H/RT - S/R is computed by an inherited method that calls
    # self.get_SoR(T, S_elements=...): every correlation class must accept it
    from .. import sweeps
    sweeps.override_compat(chk, repo, 'R05.9', rels=[BASE, RAW, INC, GDATA],
                           minimum=20)
    # the wrapper's three evaluators as a whole (which datum is required,
    # when the table correlation is consulted, what its range error becomes)
    from .. import reviewed as _rv
    for mname in ('get_CpoR', 'get_HoRT', 'get_SoR'):
        _rv.check(chk, 'R05.6', repo, INC, 'ThermochemIncomplete.' + mname,
                  'ThermochemIncomplete.%s is unchanged in normal form from '
                  'its reviewed reference (reference value at T_ref without '
                  'heat-capacity data, delegate with them)' % mname)


"""C14 -- every shipped database loads, is self-consistent and relocatable."""
import ast
import math
from fractions import Fraction

import numpy as np

from .. import sym, refcmp, reviewed, grammar_ir, dims, shapes
from ..match import params
from ..effects import FuncEffects, describe
from ..source import AnalysisError, dotted, src
from ..datafiles import libraries, canonical_group
from . import c10, c12, c13, c20

EXPLANATION = (
    "An exhaustive static audit of the nine shipped databases against "
    "their own cross-references and the current grammar, plus code rules. "
    "D14.1: include targets exist and the include graph is acyclic. D14.2: "
    "every connectivity string is in the language of the current enhanced "
    "grammar (PEG recogniser over the lifted IR), uses only literals with "
    "reader handlers and real element symbols, and bonds only to declared "
    "labels. D14.3: remaps have the form name -> [[number, name], ...], "
    "group-like names are canonical, and no target is itself a source "
    "(chain-free). D14.4: no two entries of one file share a canonical "
    "name. D14.5: every uncertainty basis descriptor names an entry with "
    "data; the matrix is square, sized to the basis, symmetric and positive "
    "semi-definite (eigenvalues of the literal). D14.6: every correlation "
    "record uses schema keys, its quantities parse to the kind's dimension, "
    "its range contains T_ref and all tabulated temperatures, temperatures "
    "are distinct, values finite. R14.1: the builtin-name-versus-path "
    "predicate is identical at its three sites and every builtin path "
    "derives from get_data_dir(). R14.2: get_data_dir reads the environment "
    "override first and assigns its cache once, after the directory test. "
    "R14.3: Scheme.Load reads the file it is given on every call (no "
    "cache), compiles both pattern lists through Read, and the loader "
    "stores the uncertainty block as read. R14.4: the evaluators raise "
    "under the reviewed conditions. R14.5: for a scalar temperature the "
    "table correlation returns a plain number (no array helper, no numpy "
    "constructor on that branch).")
NOT_DECIDED = ("that evaluation of every group yields finite numbers "
               "across its range (needs the spline); behaviour of os.path "
               "on exotic paths")
ASSUMPTIONS = ["PyYAML safe loading of the shipped files",
               "numpy.linalg.eigvalsh on the literal matrices",
               "the unit evaluator decided in C10"]

LIB = 'pgradd/GroupAdd/Library.py'
SCH = 'pgradd/GroupAdd/Scheme.py'
DD = 'pgradd/GroupAdd/DataDir.py'
INC = 'pgradd/ThermoChem/incomplete.py'

ELEMENTS = set("""H He Li Be B C N O F Ne Na Mg Al Si P S Cl Ar K Ca Sc Ti V
Cr Mn Fe Co Ni Cu Zn Ga Ge As Se Br Kr Rb Sr Y Zr Nb Mo Tc Ru Rh Pd Ag Cd In
Sn Sb Te I Xe Cs Ba La Ce Pr Nd Pm Sm Eu Gd Tb Dy Ho Er Tm Yb Lu Hf Ta W Re
Os Ir Pt Au Hg Tl Pb Bi Po At Rn Fr Ra Ac Th Pa U Np Pu Am Cm Bk Cf Es Fm Md
No Lr Rf Db Sg Bh Hs Mt Ds Rg Cn Nh Fl Mc Lv Ts Og""".split())

SUPPORTED_BOOLEAN = {'!'}


def walk_tree(t):
    yield t
    for c in t[1:]:
        if isinstance(c, list):
            for x in walk_tree(c):
                yield x


def audit_pattern(tree):
    """Semantic checks the readers would make, on the recogniser's tree."""
    problems = []
    labels = []
    bonds = set()
    for node in walk_tree(tree):
        name = node[0]
        if name == 'Symbols':
            s = node[1]
            if s in ('any atom', '$', 'heteroatom', '&', 'heavy atom', 'X',
                     'M'):
                continue
            sym_ = s[0].upper() + s[1:] if s[0].islower() else s
            if sym_ not in ELEMENTS:
                problems.append('unknown element %r' % s)
        elif name == 'Boolean':
            if node[1] not in SUPPORTED_BOOLEAN:
                problems.append('unsupported boolean %r' % node[1])
        elif name in ('Atom', 'BondedAtom'):
            lab = [c for c in node[1:] if isinstance(c, list)
                   and c[0] == 'AtomLabel']
            if name == 'BondedAtom':
                if len(lab) == 2 and lab[1][1] not in labels:
                    problems.append('bond to undeclared label %r'
                                    % lab[1][1])
                if len(lab) == 2:
                    bonds.add(frozenset((lab[0][1], lab[1][1])))
            if lab:
                labels.append(lab[0][1])
        elif name == 'RingBond':
            labs = [c[1] for c in node[1:] if isinstance(c, list)
                    and c[0] == 'AtomLabel']
            for lb in labs:
                if lb not in labels:
                    problems.append('ring bond to undeclared label %r' % lb)
            if len(labs) == 2:
                pair = frozenset(labs)
                if len(pair) == 1:
                    problems.append('ring bond from %r to itself' % labs[0])
                elif pair in bonds:
                    problems.append('ring bond repeats the bond %s'
                                    % sorted(pair))
                bonds.add(pair)
        elif name == 'StereoDoubleBond':
            for c in node[1:]:
                if isinstance(c, list) and c[0] == 'AtomLabel' \
                        and c[1] not in labels:
                    problems.append('stereo bond with undeclared label %r'
                                    % c[1])
        elif name == 'GroupName':
            problems.append('group name in an atom constraint (no groups '
                            'are supplied when schemes are loaded)')
    return problems


def to_kelvin(db, v, default_unit):
    """Magnitude in K of a temperature given as number (file default unit)
    or 'value unit' text; None if it does not parse to a temperature."""
    try:
        if isinstance(v, bool):
            return None
        if isinstance(v, (int, float)):
            if default_unit is None:
                return None
            q = db.eval(str(default_unit))
            q = dims.Q(Fraction(repr(float(v))) * q.mag, q.dim)
        else:
            q = db.eval(str(v))
        K = db.eval('K')
        if tuple(q.dim) != tuple(K.dim):
            return None
        return float(q.mag)
    except (dims.UnitSyntaxError, ValueError, ZeroDivisionError):
        return None


def unit_db(repo):
    db = dims.DB()
    base, derived, other, prefixes = c10.lift_tables(repo)
    for name, mult, prim in base:
        db.units[name] = dims.Q.base(prim, Fraction(repr(float(mult))))
    for name, text in list(derived) + list(other):
        try:
            db.units[name] = db.eval(text)
        except dims.UnitSyntaxError:
            pass
    return db


def run(chk, repo, tier):
    libs = libraries(repo.root)
    chk.need('D14.1', len(libs), 9, 'shipped libraries')
    strict, g = grammar_ir.load(repo)
    rec = grammar_ir.Recognizer(g)
    db = unit_db(repo)
    schema, _ = c12.schema_of(repo)
    kq = dict((k, db.eval(u)) for k, u in c12.KIND_UNIT.items())
    npat = nrec = nremap = 0
    zero_refs = []
    for lib in libs:
        rel_lib = lib.rel(lib.library_path)
        # ---- D14.1 ------------------------------------------------------
        chk.ob('D14.1', not lib.missing and lib.cycle is None, rel_lib, None,
               key='includes:' + lib.name, qualname='include',
               what='%s: every include target exists and the include graph '
                    'is acyclic (%d files)' % (lib.name, len(lib.files)),
               found='missing %s; cycle %s' % (lib.missing, lib.cycle))
        # ---- D14.2 ------------------------------------------------------
        bad = []
        for sec, i, name, text in lib.patterns():
            npat += 1
            if not isinstance(text, str):
                bad.append('%s[%d] %s: connectivity is not text' % (
                    sec, i, name))
                continue
            try:
                tree, j = rec.parse(text)
            except grammar_ir.Fail as exc:
                bad.append('%s[%d] %s: %s' % (sec, i, name, exc))
                continue
            for pr in audit_pattern(tree):
                bad.append('%s[%d] %s: %s' % (sec, i, name, pr))
        for i, p in enumerate(lib.scheme.get('patterns') or []):
            for k in ('center_name', 'periph_name', 'connectivity'):
                if not isinstance(p.get(k), str):
                    bad.append('patterns[%d] lacks %s' % (i, k))
        for i, p in enumerate(lib.scheme.get('other_descriptors') or []):
            for k in ('name', 'connectivity'):
                if not isinstance(p.get(k), str):
                    bad.append('other_descriptors[%d] lacks %s' % (i, k))
        chk.ob('D14.2', not bad, lib.rel(lib.scheme_path), None,
               key='patterns-readable:' + lib.name, qualname='patterns',
               what='%s: every pattern is in the current RING language with '
                    'known elements, supported operators and declared '
                    'labels' % lib.name, found='; '.join(bad[:6]))
        # ---- D14.3 ------------------------------------------------------
        remaps = lib.scheme.get('remaps') or {}
        bad = []
        for src_name, targets in remaps.items():
            nremap += 1
            if not isinstance(targets, list) or not targets:
                bad.append('%s: not a list of entries' % src_name)
                continue
            for ent in targets:
                if not (isinstance(ent, list) and len(ent) == 2
                        and isinstance(ent[0], (int, float))
                        and not isinstance(ent[0], bool)
                        and isinstance(ent[1], str)):
                    bad.append('%s: entry %r is not [number, name]'
                               % (src_name, ent))
                    continue
                if ent[1] in remaps:
                    bad.append('%s -> %s is itself remapped (chain)'
                               % (src_name, ent[1]))
                if not math.isfinite(float(ent[0])):
                    bad.append('%s: non-finite factor' % src_name)
            if '(' in src_name and canonical_group(src_name) != src_name:
                chk.ob('D14.3', False, lib.rel(lib.scheme_path), None,
                       key='remap-source-not-canonical:%s:%s' % (lib.name,
                                                                 src_name),
                       qualname='remaps',
                       what='%s: remap source %r is not a canonical group '
                            'name (canonical: %s), so it can never match a '
                            'decomposed group' % (lib.name, src_name,
                                                  canonical_group(src_name)))
        chk.ob('D14.3', not bad, lib.rel(lib.scheme_path), None,
               key='remaps:' + lib.name, qualname='remaps',
               what='%s: remaps are well-formed, canonical and chain-free '
                    '(%d sources)' % (lib.name, len(remaps)),
               found='; '.join(bad[:6]))
        # ---- D14.4 / D14.6 ------------------------------------------------
        all_names = set()
        for path, data in lib.files.items():
            rel = lib.rel(path)
            seen = {}
            dup = []
            for sec in ('groups', 'other_descriptors'):
                for name in (data.get(sec) or {}):
                    cn = canonical_group(str(name)) if sec == 'groups' \
                        else str(name)
                    if cn in seen:
                        dup.append('%s and %s' % (seen[cn], name))
                    seen[cn] = name
                    all_names.add(cn)
            if data.get('groups') or data.get('other_descriptors'):
                chk.ob('D14.4', not dup, rel, None, key='unique-names:' + rel,
                       qualname='groups',
                       what='%s: no two entries share a canonical name'
                            % rel, found='; '.join(dup[:5]))
            units = data.get('units') or {}
            bad = []
            for sec in ('groups', 'other_descriptors'):
                for name, recd in (data.get(sec) or {}).items():
                    if not isinstance(recd, dict):
                        bad.append('%s: record is not a mapping' % name)
                        continue
                    for pset, tc in recd.items():
                        if pset != 'thermochem':
                            bad.append('%s: unknown property set %r'
                                       % (name, pset))
                            continue
                        nrec += 1
                        bad += ['%s: %s' % (name, x) for x in audit_record(
                            tc or {}, schema, units, db, kq, zero_refs,
                            '%s:%s' % (rel, name))]
            if data.get('groups') or data.get('other_descriptors'):
                chk.ob('D14.6', not bad, rel, None, key='records:' + rel,
                       qualname='groups',
                       what='%s: every correlation record is well-formed '
                            'and its range contains T_ref and its table'
                            % rel, found='; '.join(bad[:6]))
        # ---- D14.5 ------------------------------------------------------
        for rel, u in lib.uq_blocks():
            bad = []
            icm = u.get('InvCovMat') or {}
            basis = icm.get('groups') or []
            mat = icm.get('mat')
            for b in basis:
                # the estimator looks the basis string up among the library
                # keys: it matches a key only if it equals the key's name
                # (canonical for groups, verbatim for other descriptors)
                if str(b) not in all_names:
                    chk.ob('D14.5', False, rel, None,
                           key='basis-without-data:%s:%s' % (lib.name, b),
                           qualname='UQ',
                           what='%s: uncertainty-basis descriptor %r names '
                                'no entry with data in that library'
                                % (lib.name, b))
            if len(set(basis)) != len(basis):
                bad.append('basis lists a descriptor twice')
            try:
                M = np.array(mat, dtype=float)
                if M.ndim != 2 or M.shape[0] != M.shape[1]:
                    bad.append('matrix shape %s is not square' % (M.shape,))
                elif M.shape[0] != len(basis):
                    bad.append('matrix is %dx%d but the basis has %d '
                               'descriptors' % (M.shape + (len(basis),)))
                else:
                    if not np.all(np.isfinite(M)):
                        bad.append('non-finite matrix entries')
                    asym = float(np.max(np.abs(M - M.T)))
                    scale = float(np.max(np.abs(M))) or 1.0
                    if asym > 1e-6 * scale:
                        bad.append('not symmetric (max |M-M^T| = %g)' % asym)
                    else:
                        ev = np.linalg.eigvalsh((M + M.T) / 2)
                        if ev.min() < -1e-6 * max(1.0, float(np.trace(M))):
                            bad.append('not positive semi-definite '
                                       '(smallest eigenvalue %g)' % ev.min())
            except (TypeError, ValueError) as exc:
                bad.append('matrix is not numeric: %s' % exc)
            dof = u.get('DOF')
            if not (isinstance(dof, (int, float)) and dof > 0):
                bad.append('DOF %r is not a positive number' % (dof,))
            rm = (u.get('RMSE') or {}).get('thermochem')
            if not isinstance(rm, dict):
                bad.append('RMSE.thermochem missing')
            else:
                bad += ['RMSE: ' + x for x in audit_record(
                    rm, schema, {}, db, kq, [], rel + ':RMSE')]
            chk.ob('D14.5', not bad, rel, None, key='uq:' + rel,
                   qualname='UQ',
                   what='%s: basis names entries with data; matrix square, '
                        'sized to the basis, symmetric, PSD' % rel,
                   found='; '.join(bad[:6]))
    chk.need('D14.2', npat, 450, 'pattern strings')
    chk.need('D14.6', nrec, 500, 'correlation records')
    chk.extra.update({'patterns_audited': npat, 'records_audited': nrec,
                      'remap_sources': nremap})
    chk.exhaustive = True
    chk.info('D14.7 records whose reference value is literally zero: %s'
             % ', '.join(zero_refs[:20]))
    code_rules(chk, repo)


def audit_record(tc, schema, units, db, kq, zero_refs, where):
    bad = []
    for k in tc:
        if k not in schema:
            bad.append('key %r is not in the schema' % k)
    tdef = units.get('temperature')

    def qty_ok(v, kind):
        if v is None:
            return True
        if isinstance(v, bool):
            return False
        if isinstance(v, (int, float)):
            return kind in units and math.isfinite(float(v))
        try:
            q = db.eval(str(v))
        except (dims.UnitSyntaxError, ValueError, ZeroDivisionError):
            return False
        return tuple(q.dim) == tuple(kq[kind].dim)
    for key, kind in (('H_ref', 'molar enthalpy'),
                      ('S_ref', 'molar entropy')):
        if key in tc:
            if not qty_ok(tc[key], kind):
                bad.append('%s = %r is not a %s (or no default unit)'
                           % (key, tc[key], kind))
            if isinstance(tc[key], (int, float)) and tc[key] == 0:
                zero_refs.append('%s.%s' % (where, key))
    for key in ('ND_H_ref', 'ND_S_ref'):
        if tc.get(key) is not None and not (
                isinstance(tc[key], (int, float)) and math.isfinite(
                    float(tc[key]))):
            bad.append('%s = %r is not a finite number' % (key, tc[key]))
    if 'H_ref' in tc and tc.get('ND_H_ref') is not None:
        bad.append('both H_ref and ND_H_ref')
    tref = tc.get('T_ref', '298.15 K')
    tr = to_kelvin(db, tref, tdef)
    if tr is None:
        bad.append('T_ref %r is not a temperature' % (tref,))
    temps = []
    for key, kind in (('Cp_data', 'molar heat capacity'),
                      ('ND_Cp_data', None)):
        rows = tc.get(key)
        if rows is None:
            continue
        if not isinstance(rows, list):
            bad.append('%s is not a list' % key)
            continue
        for row in rows:
            if not (isinstance(row, list) and len(row) == 2):
                bad.append('%s row %r is not a pair' % (key, row))
                continue
            t = to_kelvin(db, row[0], tdef)
            if t is None:
                bad.append('%s temperature %r does not parse' % (key,
                                                                 row[0]))
            else:
                temps.append(t)
            if kind and not qty_ok(row[1], kind):
                bad.append('%s value %r is not a %s' % (key, row[1], kind))
            if not kind and not (isinstance(row[1], (int, float))
                                 and math.isfinite(float(row[1]))):
                bad.append('%s value %r is not a finite number' % (key,
                                                                   row[1]))
    if tc.get('Cp_data') and tc.get('ND_Cp_data'):
        bad.append('both Cp_data and ND_Cp_data')
    if len(set(temps)) != len(temps):
        bad.append('a temperature is tabulated twice')
    if any(t <= 0 for t in temps) or (tr is not None and tr <= 0):
        bad.append('non-positive temperature')
    rng = tc.get('range')
    if rng is not None:
        if not (isinstance(rng, list) and len(rng) == 2):
            bad.append('range %r is not a pair' % (rng,))
        else:
            lo, hi = to_kelvin(db, rng[0], tdef), to_kelvin(db, rng[1], tdef)
            if lo is None or hi is None:
                bad.append('range %r does not parse' % (rng,))
            else:
                if lo > hi:
                    bad.append('range is reversed')
                if tr is not None and not (lo <= tr <= hi):
                    bad.append('T_ref %g K outside range [%g, %g]' % (tr, lo,
                                                                      hi))
                out = [t for t in temps if not (lo <= t <= hi)]
                if out:
                    bad.append('table temperatures %s outside range' % out)
    elif temps and tr is not None:
        if not (min(temps) <= tr <= max(temps)):
            bad.append('no range given and T_ref %g K outside the table '
                       'span [%g, %g]' % (tr, min(temps), max(temps)))
    return bad


PRED = "os.sep not in path and '.' not in path and not os.path.exists(path)"


def code_rules(chk, repo):
    # ---- R14.1 ----------------------------------------------------------
    sites = [(LIB, 'GroupLibrary.Load'), (LIB, 'GroupLibrary._Load'),
             (SCH, 'GroupAdditivityScheme.Load')]
    want = sym.expr_key(PRED)
    for rel, q in sites:
        f = repo.func(rel, q)
        pp = params(f)[1]
        ifs = [n for n in f.body if isinstance(n, ast.If)]
        ok = bool(ifs)
        found = ''
        if ok:
            k = sym.Evaluator(record_calls=False).k(ifs[0].test, sym.State())
            k = sym.rename(k, {'name:' + pp: 'path'})
            ok = sym.as_bool(k) == sym.as_bool(want)
            found = src(ifs[0].test)
            if ok:
                # builtin branch derives from get_data_dir()
                body = ifs[0].body
                first = body[0] if body else None
                ok = isinstance(first, ast.Assign) and src(
                    first.value).replace(' ', '') == \
                    'os.path.join(get_data_dir(),%s)' % pp
                found = src(first) if first is not None else ''
        chk.ob('R14.1', ok, rel, f, key='name-vs-path:' + q,
               what='%s: a bare name (no separator, no dot, not an existing '
                    'path) is looked up under get_data_dir(); the same '
                    'predicate at all three sites' % q, found=found)
    for rel, q in ((LIB, 'GroupLibrary.Load'), (LIB, 'GroupLibrary._Load'),
                   (LIB, 'GroupLibrary._do_load'),
                   (SCH, 'GroupAdditivityScheme.Load'),
                   (SCH, 'GroupAdditivityScheme.__init__')):
        reviewed.check(chk, 'R14.1' if q != 'GroupLibrary._do_load'
                       else 'R14.3', repo, rel, q,
                       '%s is unchanged in normal form from its reviewed '
                       'reference' % q)
    # ---- R14.2 ----------------------------------------------------------
    gd = repo.func(DD, 'get_data_dir')
    reviewed.check(chk, 'R14.2', repo, DD, 'get_data_dir',
                   'get_data_dir is unchanged in normal form from its '
                   'reviewed reference')
    paths = sym.summarize(gd)
    cache = ('name', '_data_dir_cached')
    ok = True
    found = []
    nset = 0
    for p in paths:
        if p.outcome[0] != 'return':
            continue
        if p.says(('truthy', cache), True):
            ok = ok and p.outcome[1] == cache and not [
                e for e in p.trace if e[0] in ('store',)]
            continue
        # cache empty: environment first
        calls = [sym.Evaluator()._call_name(c[1]) for c in p.calls()]
        if 'os.getenv' not in calls:
            ok = False
            found.append('no environment lookup')
        elif 'os.path.isdir' not in calls or calls.index(
                'os.getenv') > calls.index('os.path.isdir'):
            ok = False
            found.append('directory test before the environment lookup')
        nset += 1
    assigns = [n for n in ast.walk(gd) if isinstance(n, ast.Assign)
               and any(isinstance(t, ast.Name) and t.id == '_data_dir_cached'
                       for t in n.targets)]
    isdirs = [n for n in ast.walk(gd) if isinstance(n, ast.If)
              and 'os.path.isdir' in src(n.test)]
    ok = ok and len(assigns) == 1 and len(isdirs) == 1 and \
        assigns[0].lineno > isdirs[0].end_lineno
    g_decl = [n for n in ast.walk(gd) if isinstance(n, ast.Global)]
    ok = ok and g_decl and '_data_dir_cached' in g_decl[0].names
    chk.ob('R14.2', ok and nset >= 1, DD, gd, key='datadir-cache',
           what='the environment override is read before the package '
                'fallback; the cache is assigned once, after the directory '
                'test, and returned unchanged afterwards',
           found='; '.join(found))
    env = repo.module_assign(DD, '_data_dir_envvar')
    chk.ob('R14.2', isinstance(env, ast.Constant)
           and env.value == 'pgradd_DATA_DIR', DD, env, key='envvar-name',
           qualname='<module>', what='the override variable is '
                                     'pgradd_DATA_DIR')
    # ---- R14.3 ----------------------------------------------------------
    sl = repo.func(SCH, 'GroupAdditivityScheme.Load')
    reads = [n for n in ast.walk(sl) if isinstance(n, ast.Call)
             and dotted(n.func) == 'Read']
    secs = set()
    for r in reads:
        t = src(r)
        for sec in ('patterns', 'other_descriptors'):
            if "scheme_data['%s'][i]['connectivity']" % sec in t:
                secs.add(sec)
    chk.ob('R14.3', secs == {'patterns', 'other_descriptors'}, SCH, sl,
           key='compiles-both-lists',
           what='Scheme.Load compiles the connectivity of every pattern and '
                'of every correction descriptor through Read',
           found=str(sorted(secs)))
    muts = [m for m in FuncEffects(sl).persistent_mutations()
            if any(r == 'cls' or r.startswith('global:') for r in m[3])]
    chk.ob('R14.3', not muts, SCH, sl, key='no-load-cache',
           what='Scheme.Load keeps no cache (the same relative path names '
                'different files from different directories)',
           found='; '.join(describe(m) for m in muts))
    state = [src(s_)[:50] for s_ in repo.cls(
        SCH, 'GroupAdditivityScheme').body if isinstance(s_, ast.Assign)]
    chk.ob('R14.3', not state, SCH, repo.cls(SCH, 'GroupAdditivityScheme'),
           key='no-class-state', qualname='GroupAdditivityScheme',
           what='the scheme class has no class-level state',
           found='; '.join(state))
    # uncertainty block stored as read (shared with C20)
    dl = repo.func(LIB, 'GroupLibrary._do_load')
    stores = {}
    for p in sym.summarize(dl):
        for e in p.trace:
            if e[0] == 'store' and e[1][0] == 'sub' \
                    and e[1][2][0] == 'const':
                stores.setdefault(e[1][2][1], set()).add(e[2])
    mats = stores.get('mat', set())
    def from_file(m):
        a = m[2][0] if m[0] == 'call' and len(m[2]) == 1 else None
        return (a is not None and a[0] == 'sub' and a[2] == ('const', 'mat')
                and a[1][0] == 'sub' and a[1][2] == ('const', 'InvCovMat')
                and a[1][1][0] == 'attr' and a[1][1][2] == 'UQ')
    okm = len(mats) == 1 and all(
        m[0] == 'call' and sym.Evaluator()._call_name(m[1]) in (
            'np.array', 'numpy.array') and from_file(m) for m in mats)
    chk.ob('R14.3', okm, LIB, dl, key='matrix-as-read',
           what='the stored uncertainty matrix is np.array of the file\'s '
                'InvCovMat.mat, unchanged',
           found=' | '.join(sym.show(m)[:100] for m in mats))
    # correlations split over files: the merge commits every field and
    # rebuilds the correlation unconditionally, last
    upd = repo.func(INC, 'ThermochemIncomplete.update')
    tail = upd.body[-6:]
    want = ['self.set_range(', 'self.T_ref =', 'self.ND_H_ref =',
            'self.ND_S_ref =', 'self.ND_Cp_data =',
            'self._setup_correlation()']
    texts = [src(t) for t in tail]
    ok = len(tail) == 6 and all(
        any(tx.startswith(w) for tx in texts) for w in want) and \
        texts[-1] == 'self._setup_correlation()'
    chk.ob('R14.3', ok, INC, upd, key='merge-commits-and-rebuilds',
           what='merging data split over two files ends by storing range, '
                'T_ref, H, S and the Cp table and then rebuilding the '
                'correlation, all unconditionally',
           found=' ; '.join(t[:40] for t in texts))
    # basis stored as read (shared with C20)
    descs = stores.get('descriptors', set())
    okd = len(descs) == 1 and all(
        d[0] == 'sub' and d[2] == ('const', 'groups') and d[1][0] == 'sub'
        and d[1][2] == ('const', 'InvCovMat') and d[1][1][0] == 'attr'
        and d[1][1][2] == 'UQ' for d in descs)
    chk.ob('R14.3', okd, LIB, dl, key='basis-as-read',
           what='the stored uncertainty basis is the file\'s '
                'InvCovMat.groups, unchanged',
           found=' | '.join(sym.show(d)[:100] for d in descs))
    # ---- R14.5 a scalar temperature gives a plain number ---------------------
    # (the property's "finite plain numbers"): on every path of the table
    # correlation's getters that is not the array branch, what is returned is
    # a float(...) conversion, arithmetic over such values, or a stored
    # end value -- never the array helper or a numpy constructor
    RAWM = 'pgradd/ThermoChem/raw_data.py'
    for mname in ('get_CpoR',):
        f = repo.func(RAWM, 'ThermochemRawData.' + mname)
        bad = []
        nscalar = 0
        for p_ in sym.summarize(f):
            if p_.outcome[0] != 'return':
                continue
            arrayish = False
            for k, pol in p_.conds():
                for lit in sym.lits_of(k, pol):
                    if lit[0] == 'not' and sym.mentions(
                            lit[1], lambda x: x[0] == 'attr'
                            and x[2] == 'isscalar'):
                        arrayish = True
            if arrayish:
                continue
            nscalar += 1
            v = p_.outcome[1]
            if sym.mentions(v, lambda x: x[0] == 'call' and (
                    (x[1][0] == 'attr' and (x[1][2].endswith('_ar') or (
                        x[1][1] == ('name', 'np'))))
                    or x[1] == ('name', 'np'))):
                bad.append(sym.show(v)[:100])
        chk.ob('R14.5', not bad and nscalar >= 1, RAWM, f,
               key='scalar-plain:' + mname,
               what='ThermochemRawData.%s returns a plain number for a '
                    'scalar temperature (no array helper, no numpy '
                    'constructor on that branch)' % mname,
               found='; '.join(bad))
    # ---- R14.4 evaluation of every group goes through reviewed code ---------
    for rel, cname in (('pgradd/ThermoChem/incomplete.py',
                        'ThermochemIncomplete'),
                       ('pgradd/ThermoChem/raw_data.py', 'ThermochemRawData'),
                       ('pgradd/ThermoChem/raw_data.py', 'ConstantSpline'),
                       ('pgradd/ThermoChem/base.py', 'ThermochemBase')):
        try:
            cbody = repo.cls(rel, cname).body
        except AnalysisError:
            if cname == 'ConstantSpline':
                continue    # the one-point spline is C05's anchor (R05.x)
            raise
        for s_ in cbody:
            if not isinstance(s_, ast.FunctionDef):
                continue
            if cname == 'ThermochemBase' and s_.name not in (
                    '__init__', 'check_range', 'get_range', 'get_GoRT'):
                continue    # dimensional getters are C07's business
            if isinstance(s_, ast.FunctionDef) and (
                    s_.name.startswith('get_') or s_.name in (
                        '__init__', '__call__', 'integral', 'check_range',
                        '_setup_correlation', '_expand_ND_Cp_data',
                        '_get_CpoR_ar', 'yaml_construct')):
                reviewed.check(chk, 'R14.4', repo, rel,
                               '%s.%s' % (cname, s_.name),
                               '%s.%s (group evaluation) raises under the '
                               'same conditions as its reviewed reference '
                               '(values are C05\'s business)'
                               % (cname, s_.name), mode='raises')


"""Reviewed-reference store (sibling comparison through time).

`reviewed/functions.json` holds the source of functions that were read and
confirmed, for the property named with each entry, on the tree the checkers
were built against (after the `fix:` commits).  A check compares the
*normal form* (path summaries, see refcmp) of the current function with the
normal form of its reviewed reference -- never the text -- so renamed locals,
temporaries, operand order, comparison direction, exception messages and
debugging prints do not matter, while a changed operator, table entry, guard,
early exit, swallowed exception or added state does.

The store is written only by tools/snapshot_reviewed.py, by hand, after
review; checks never write it.
"""
import ast
import json
import os
import textwrap

from . import refcmp, sym
from .source import AnalysisError

HERE = os.path.dirname(os.path.dirname(os.path.abspath(__file__)))
STORE = os.path.join(HERE, 'reviewed', 'functions.json')

_cache = None


def store():
    global _cache
    if _cache is None:
        if not os.path.exists(STORE):
            raise AnalysisError('reviewed store missing: %s' % STORE)
        with open(STORE) as f:
            _cache = json.load(f)
    return _cache


def reference(rel, qualname):
    key = '%s::%s' % (rel, qualname)
    ent = store().get(key)
    if ent is None:
        raise AnalysisError('no reviewed reference for %s' % key)
    tree = ast.parse(textwrap.dedent(ent['source']))
    fn = tree.body[0]
    if not isinstance(fn, ast.FunctionDef):
        raise AnalysisError('reviewed reference %s is not a function' % key)
    return fn


def _raise_sig(sig):
    conds, out, eff = sig
    if out[0] == 'raise':
        return (conds, ('raise', out[1]), ())
    return (conds, ('no-raise',), ())


def compare(func, rel, qualname, mode='full', **kw):
    ref = reference(rel, qualname)
    ap = [a.arg for a in func.args.args]
    rp = [a.arg for a in ref.args.args]
    if len(ap) != len(rp):
        return False, ['signature changed: %s (reviewed: %s)' % (ap, rp)], []
    ref = refcmp.rename_params(ref, func)
    extra = []
    if [ast.dump(d) for d in func.args.defaults] != [
            ast.dump(d) for d in ref.args.defaults]:
        extra.append('parameter defaults changed: %s' % [
            ast.unparse(d) for d in func.args.defaults])
    a = set(refcmp.signature(p, **kw)
            for p in sym.Summarizer().summarize(func))
    b = set(refcmp.signature(p, **kw)
            for p in sym.Summarizer().summarize(ref))
    if mode == 'raises':
        # only: under which conditions does the function raise what
        a2 = set(_raise_sig(x) for x in a)
        b2 = set(_raise_sig(x) for x in b)
        if refcmp.equivalent(a2, b2):
            return (not extra), extra, []
        a, b = a2, b2
    elif refcmp.equivalent(a, b):
        return (not extra), extra, []
    # second chance: follow calls to reviewed functions too
    try:
        with sym.inline_all():
            a3 = set(refcmp.signature(p, **kw)
                     for p in sym.Summarizer().summarize(func))
            b3 = set(refcmp.signature(p, **kw)
                     for p in sym.Summarizer().summarize(ref))
        if mode == 'raises':
            a3 = set(_raise_sig(x) for x in a3)
            b3 = set(_raise_sig(x) for x in b3)
        if refcmp.equivalent(a3, b3):
            return (not extra), extra, []
    except AnalysisError:
        pass
    shw = refcmp.show_sig
    oa = sorted(shw(s) for s in a - b)
    ob = sorted(shw(s) for s in b - a)
    if not oa and not ob:
        oa = ['(differs inside a loop body or an effect call)']
    return False, extra + oa, ob


def check(chk, rule, repo, rel, qualname, what, **kw):
    """kw mode='raises' compares only the raise structure (conditions and
    exception classes), not the values returned."""
    if not repo.has_func(rel, qualname):
        chk.ob(rule, False, rel, None, key='reviewed:' + qualname,
               qualname=qualname,
               what='%s exists (%s)' % (qualname, what))
        return False
    func = repo.func(rel, qualname)
    if ('%s::%s' % (rel, qualname)) not in store():
        # a function added after the review: its callers' normal forms are
        # what is compared; nothing to compare it with
        chk.info('no reviewed reference for %s::%s (new function)'
                 % (rel, qualname))
        return True
    ok, oa, ob = compare(func, rel, qualname, **kw)
    chk.ob(rule, ok, rel, func, key='reviewed:' + qualname, what=what,
           found=' || '.join(oa)[:900] if oa else None,
           required=' || '.join(ob)[:900] if ob else None)
    return ok


def check_many(chk, rule, repo, rel, qualnames, what_fmt, **kw):
    n = 0
    for q in qualnames:
        n += 1
        check(chk, rule, repo, rel, q, what_fmt % q, **kw)
    return n

"""Sibling comparison of a repository function with a semantic reference.

The reference is the checker's own statement of what the function must
compute, written as a small Python function.  Both are reduced to the same
path summaries (conditions as a set of normal-form literals, outcome in
polynomial/boolean normal form, ordered stores and effect calls) and compared
as sets, so renamed locals, temporaries, operand order, `a > b` vs `b < a`,
nesting order of independent tests, messages of exceptions and debugging
prints do not matter -- a changed operator, a dropped factor, a weakened or
moved guard, an added early return or a swallowed exception does.
"""
import ast

from . import sym
from .source import AnalysisError

IGNORED_CALLS = {'print'}
LOG_RECEIVERS = {'logging', 'logger', 'log', '_logger', '_log', 'LOG',
                 'LOGGER'}
LOG_METHODS = {'debug', 'info', 'warning', 'warn', 'error', 'exception',
               'critical', 'log'}


def _is_ignored_call(k):
    """print(...) and logging calls: diagnostics, not behaviour."""
    if k[0] != 'call':
        return False
    name = sym.Evaluator()._call_name(k[1])
    if name in IGNORED_CALLS:
        return True
    if name and '.' in name:
        recv, meth = name.rsplit('.', 1)
        if meth in LOG_METHODS and recv.split('.')[-1] in LOG_RECEIVERS:
            return True
    return False


MESSAGE_CALLS = {'warn', 'warnings.warn', 'stream.error', 'self.error'}


def _demsg(k):
    """Drop message texts from warn(...) calls (category and other
    arguments stay)."""
    if k[0] == 'call' and sym.Evaluator()._call_name(k[1]) in MESSAGE_CALLS:
        args = tuple(('msg',) if (a[0] in ('fmt', 'strcat', 'fstr')
                                  or (a[0] == 'const'
                                      and isinstance(a[1], str)))
                     else a for a in k[2])
        return ('call', k[1], args, k[3])
    return k


def _lits(k, pol):
    """Flatten one condition into a set of literal keys."""
    return sym.lits_of(k, pol)


def signature(path, keep_raise_args=False, ignore_attr_stores=(),
              strict=False):
    """strict: nothing is abstracted away (message texts, prints and the
    arguments of raised exceptions are part of the signature)."""
    if strict:
        keep_raise_args = True
    demsg = (lambda k: k) if strict else _demsg
    conds = set()
    for k, pol in path.conds():
        conds |= _lits(k, pol)
    o = path.outcome
    if o[0] == 'raise':
        out = ('raise', o[1]) + ((o[2],) if keep_raise_args else ())
    else:
        out = o
        # on a path where `x is None` holds, returning x is returning None
        if o[0] == 'return' and ('cmp', 'is', o[1], ('const', None)) in conds:
            out = ('return', ('const', None))
    nones = set(l[2] for l in conds if l[0] == 'cmp' and l[1] == 'is'
                and l[3] == ('const', None))
    effects = []
    for e in path.trace:

        if e[0] == 'store':
            if e[1][0] == 'attr' and e[1][2] in ignore_attr_stores:
                continue
            v = e[2]
            if v in nones:
                v = ('const', None)     # `x is None` holds on this path
            effects.append(('store', e[1], v))
        elif e[0] == 'expr':
            k = e[1]
            if not strict and _is_ignored_call(k):
                continue
            if k[0] in ('const', 'num'):
                continue
            if nones and k[0] == 'call':
                # an argument that is None on this path (`x is None` is one
                # of its conditions) is None, however it is spelled
                k = ('call', k[1], tuple(('const', None) if a in nones else a
                                         for a in k[2]), k[3])
            effects.append(('do', demsg(k)))
        elif e[0] == 'del':
            effects.append(('del', e[1]))
        elif e[0] == 'inplace':
            effects.append(('inplace', e[1], e[2], e[3]))
        elif e[0] == 'aug':
            pass  # covered by the store / env value
        elif e[0] == 'loop':
            ls = _loop_sig(e[2], strict)
            if ls is not None:
                effects.append(('loop', e[1], ls))
        elif e[0] in ('except', 'caught'):
            effects.append((e[0], e[1] if e[0] == 'except' else e[2]))
    return (frozenset(conds), out, _order_stores(effects))


def _order_stores(effects):
    """Consecutive stores to different targets, none of whose values reads
    another's target, commute: put each such run in one canonical order."""
    out = []
    run = []

    def flush():
        if len(run) > 1:
            targets = [e[1] for e in run]
            indep = len(set(targets)) == len(targets) and not any(
                sym.mentions_any(e[2], [t for t in targets if t != e[1]])
                for e in run)
            if indep:
                run.sort(key=repr)
        out.extend(run)
        del run[:]
    for e in effects:
        if e[0] == 'store':
            run.append(e)
        else:
            flush()
            out.append(e)
    flush()
    return tuple(out)


def _loop_sig(body_events, strict=False):
    demsg = (lambda k: k) if strict else _demsg
    out = []
    for trace, o in body_events:
        ev = []
        conds = set()
        for e in trace:
            if e[0] == 'cond':
                conds |= _lits(e[1], e[2])
            elif e[0] == 'store':
                ev.append(('store', e[1], e[2]))
            elif e[0] == 'expr':
                k = e[1]
                if not strict and _is_ignored_call(k):
                    continue
                if k[0] in ('const', 'num'):
                    continue
                ev.append(('do', demsg(k)))
            elif e[0] == 'aug':
                pass    # the store event carries the same information
            elif e[0] == 'del':
                ev.append(('del', e[1]))
            elif e[0] == 'inplace':
                ev.append(('inplace', e[1], e[2], e[3]))
            elif e[0] in ('except', 'caught'):
                ev.append((e[0], e[1] if e[0] == 'except' else e[2]))
            elif e[0] == 'loop':
                ls = _loop_sig(e[2], strict)
                if ls is not None:
                    ev.append(('loop', e[1], ls))
        out.append((frozenset(conds), o, tuple(ev)))
    if not any(ev for _, _, ev in out):
        # a loop without effects: whatever it computes is in the values
        # that use it (sum / any / comprehension forms)
        return None
    try:
        return canon(out)
    except (_TooBig, RecursionError):
        return frozenset(out)


from .bdd import (_TooBig, BDD, STR_PREDICATES, _str_facts, _eq_atoms,
                  _care, canon)


def _deep_none(k, nones):
    """k with every occurrence of a value that is None (on this path)
    replaced by the constant None."""
    if not nones:
        return k
    if k in nones:
        return ('const', None)
    if isinstance(k, tuple):
        return tuple(_deep_none(x, nones) if isinstance(x, tuple) else x
                     for x in k)
    if isinstance(k, frozenset):
        return frozenset(_deep_none(x, nones) if isinstance(x, tuple) else x
                         for x in k)
    return k


def _apply_nones(conds, outcome, eff):
    """Rewrite a signature with what its own `k is None` literals say."""
    nones = set(l[2] for l in conds if l[0] == 'cmp' and l[1] == 'is'
                and len(l) == 4 and l[3] == ('const', None))
    if not nones:
        return conds, outcome, eff
    keep = set(('cmp', 'is', k, ('const', None)) for k in nones)
    c2 = frozenset(l if l in keep else _deep_none(l, nones) for l in conds)
    c2 = frozenset(l for l in c2 if l != ('cmp', 'is', ('const', None),
                                          ('const', None)))
    return c2, _deep_none(outcome, nones), _deep_none(eff, nones)


def _none_split(sigs, subjects):
    """Case split on `k is None` for every subject k that a signature hands
    on (returns, stores, passes to an effect call) without having decided
    it: on the None side the value is None however it is spelled."""
    out = set()
    for conds, outcome, eff in sigs:
        todo = [(conds, outcome, eff)]
        for k in subjects:
            lit = ('cmp', 'is', k, ('const', None))
            nxt = []
            for c, o, e in todo:
                if lit in c or ('not', lit) in c:
                    nxt.append((c, o, e))
                    continue
                hit = sym.mentions_any((o, e), [k]) or any(
                    sym.mentions_any(l_, [k]) for l_ in c
                    if l_ != lit and l_ != ('not', lit))
                if not hit:
                    nxt.append((c, o, e))
                    continue
                none = ('const', None)
                o2 = ('return', none) if (o[0] == 'return' and o[1] == k) \
                    else o
                e2 = tuple(
                    ('store', x[1], none) if (x[0] == 'store' and x[2] == k)
                    else (('do', ('call', x[1][1], tuple(
                        none if a_ == k else a_ for a_ in x[1][2]),
                        x[1][3])) if (x[0] == 'do' and x[1][0] == 'call'
                                      and k in x[1][2]) else x)
                    for x in e)
                nxt.append(_apply_nones(frozenset(c | {lit}), o2, e2))
                nxt.append((frozenset(c | {('not', lit)}), o, e))
            todo = nxt
            if len(todo) > 64:
                break
        out.update(_apply_nones(*t) for t in todo)
    return out


def equivalent(a, b):
    """Are two sets of path signatures the same decision table?"""
    if a == b:
        return True

    def decide(x, y):
        bdd = BDD()
        eqs = {}
        _eq_atoms(x, eqs)
        _eq_atoms(y, eqs)
        care = bdd.apply('and', _care(bdd, eqs), _str_facts(bdd, x | y))
        return canon(x, bdd, care) == canon(y, bdd, care)
    try:
        if decide(a, b):
            return True
        # second look: values that are None on part of a path
        subjects = set()
        for conds, o, e in a | b:
            for lit in conds:
                for at in sym.bool_atoms(lit):
                    if at[0] == 'cmp' and at[1] == 'is' and len(at) == 4 \
                            and at[3] == ('const', None):
                        subjects.add(at[2])
        if not subjects or len(subjects) > 6:
            return False
        subjects = sorted(subjects, key=repr)
        return decide(_none_split(a, subjects), _none_split(b, subjects))
    except (_TooBig, RecursionError):
        return False


def strict_equivalent(node, ref):
    """Is the repository function `node` the same function as `ref` (its
    reviewed text) in every respect a rule could look at?  Same decorators,
    same parameter list, and the same decision table over strict path
    signatures (messages, prints and raise arguments included)."""
    if ast.dump(node.args) != ast.dump(ref.args):
        return False
    if [ast.dump(d) for d in node.decorator_list] != [
            ast.dump(d) for d in ref.decorator_list]:
        return False
    ref._ctx_from = node

    def once():
        try:
            opaque = tuple(sym.TRANSPARENT_CALLS)
            a = set(signature(p, strict=True)
                    for p in sym.Summarizer(opaque=opaque).summarize(node))
            b = set(signature(p, strict=True)
                    for p in sym.Summarizer(opaque=opaque).summarize(ref))
        except AnalysisError:
            return False
        return equivalent(a, b)
    if once():
        return True
    with sym.inline_all():
        return once()


def show_sig(sig):
    conds, out, eff = sig
    c = ' and '.join(sorted(sym.show(k) for k in conds)) or 'always'
    if out[0] == 'return':
        o = 'return ' + sym.show(out[1])
    elif out[0] == 'raise':
        o = 'raise ' + out[1]
    else:
        o = out[0]
    e = ''
    if eff:
        e = ' {' + '; '.join(_show_eff(x) for x in eff) + '}'
    return '[%s] -> %s%s' % (c, o, e)


def _show_eff(x):
    if x[0] == 'store':
        return '%s := %s' % (sym.show(x[1]), sym.show(x[2]))
    if x[0] == 'do':
        return sym.show(x[1])
    if x[0] == 'loop':
        return 'loop over %s' % sym._show_gens(x[1])
    if x[0] == 'inplace':
        return '%s %s= %s (in place)' % (sym.show(x[1]), x[2], sym.show(x[3]))
    return str(x[0])


def parse_ref(text):
    tree = ast.parse(text)
    if len(tree.body) != 1 or not isinstance(tree.body[0], ast.FunctionDef):
        raise AnalysisError('reference text must be one function')
    return tree.body[0]


def rename_params(ref, actual):
    """Rename the reference's parameters to the actual function's names
    (by position)."""
    rp = [a.arg for a in ref.args.args]
    ap = [a.arg for a in actual.args.args]
    if len(rp) != len(ap):
        return None
    mp = dict(zip(rp, ap))

    class R(ast.NodeTransformer):
        def visit_Name(self, n):
            if n.id in mp:
                return ast.copy_location(ast.Name(id=mp[n.id], ctx=n.ctx), n)
            return n

        def visit_arg(self, n):
            if n.arg in mp:
                n.arg = mp[n.arg]
            return n

        def visit_keyword(self, n):
            self.generic_visit(n)
            return n
    ref = R().visit(ref)
    ast.fix_missing_locations(ref)
    ref._ctx_from = getattr(actual, '_ctx_from', actual)
    return ref


def compare(func, ref_text, keep_raise_args=False, ignore_attr_stores=(),
            transparent=None, second_chance=True):
    """Returns (ok, only_in_code, only_in_reference) as printable lists."""
    ref = parse_ref(ref_text)
    ref = rename_params(ref, func)
    if ref is None:
        return False, ['signature differs: %s' % [a.arg for a in
                                                  func.args.args]], []
    # defaults must agree too
    cd = [ast.dump(d) for d in func.args.defaults]
    rd = [ast.dump(d) for d in ref.args.defaults]
    extra = []
    if cd != rd:
        extra.append('parameter defaults differ: %s' % [
            ast.unparse(d) for d in func.args.defaults])
    a = set(signature(p, keep_raise_args, ignore_attr_stores)
            for p in sym.Summarizer(transparent=transparent).summarize(func))
    b = set(signature(p, keep_raise_args, ignore_attr_stores)
            for p in sym.Summarizer(transparent=transparent).summarize(ref))
    if equivalent(a, b):
        return (not extra), extra, []
    try:
        if not second_chance:
            raise AnalysisError('skipped')
        with sym.inline_all():
            a2 = set(signature(p, keep_raise_args, ignore_attr_stores)
                     for p in sym.Summarizer(
                         transparent=transparent).summarize(func))
            b2 = set(signature(p, keep_raise_args, ignore_attr_stores)
                     for p in sym.Summarizer(
                         transparent=transparent).summarize(ref))
        if equivalent(a2, b2):
            return (not extra), extra, []
    except AnalysisError:
        pass
    only_a = sorted(show_sig(s) for s in a - b)
    only_b = sorted(show_sig(s) for s in b - a)
    return False, extra + only_a, only_b


def check(chk, rule, rel, func, ref_text, what, key=None, **kw):
    """ref_text: one reference or a list of accepted alternatives."""
    refs = [ref_text] if isinstance(ref_text, str) else list(ref_text)
    for r in refs:
        ok, oa, ob = compare(func, r, second_chance=False, **kw)
        if ok:
            break
    else:
        for r in refs:
            ok, oa, ob = compare(func, r, **kw)
            if ok:
                break
        else:
            ok, oa, ob = compare(func, refs[0], second_chance=False, **kw)
    chk.ob(rule, ok, rel, func, key=key or ('ref:' + func.name), what=what,
           found=' || '.join(oa)[:900] if oa else None,
           required=' || '.join(ob)[:900] if ob else None)
    return ok

"""Independent exact evaluator for unit expressions (the checker's oracle).

Magnitudes are Fractions, dimensions seven Fraction exponents
(m, kg, s, A, K, mol, cd).  Syntax (documented in the package): numbers,
names with SI prefixes, `*`, `/`, juxtaposition (= multiplication), `^` with
a numeric exponent (optionally parenthesised), parentheses; `* /` and
juxtaposition associate to the left, `^` binds tighter.
"""
import re
from fractions import Fraction

DIMS = ['m', 'kg', 's', 'A', 'K', 'mol', 'cd']


class UnitSyntaxError(Exception):
    pass


class Q(object):
    __slots__ = ('mag', 'dim')

    def __init__(self, mag, dim=None):
        self.mag = Fraction(mag)
        self.dim = tuple(dim) if dim is not None else (Fraction(0),) * 7

    @staticmethod
    def base(name, mag=1):
        d = [Fraction(0)] * 7
        d[DIMS.index(name)] = Fraction(1)
        return Q(mag, d)

    def __mul__(self, o):
        return Q(self.mag * o.mag, [a + b for a, b in zip(self.dim, o.dim)])

    def __truediv__(self, o):
        return Q(self.mag / o.mag, [a - b for a, b in zip(self.dim, o.dim)])

    def __pow__(self, e):
        e = Fraction(e)
        if e.denominator == 1:
            mag = self.mag ** int(e)
        else:
            mag = Fraction(float(self.mag) ** float(e))
        return Q(mag, [a * e for a in self.dim])

    def dimstr(self):
        return ' '.join('%s^%s' % (n, e) for n, e in zip(DIMS, self.dim)
                        if e != 0) or '1'

    def __repr__(self):
        return 'Q(%s, %s)' % (float(self.mag), self.dimstr())


TOKEN = re.compile(r'-?[.\d]+(?:[eE][-+]?\d+)?|[a-zA-Z]+|\S')

PREFIXES = {'Y': 24, 'Z': 21, 'E': 18, 'P': 15, 'T': 12, 'G': 9, 'M': 6,
            'k': 3, 'h': 2, 'da': 1, 'd': -1, 'c': -2, 'm': -3, 'u': -6,
            'n': -9, 'p': -12, 'f': -15, 'a': -18, 'z': -21, 'y': -24}


def isnumber(tok):
    try:
        float(tok)
        return True
    except ValueError:
        return False


class Parser(object):
    def __init__(self, text, lookup):
        self.toks = TOKEN.findall(text)
        self.i = 0
        self.lookup = lookup

    def peek(self):
        return self.toks[self.i] if self.i < len(self.toks) else None

    def take(self):
        t = self.peek()
        if t is not None:
            self.i += 1
        return t

    def parse(self):
        v = self.expr()
        if self.peek() is not None:
            raise UnitSyntaxError('unexpected %r' % self.peek())
        return v

    def expr(self):
        v = self.factor()
        while True:
            t = self.peek()
            if t is None or t == ')':
                return v
            if t in ('*', '/'):
                self.take()
                r = self.factor()
                v = v * r if t == '*' else v / r
            else:
                save = self.i
                try:
                    r = self.factor()
                except UnitSyntaxError:
                    self.i = save
                    return v
                v = v * r

    def factor(self):
        b = self.base()
        if self.peek() == '^':
            self.take()
            return b ** self.number()
        return b

    def number(self):
        t = self.take()
        if t == '(':
            t = self.take()
            if self.take() != ')':
                raise UnitSyntaxError('expected )')
        if t is None or not isnumber(t):
            raise UnitSyntaxError('expected number, got %r' % t)
        return Fraction(t)

    def base(self):
        t = self.peek()
        if t is None:
            raise UnitSyntaxError('unexpected end')
        if t == '(':
            self.take()
            v = self.expr()
            if self.take() != ')':
                raise UnitSyntaxError('expected )')
            return v
        if isnumber(t):
            self.take()
            return Q(Fraction(t))
        self.take()
        if not t.isalpha():
            raise UnitSyntaxError('expected name, got %r' % t)
        return self.lookup(t)


class DB(object):
    def __init__(self, prefixes=None):
        self.units = {}
        self.prefixes = dict(prefixes) if prefixes is not None else dict(
            (k, Fraction(10) ** v) for k, v in PREFIXES.items())

    def lookup(self, name):
        how = self.resolve(name)
        if how is None:
            raise UnitSyntaxError('unknown unit %r' % name)
        return how[1]

    def resolve(self, name):
        """(reading, value): exact, then one-letter prefix, then two-letter
        prefix -- the documented lookup order."""
        if name in self.units:
            return ('exact', self.units[name])
        if name[1:] in self.units and name[:1] in self.prefixes:
            return ('prefix1', Q(self.prefixes[name[:1]])
                    * self.units[name[1:]])
        if name[2:] in self.units and name[:2] in self.prefixes:
            return ('prefix2', Q(self.prefixes[name[:2]])
                    * self.units[name[2:]])
        return None

    def eval(self, text):
        return Parser(text, self.lookup).parse()

"""Thorough tier: cross-validation of the checker's own oracles.

The REF rules show that repository functions equal, in normal form, reference
texts owned by the checker.  Here those *reference texts* (never repository
code) are assembled into executable classes and run against the checker's
independent implementations on enumerated inputs:

* the reference RING combinators + parse state, driven by the grammar IR
  lifted from the repository, against the PEG recogniser of grammar_ir on
  every shipped pattern and on single-edit variants of them;
* the reference unit parser + tree evaluator against the exact evaluator of
  dims on a bounded-exhaustive family of unit expressions.

Agreement means the semantics the repository is pinned to is the documented
one; a disagreement is a defect of the checker's references (reported as an
obligation of the thorough tier)."""
import itertools
import re
import textwrap
from fractions import Fraction

from . import ringrefs, grammar_ir, dims
from .source import AnalysisError


def _method(text, name):
    t = textwrap.dedent(text).strip('\n')
    t = re.sub(r'^def f\(', 'def %s(' % name, t, count=1)
    return textwrap.indent(t, '    ')


def build_ring_reference():
    """Executable module from ringrefs (checker-owned text)."""
    classes = {}
    for q, text in ringrefs.COMBINATORS.items():
        c, m = q.split('.')
        classes.setdefault(c, []).append(_method(text, m))
    for m, text in ringrefs.PARSESTATE.items():
        classes.setdefault('ParseState', []).append(_method(text, m))
    for m, text in ringrefs.SYNTAX_ERROR.items():
        classes.setdefault('RINGSyntaxError', []).append(_method(text, m))
    bases = {'RINGSyntaxError': 'Exception', 'Parser': 'object',
             'RINGToken': 'object', 'ParseState': 'object',
             'Literals': 'Either'}
    order = ['RINGSyntaxError', 'RINGToken', 'Parser', 'EOS', 'Digit',
             'Number', 'String', 'Literal', 'Filler', 'Optional', 'All',
             'Either', 'ZeroOrMore', 'Literals', 'ParseState']
    src = ['from operator import eq', "string_okay = ['_']",
           "filler = [' ', '\\n', '\\t']"]
    for c in order:
        body = classes.get(c, [])
        src.append('class %s(%s):' % (c, bases.get(c, 'Parser')))
        src.extend(body or ['    pass'])
        if c == 'ZeroOrMore':
            src.append('    def __init__(self, what):\n'
                       '        self.what = what')
        if c in ('Number', 'String', 'EOS'):
            src.append('    def __init__(self):\n        pass')
    ns = {}
    exec(compile('\n'.join(src), '<ringrefs>', 'exec'), ns)
    return ns


def ir_to_ref(node, ns):
    t = node[0]
    if t == 'ref':
        return node[1]
    if t == 'all':
        return ns['All'](*[ir_to_ref(c, ns) for c in node[1]])
    if t == 'either':
        return ns['Either'](*[ir_to_ref(c, ns) for c in node[1]])
    if t == 'opt':
        return ns['Optional'](ir_to_ref(node[1], ns))
    if t == 'star':
        return ns['ZeroOrMore'](ir_to_ref(node[1], ns))
    if t == 'lits':
        return ns['Literals'](list(node[1]))
    if t == 'lit':
        return ns['Literal'](node[1])
    if t == 'filler':
        return ns['Filler'](node[1])
    if t == 'string':
        return ns['String']()
    if t == 'digit':
        return ns['Digit'](node[1])
    if t == 'number':
        return ns['Number']()
    if t == 'eos':
        return ns['EOS']()
    raise AnalysisError('IR node %r' % (node,))


def plain(tree, ns):
    if isinstance(tree, list):
        return [plain(x, ns) for x in tree]
    if isinstance(tree, ns['RINGToken']):
        return tree.name
    return tree


def variants(text, limit=6):
    """Single-edit variants: truncations, token deletions, a duplicated
    token, a stray character."""
    out = []
    toks = text.split()
    n = len(toks)
    for k in (n // 3, 2 * n // 3, n - 1):
        if 0 < k < n:
            out.append(' '.join(toks[:k]))
    for k in (1, n // 2):
        if 0 < k < n:
            out.append(' '.join(toks[:k] + toks[k + 1:]))
            out.append(' '.join(toks[:k] + [toks[k]] + toks[k:]))
    out.append(text + ' x')
    out.append(text.replace('labeled', 'labelled', 1))
    return out[:limit + 2]


def ring_crosscheck(chk, repo, rule):
    from .datafiles import libraries
    strict, g = grammar_ir.load(repo)
    ns = build_ring_reference()
    rules = dict((name, ir_to_ref(node, ns)) for name, node in g.rules.items())
    for name, r in rules.items():
        if not isinstance(r, str):
            r.name = name
    rec = grammar_ir.Recognizer(g)
    texts = []
    for lib in libraries(repo.root):
        for sec, i, name, text in lib.patterns():
            texts.append(text)
    corpus = []
    seen = set()
    for t in texts:
        for v in [t] + variants(t):
            if v not in seen:
                seen.add(v)
                corpus.append(v)
    n_acc = n_rej = 0
    dis = []
    import sys
    sys.setrecursionlimit(max(sys.getrecursionlimit(), 5000))
    for t in corpus:
        try:
            tree_a, _ = rec.parse(t)
            a = ('ok', tree_a)
        except grammar_ir.Fail:
            a = ('reject', None)
        try:
            st = ns['ParseState']((g.root, rules), t)
            b = ('ok', plain(st.parse(), ns))
        except ns['RINGSyntaxError']:
            b = ('reject', None)
        except Exception as exc:      # a crash of the reference is a finding
            b = ('crash:%s' % type(exc).__name__, None)
        if a[0] == 'ok':
            n_acc += 1
        else:
            n_rej += 1
        if a != b:
            dis.append('%r: recogniser %s, reference combinators %s'
                       % (t[:60], a[0], b[0]))
    chk.extra['ring_crosscheck_inputs'] = len(corpus)
    chk.extra['ring_crosscheck_accepted'] = n_acc
    chk.ob(rule, not dis and n_acc >= 150 and n_rej >= 700, None, None,
           key='oracle-crosscheck:ring', qualname='<checker oracles>',
           what='the reference combinators (to which Parser.py is pinned) '
                'and the independent PEG recogniser agree on acceptance and '
                'on the syntax tree for %d inputs (%d accepted: the distinct '
                'shipped patterns and benign variants; %d rejected '
                'single-edit variants)'
                % (len(corpus), n_acc, n_rej), found='; '.join(dis[:4]))


def build_units_reference(refs, eval_subtree_text, tokenize_pattern, db):
    body = ['import re',
            'class UnitsParseError(Exception):\n    pass',
            'class UnitsParser(object):',
            '    tokenize_re = re.compile(%r)' % tokenize_pattern,
            '    def __init__(self, expr):',
            '        self.tokens = [tok for tok in re.findall('
            'self.tokenize_re, expr) if not tok.isspace()]',
            '        self.idx = 0',
            '    def enter(self, what):\n        pass',
            '    def leave(self, what):\n        pass']
    for m, text in refs.items():
        body.append(_method(text, m))
    body.append(textwrap.dedent(eval_subtree_text).replace(
        'def f(tree):', 'def eval_subtree(tree):'))
    ns = {'units_db': db}
    exec(compile('\n'.join(body), '<unitrefs>', 'exec'), ns)
    return ns


class _QDB(object):
    """units_db stand-in for the reference evaluator: returns dims.Q values
    and raises the reference's own error class."""

    def __init__(self, db, errcls):
        self.db, self.errcls = db, errcls

    def lookup(self, name):
        try:
            return QN.wrap(self.db.lookup(name))
        except dims.UnitSyntaxError:
            raise self.errcls(name)


def _q(v):
    if isinstance(v, dims.Q):
        return v
    if isinstance(v, float):
        return dims.Q(Fraction(repr(v)))
    return dims.Q(Fraction(v))


class QN(dims.Q):
    """dims.Q that mixes with plain numbers, like the repository's Quantity
    does (used only to run the checker's reference evaluator)."""

    @staticmethod
    def wrap(q):
        return QN(q.mag, q.dim)

    def __mul__(self, o):
        return QN.wrap(dims.Q.__mul__(self, _q(o)))

    def __rmul__(self, o):
        return QN.wrap(dims.Q.__mul__(_q(o), self))

    def __truediv__(self, o):
        return QN.wrap(dims.Q.__truediv__(self, _q(o)))

    def __rtruediv__(self, o):
        return QN.wrap(dims.Q.__truediv__(_q(o), self))

    def __pow__(self, e):
        if isinstance(e, dims.Q):
            raise TypeError('exponentiation by quantity')
        return QN.wrap(dims.Q.__pow__(self, Fraction(repr(e)) if isinstance(
            e, float) else Fraction(e)))


def units_crosscheck(chk, repo, rule, c10):
    from .props import c12
    db = c12.unit_db_for(repo)
    pat = r'-?[.\d]+(?:[eE][-+]?\d+)?|[a-zA-Z]+|.'
    ns = build_units_reference(c10.REFS, c10.EVAL_SUBTREE, pat, None)
    ns['units_db'] = _QDB(db, ns['UnitsParseError'])
    names = ['m', 's', 'kg', 'kJ', 'mol', 'K', 'cm', 'xx']
    nums = ['2', '0.5', '10', '-3', '1e3']
    atoms = names + nums + ['(m/s)', '(kJ mol)']
    pows = ['', '^2', '^-1', '^(2)', '^0.5']
    factors = [a + p for a in atoms for p in pows
               if not (a in nums and p in ('^0.5',))]
    exprs = set(factors)
    seps = [' ', '*', '/', ' * ', '/ ']
    import random
    rnd = random.Random(chk.seed)
    for a, b in itertools.product(factors, repeat=2):
        for sp in seps:
            exprs.add(a + sp + b)
    pairs = sorted(exprs)
    triples = []
    for _ in range(4000):
        a, b, c = rnd.choice(factors), rnd.choice(factors), rnd.choice(
            factors)
        triples.append(a + rnd.choice(seps) + b + rnd.choice(seps) + c)
    malformed = ['', '(', 'm^', 'm//s', 'm s)', '^2', 'm^(2', '2 2 m', '*m',
                 'm*', 'm^s']
    corpus = pairs + triples + malformed

    to_q = _q
    dis = []
    n_ok = n_err = 0
    for e in corpus:
        try:
            a = ('ok', dims.Parser(e, db.lookup).parse())
        except (dims.UnitSyntaxError, ZeroDivisionError, ValueError,
                OverflowError):
            a = ('error', None)
        try:
            tree = ns['UnitsParser'](e).parse()
            v = ns['eval_subtree'](tree)
            b = ('ok', to_q(v))
        except ns['UnitsParseError']:
            b = ('error', None)
        except (ZeroDivisionError, ValueError, OverflowError, TypeError):
            b = ('error', None)
        except Exception as exc:
            b = ('crash:%s' % type(exc).__name__, None)
        if a[0] == 'ok':
            n_ok += 1
        else:
            n_err += 1
        same = a[0] == b[0]
        if same and a[0] == 'ok':
            qa, qb = a[1], b[1]
            same = tuple(qa.dim) == tuple(qb.dim) and (
                qa.mag == qb.mag or abs(float(qa.mag) - float(qb.mag))
                <= 1e-12 * max(abs(float(qa.mag)), 1e-300))
        if not same:
            dis.append('%r: evaluator %s, reference parser %s' % (
                e, a[0] if a[0] != 'ok' else repr(a[1]),
                b[0] if b[0] != 'ok' else repr(b[1])))
    chk.extra['units_crosscheck_inputs'] = len(corpus)
    chk.ob(rule, not dis and n_ok >= 1000 and n_err >= 100, None, None,
           key='oracle-crosscheck:units', qualname='<checker oracles>',
           what='the reference unit parser/evaluator (to which parser.py is '
                'pinned) and the independent exact evaluator agree on value, '
                'dimension and rejection for %d expressions (%d evaluated, '
                '%d rejected)' % (len(corpus), n_ok, n_err),
           found='; '.join(dis[:4]))

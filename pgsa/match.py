"""Small matchers over normal-form keys and AST helpers shared by the rules."""
import ast
from fractions import Fraction

from . import sym
from .source import src, dotted, AnalysisError

SELF = ('name', 'self')


def name(k):
    return k[1] if isinstance(k, tuple) and k and k[0] == 'name' else None


def is_attr(k, base=None, attr=None):
    return (isinstance(k, tuple) and k and k[0] == 'attr'
            and (base is None or k[1] == base)
            and (attr is None or k[2] == attr))


def self_attr(k):
    """'x' if k is self.x"""
    if is_attr(k, SELF):
        return k[2]
    return None


def is_call(k, func=None):
    return (isinstance(k, tuple) and k and k[0] == 'call'
            and (func is None or k[1] == func))


def call_parts(k):
    """(func_key, args, kwargs-dict)"""
    return k[1], k[2], dict(k[3])


def method_call(k):
    """(receiver_key, method_name, args, kwargs) for recv.m(...), else None."""
    if is_call(k) and is_attr(k[1]):
        return k[1][1], k[1][2], k[2], dict(k[3])
    return None


def dotted_key(k):
    """'a.b.c' for name/attr chains."""
    if isinstance(k, tuple) and k:
        if k[0] == 'name':
            return k[1]
        if k[0] == 'attr':
            b = dotted_key(k[1])
            return None if b is None else b + '.' + k[2]
    return None


def num(k):
    if isinstance(k, tuple) and k and k[0] == 'num':
        return k[1]
    return None


def const(k):
    if isinstance(k, tuple) and k and k[0] == 'const':
        return k[1]
    return KeyError


def params(func):
    return [a.arg for a in func.args.args]


def param_default(func, pname):
    args = func.args.args
    defaults = func.args.defaults
    off = len(args) - len(defaults)
    for i, a in enumerate(args):
        if a.arg == pname and i >= off:
            return defaults[i - off]
    return None


def terms(k):
    """[(coeff, {atom: exp})] of a key seen as polynomial."""
    p = sym.poly_of_key(k)
    return [(c, dict(m)) for m, c in p.terms.items()]


def calls_in(node, pred=None):
    for n in ast.walk(node):
        if isinstance(n, ast.Call) and (pred is None or pred(n)):
            yield n


def call_name(n):
    return dotted(n.func)


def has_try(func):
    return any(isinstance(n, ast.Try) for n in ast.walk(func))


def attr_stores(tree, attr):
    """Yield (node, kind) for every write to *.attr: assignment, augmented
    assignment, del, and mutating method calls on it."""
    MUT = {'append', 'extend', 'insert', 'pop', 'remove', 'clear', 'sort',
           'reverse', 'update', 'setdefault', 'popitem', 'add', 'discard',
           '__setitem__', '__delitem__'}
    for n in ast.walk(tree):
        if isinstance(n, ast.Attribute) and n.attr == attr:
            if isinstance(n.ctx, (ast.Store, ast.Del)):
                yield n, 'store'
            par = getattr(n, '_parent', None)
            if isinstance(par, ast.Attribute) and par.value is n \
                    and par.attr in MUT \
                    and isinstance(getattr(par, '_parent', None), ast.Call) \
                    and par._parent.func is par:
                yield n, 'mutate:' + par.attr
            if isinstance(par, ast.Subscript) and par.value is n \
                    and isinstance(par.ctx, (ast.Store, ast.Del)):
                yield n, 'item-store'
            if isinstance(par, ast.AugAssign) and par.target is n:
                yield n, 'augassign'
        if isinstance(n, ast.Call) and dotted(n.func) in ('setattr',
                                                          'delattr') \
                and len(n.args) >= 2 and isinstance(n.args[1], ast.Constant) \
                and n.args[1].value == attr:
            yield n, 'setattr'


def loop_has_exit(loop, kinds=(ast.Break, ast.Return)):
    """break/return lexically inside this loop (not inside nested function);
    a break inside a nested loop belongs to that loop."""
    def walk(node, depth):
        for child in ast.iter_child_nodes(node):
            if isinstance(child, (ast.FunctionDef, ast.Lambda, ast.ClassDef)):
                continue
            if isinstance(child, ast.Return) and ast.Return in kinds:
                yield child
            elif isinstance(child, ast.Break) and ast.Break in kinds \
                    and depth == 0:
                yield child
            elif isinstance(child, ast.Continue) and ast.Continue in kinds \
                    and depth == 0:
                yield child
            elif isinstance(child, (ast.For, ast.While)):
                for x in walk(child, depth + 1):
                    yield x
            else:
                for x in walk(child, depth):
                    yield x
    return list(walk(loop, 0))


def whole_iter(node, allowed_wrappers=('list', 'sorted', 'tuple', 'iter',
                                       'enumerate', 'reversed')):
    """Return the collection expression a loop iterates *completely*, or None
    when the iterable is sliced/filtered/zipped.  Accepted: x, list(x),
    sorted(x), x.items()/keys()/values(), range(len(x)), range(0, len(x)),
    enumerate(x)."""
    n = node
    while True:
        if isinstance(n, ast.Call) and dotted(n.func) in allowed_wrappers \
                and len(n.args) >= 1:
            n = n.args[0]
            continue
        if isinstance(n, ast.Call) and isinstance(n.func, ast.Attribute) \
                and n.func.attr in ('items', 'keys', 'values') \
                and not n.args:
            n = n.func.value
            continue
        break
    if isinstance(n, ast.Call) and dotted(n.func) == 'range':
        a = n.args
        if len(a) == 1:
            stop = a[0]
        elif len(a) == 2 and isinstance(a[0], ast.Constant) \
                and a[0].value == 0:
            stop = a[1]
        else:
            return None
        if isinstance(stop, ast.Call) and dotted(stop.func) == 'len' \
                and len(stop.args) == 1:
            return stop.args[0]
        return None
    if isinstance(n, ast.Subscript) and isinstance(n.slice, ast.Slice):
        return None
    if isinstance(n, (ast.Name, ast.Attribute, ast.Call, ast.Subscript)):
        return n
    return None


MUTATING_METHODS = {'append', 'extend', 'insert', 'pop', 'remove', 'clear',
                    'update', 'setdefault', 'popitem', 'add', 'discard',
                    'sort', 'reverse', '__setitem__', '__delitem__'}


def readonly_literal_table(module_tree, class_node, name, literal=True):
    """Is the class-level (or, with the module as `class_node`, module-level)
    binding `name` a literal whose entries are constants and which nothing
    in the module stores into, deletes from, re-binds or calls a mutating
    method on?  Such a table is a constant: it cannot carry state between
    calls or objects.  With literal=False the entries may also be names and
    attribute chains (no calls)."""
    binds = [s for s in class_node.body if isinstance(s, ast.Assign)
             and any(isinstance(t, ast.Name) and t.id == name
                     for t in s.targets)]
    if len(binds) != 1 or len(binds[0].targets) != 1:
        return False
    val = binds[0].value
    if literal:
        try:
            ast.literal_eval(val)
        except Exception:
            return False
    elif isinstance(val, ast.Call) and isinstance(val.func, ast.Name) \
            and val.func.id in ('frozenset', 'set', 'tuple', 'list') \
            and len(val.args) == 1 and not val.keywords and all(
                isinstance(x, (ast.Tuple, ast.List, ast.Set, ast.Constant,
                               ast.Name, ast.Attribute, ast.Load))
                for x in ast.walk(val.args[0])):
        pass        # frozenset([...]) of constants / names
    elif not all(isinstance(x, (ast.Dict, ast.Tuple, ast.List, ast.Constant,
                                ast.Name, ast.Attribute, ast.Load,
                                ast.UnaryOp, ast.USub))
                 for x in ast.walk(val)):
        return False
    for node in ast.walk(module_tree):
        tgt = None
        if isinstance(node, ast.Attribute) and node.attr == name:
            tgt = node
        elif isinstance(node, ast.Name) and node.id == name and \
                node is not binds[0].targets[0]:
            tgt = node
        if tgt is None:
            continue
        par = getattr(tgt, '_parent', None)
        if isinstance(tgt, ast.Name) and isinstance(tgt.ctx, ast.Store) \
                and isinstance(par, ast.Assign) and isinstance(
                    getattr(par, '_parent', None), ast.ClassDef) \
                and par._parent is not class_node:
            # the same name bound at the top of another class is that
            # class's own constant
            continue
        if isinstance(tgt.ctx, (ast.Store, ast.Del)) and node is not \
                binds[0].targets[0]:
            return False
        if isinstance(par, ast.Subscript) and par.value is tgt and isinstance(
                par.ctx, (ast.Store, ast.Del)):
            return False
        if isinstance(par, ast.Attribute) and par.value is tgt and \
                par.attr in MUTATING_METHODS:
            return False
        if isinstance(par, ast.AugAssign) and par.target is tgt:
            return False
    return True

"""EFFECT analysis: which objects can a function mutate?

For every mutation site in a function (attribute/item store or delete,
augmented assignment, mutating method call, setattr, assignment to a declared
global) the root object is classified:

  self / cls          the receiver
  param:<name>        an object handed in by the caller
  global:<name>       a module-level (or imported) name
  fresh               an object created in this function (literal, constructor
                      call, copy) -- invisible to callers unless it escapes
  elem:<root>         an element obtained by iterating/indexing <root>

Aliases are chased flow-insensitively through local assignments with one
refinement: an unconditional rebinding at the top level of the function body
kills earlier bindings (so `mol = Chem.AddHs(mol)` makes later `mol.X()`
mutations land on the copy).
"""
import ast

from .source import dotted, src

MUTATORS = {'append', 'extend', 'insert', 'pop', 'remove', 'clear', 'sort',
            'reverse', 'update', 'setdefault', 'popitem', 'add', 'discard',
            'appendleft', 'popleft', 'difference_update',
            'intersection_update', 'symmetric_difference_update'}

# calls whose result is a new object, not an alias of an argument
FRESH_CALLS = {'list', 'dict', 'set', 'tuple', 'frozenset', 'sorted', 'str',
               'int', 'float', 'bool', 'defaultdict', 'OrderedDict', 'zip',
               'map', 'filter', 'range', 'enumerate', 'len', 'sum', 'min',
               'max', 'abs', 'repr', 'type', 'open', 'iter', 'reversed',
               'isinstance', 'hasattr', 'getattr', 'deepcopy', 'copy'}
FRESH_METHODS = {'copy', 'items', 'keys', 'values', 'split', 'join', 'format',
                 'strip', 'replace', 'get', '__copy__', 'lower', 'upper',
                 'index', 'count', 'read', 'readlines'}
# note: dict.get returns an *element* (alias of stored value), handled below


class Binding(object):
    def __init__(self, line, kind, expr, toplevel):
        self.line, self.kind, self.expr, self.toplevel = (line, kind, expr,
                                                          toplevel)


def _toplevel(node, func):
    p = getattr(node, '_parent', None)
    while p is not None and p is not func:
        if isinstance(p, (ast.If, ast.For, ast.While, ast.Try, ast.With,
                          ast.ExceptHandler)):
            if not isinstance(p, ast.With):
                return False
        p = getattr(p, '_parent', None)
    return True


class FuncEffects(object):
    def __init__(self, func, module_names=()):
        self.func = func
        self.module_names = set(module_names)
        self.params = [a.arg for a in func.args.args] + \
            [a.arg for a in func.args.kwonlyargs] + \
            ([func.args.vararg.arg] if func.args.vararg else []) + \
            ([func.args.kwarg.arg] if func.args.kwarg else [])
        self.globals_decl = set()
        self.bindings = {}
        for n in self._walk(func):
            if isinstance(n, (ast.Global, ast.Nonlocal)):
                self.globals_decl.update(n.names)
        for p in self.params:
            self._bind(p, Binding(func.lineno, 'param', None, True))
        for n in self._walk(func):
            if isinstance(n, ast.Assign):
                for t in n.targets:
                    self._bind_target(t, n.value, n)
            elif isinstance(n, ast.AnnAssign) and n.value is not None:
                self._bind_target(n.target, n.value, n)
            elif isinstance(n, ast.For):
                self._bind_target(n.target, ('elem', n.iter), n)
            elif isinstance(n, ast.With):
                for it in n.items:
                    if it.optional_vars is not None:
                        self._bind_target(it.optional_vars,
                                          ('fresh', it.context_expr), n)
            elif isinstance(n, ast.comprehension):
                self._bind_target(n.target, ('elem', n.iter), n)
            elif isinstance(n, ast.ExceptHandler) and n.name:
                self._bind(n.name, Binding(n.lineno, 'fresh', None, False))
            elif isinstance(n, (ast.Import, ast.ImportFrom)):
                for a in n.names:
                    self._bind((a.asname or a.name).split('.')[0],
                               Binding(n.lineno, 'global', None, True))
            elif isinstance(n, (ast.FunctionDef, ast.ClassDef)) \
                    and n is not func:
                self._bind(n.name, Binding(n.lineno, 'fresh', None, True))

    def _walk(self, node):
        """Walk without descending into nested function/class bodies (their
        effects happen when they are called, not here) -- except lambdas and
        comprehensions, which run inline."""
        todo = list(ast.iter_child_nodes(node))
        while todo:
            n = todo.pop()
            yield n
            if isinstance(n, (ast.FunctionDef, ast.ClassDef)):
                continue
            todo.extend(ast.iter_child_nodes(n))

    def _bind(self, name, b):
        self.bindings.setdefault(name, []).append(b)

    def _bind_target(self, t, value, stmt):
        top = _toplevel(stmt, self.func) and isinstance(
            stmt, (ast.Assign, ast.AnnAssign))
        if isinstance(t, ast.Name):
            self._bind(t.id, Binding(getattr(stmt, 'lineno', t.lineno),
                                     'expr', value, top))
        elif isinstance(t, (ast.Tuple, ast.List)):
            for e in t.elts:
                if isinstance(value, tuple):
                    self._bind_target(e, value, stmt)
                else:
                    self._bind_target(e, ('elem', value), stmt)
        elif isinstance(t, ast.Starred):
            self._bind_target(t.value, value, stmt)

    # ------------------------------------------------------------------
    def roots(self, expr, line, seen=None):
        """Set of root classifications for the object `expr` evaluates to."""
        if seen is None:
            seen = set()
        if isinstance(expr, tuple):          # ('elem'|'fresh', expr)
            if expr[0] == 'fresh':
                return {'fresh'}
            inner = self.roots(expr[1], line, seen)
            return set(r if r == 'fresh' and self._fresh_container_of_fresh(
                expr[1]) else ('elem:' + r if not r.startswith('elem:')
                               else r) for r in inner)
        if isinstance(expr, ast.Name):
            return self._name_roots(expr.id, line, seen)
        if isinstance(expr, ast.Attribute):
            return self.roots(expr.value, line, seen)
        if isinstance(expr, ast.Subscript):
            return self.roots(expr.value, line, seen)
        if isinstance(expr, ast.Starred):
            return self.roots(expr.value, line, seen)
        if isinstance(expr, ast.IfExp):
            return self.roots(expr.body, line, seen) | self.roots(
                expr.orelse, line, seen)
        if isinstance(expr, ast.BoolOp):
            out = set()
            for v in expr.values:
                out |= self.roots(v, line, seen)
            return out
        if isinstance(expr, ast.Call):
            fn = dotted(expr.func)
            if isinstance(expr.func, ast.Attribute):
                m = expr.func.attr
                if m in ('get', 'pop', 'setdefault', '__getitem__'):
                    return set('elem:' + r if not r.startswith('elem:')
                               else r
                               for r in self.roots(expr.func.value, line,
                                                   seen))
                # RDKit accessors return views into the owning molecule
                if m.startswith('Get') and m not in ('GetSubstructMatches',
                                                     'GetSubstructMatch',
                                                     'GetMolFrags'):
                    return self.roots(expr.func.value, line, seen)
            return {'fresh'}
        if isinstance(expr, (ast.List, ast.Dict, ast.Set, ast.Tuple,
                             ast.ListComp, ast.DictComp, ast.SetComp,
                             ast.GeneratorExp, ast.Constant, ast.JoinedStr,
                             ast.BinOp, ast.UnaryOp, ast.Compare,
                             ast.Lambda)):
            return {'fresh'}
        return {'unknown'}

    def _fresh_container_of_fresh(self, expr):
        return False

    def _name_roots(self, name, line, seen):
        if name == 'self':
            return {'self'}
        if name == 'cls':
            return {'cls'}
        if name in self.globals_decl:
            return {'global:' + name}
        bs = self.bindings.get(name)
        if not bs:
            # free variable of a nested function: a local of the enclosing
            # function is not process-wide state
            p = getattr(self.func, '_parent', None)
            while p is not None:
                if isinstance(p, ast.FunctionDef):
                    for x in ast.walk(p):
                        if isinstance(x, ast.Name) and x.id == name \
                                and isinstance(x.ctx, ast.Store):
                            return {'enclosing:' + name}
                    if name in [a.arg for a in p.args.args]:
                        return {'enclosing:' + name}
                p = getattr(p, '_parent', None)
            return {'global:' + name}
        if (name, line) in seen:
            return set()
        seen = seen | {(name, line)}
        before = [b for b in bs if b.line < line] or bs
        # last unconditional binding kills earlier ones
        kill = None
        for b in before:
            if b.toplevel:
                kill = b
        if kill is not None:
            before = [b for b in before if b.line >= kill.line]
        out = set()
        for b in before:
            if b.kind == 'param':
                out.add('param:' + name)
            elif b.kind == 'fresh':
                out.add('fresh')
            elif b.kind == 'global':
                out.add('global:' + name)
            else:
                out |= self.roots(b.expr, b.line, seen)
        return out

    # ------------------------------------------------------------------
    def mutations(self):
        """[(node, how, target_text, roots)]"""
        out = []
        for n in self._walk(self.func):
            if isinstance(n, (ast.Attribute, ast.Subscript)) and isinstance(
                    n.ctx, (ast.Store, ast.Del)):
                par = getattr(n, '_parent', None)
                how = 'del' if isinstance(n.ctx, ast.Del) else (
                    'augassign' if isinstance(par, ast.AugAssign)
                    else 'store')
                out.append((n, how, src(n), self.roots(n.value, n.lineno)))
            elif isinstance(n, ast.AugAssign) and isinstance(n.target,
                                                             ast.Name):
                r = self._name_roots(n.target.id, n.lineno, set())
                if n.target.id in self.globals_decl:
                    out.append((n, 'global-augassign', n.target.id, r))
                elif _immutable_rhs(n.value) or not _container_rhs(n.value):
                    pass    # str/number accumulation rebinds the name
                elif isinstance(n.op, (ast.Add, ast.BitOr, ast.BitAnd,
                                       ast.Sub, ast.Mult)):
                    # in-place for lists/sets/dicts: only matters when the
                    # name aliases a shared object
                    if any(x != 'fresh' for x in r):
                        out.append((n, 'augassign-name', n.target.id, r))
            elif isinstance(n, ast.Assign):
                for t in n.targets:
                    if isinstance(t, ast.Name) and t.id in self.globals_decl:
                        out.append((n, 'global-assign', t.id,
                                    {'global:' + t.id}))
            elif isinstance(n, ast.Call):
                if isinstance(n.func, ast.Attribute) \
                        and n.func.attr in MUTATORS:
                    out.append((n, 'call:' + n.func.attr, src(n.func.value),
                                self.roots(n.func.value, n.lineno)))
                elif dotted(n.func) in ('setattr', 'delattr') and n.args:
                    out.append((n, 'setattr', src(n.args[0]),
                                self.roots(n.args[0], n.lineno)))
        return out

    def persistent_mutations(self, allow_self_attrs=()):
        """Mutations whose root is visible after the call returns."""
        res = []
        for node, how, text, roots in self.mutations():
            vis = set(r for r in roots if r != 'fresh')
            if not vis:
                continue
            res.append((node, how, text, vis))
        return res


def _container_rhs(v):
    """RHS evidently a list/set/dict: `x += <that>` mutates x in place when
    x is a list/set/dict."""
    if isinstance(v, (ast.List, ast.Set, ast.Dict, ast.ListComp, ast.SetComp,
                      ast.DictComp, ast.Tuple)):
        return True
    if isinstance(v, ast.Call) and dotted(v.func) in ('list', 'set', 'dict',
                                                      'sorted', 'tuple'):
        return True
    if isinstance(v, ast.BinOp) and isinstance(v.op, ast.Mult):
        return _container_rhs(v.left) or _container_rhs(v.right)
    return False


def _immutable_rhs(v):
    """RHS evidently a str or a number: `x += <that>` cannot mutate in
    place."""
    if isinstance(v, ast.Constant):
        return True
    if isinstance(v, ast.JoinedStr):
        return True
    if isinstance(v, ast.BinOp):
        return _immutable_rhs(v.left) or _immutable_rhs(v.right)
    if isinstance(v, ast.UnaryOp):
        return _immutable_rhs(v.operand)
    if isinstance(v, ast.Call) and dotted(v.func) in (
            'str', 'int', 'float', 'len', 'repr', 'abs', 'sum', 'min', 'max'):
        return True
    if isinstance(v, ast.Call) and isinstance(v.func, ast.Attribute) \
            and v.func.attr in ('__str__', 'format', 'join', 'GetSymbol',
                                'GetFormalCharge', 'GetNumRadicalElectrons'):
        return True
    return False


def module_level_names(tree):
    names = set()
    for s in tree.body:
        if isinstance(s, ast.Assign):
            for t in s.targets:
                for x in ast.walk(t):
                    if isinstance(x, ast.Name):
                        names.add(x.id)
        elif isinstance(s, (ast.FunctionDef, ast.ClassDef)):
            names.add(s.name)
        elif isinstance(s, (ast.Import, ast.ImportFrom)):
            for a in s.names:
                names.add((a.asname or a.name).split('.')[0])
    return names


def describe(m):
    node, how, text, roots = m
    return '%s of %s (root %s) at line %d' % (how, text,
                                              '/'.join(sorted(roots)),
                                              node.lineno)

"""Normal forms and path summaries (no execution of repository code).

* `Poly`: polynomial over Q in opaque atoms -- the algebraic normal form of an
  arithmetic expression (operand order, parentheses, temporaries and renamed
  locals do not matter; a dropped factor or a misplaced parenthesis does).
* boolean/comparison normal form: `a > b` == `b < a`, `not a < b` == `b <= a`.
* `summarize(funcdef)`: a syntax-directed walk of a function body that yields
  one `Path` per structured control-flow path: the ordered trace of events
  (conditions taken, calls evaluated, stores, loops) and the outcome
  (return <normal form> / raise <class> / fall through).  Local temporaries
  are forward-substituted, `sum(genexp)` and the accumulate-in-a-loop idiom
  become one binder form with alpha-renamed bound variables.

Python has no goto, so for the statement kinds modelled here (if/elif/else,
for, while, try/except/finally, with, return, raise, assert, break, continue,
pass, assignments, expression statements, del, global, import) the structured
enumeration is exact; anything else raises `Unmodelled` (-> exit 2).
"""
import ast
from fractions import Fraction

from .source import AnalysisError, src


class Unmodelled(AnalysisError):
    pass


# ----------------------------------------------------------------------
# keys: every value has a hashable canonical key (nested tuples)
# ----------------------------------------------------------------------

def _sk(x):
    return repr(x)


class Poly(object):
    __slots__ = ('terms',)

    def __init__(self, terms=None):
        self.terms = {}
        if terms:
            for m, c in terms.items():
                if c != 0:
                    self.terms[m] = c

    @staticmethod
    def const(c):
        return Poly({(): Fraction(c)})

    @staticmethod
    def atom(a):
        return Poly({((a, 1),): Fraction(1)})

    def is_const(self):
        return all(m == () for m in self.terms)

    def const_value(self):
        return self.terms.get((), Fraction(0))

    def __add__(self, o):
        t = dict(self.terms)
        for m, c in o.terms.items():
            t[m] = t.get(m, 0) + c
        return Poly(t)

    def __neg__(self):
        return Poly(dict((m, -c) for m, c in self.terms.items()))

    def __sub__(self, o):
        return self + (-o)

    @staticmethod
    def _mulmono(a, b):
        d = dict(a)
        for atom, e in b:
            d[atom] = d.get(atom, 0) + e
        return tuple(sorted(((k, v) for k, v in d.items() if v != 0),
                            key=_sk))

    def __mul__(self, o):
        t = {}
        for m1, c1 in self.terms.items():
            for m2, c2 in o.terms.items():
                m = Poly._mulmono(m1, m2)
                t[m] = t.get(m, 0) + c1 * c2
        return Poly(t)

    def inverse(self):
        if len(self.terms) == 1:
            (m, c), = self.terms.items()
            return Poly({tuple((a, -e) for a, e in m): 1 / c})
        if not self.terms:
            raise Unmodelled('division by literal zero')
        return Poly.atom(('inv', self.key()))

    def __pow__(self, n):
        if n >= 0:
            r = Poly.const(1)
            for _ in range(n):
                r = r * self
            return r
        return (self ** (-n)).inverse()

    def key(self):
        if not self.terms:
            return ('num', Fraction(0))
        if len(self.terms) == 1:
            (m, c), = self.terms.items()
            if m == ():
                return ('num', c)
            if c == 1 and len(m) == 1 and m[0][1] == 1:
                return m[0][0]
        return ('poly', tuple(sorted(self.terms.items(), key=_sk)))

    def atoms(self):
        out = set()
        for m in self.terms:
            for a, _ in m:
                out.add(a)
        return out


def to_poly(v):
    return v if isinstance(v, Poly) else Poly.atom(v)


def key(v):
    return v.key() if isinstance(v, Poly) else v


def poly_of_key(k):
    """Inverse of Poly.key()."""
    if isinstance(k, tuple) and k and k[0] == 'num':
        return Poly.const(k[1])
    if isinstance(k, tuple) and k and k[0] == 'poly':
        return Poly(dict(k[1]))
    return Poly.atom(k)


# ----------------------------------------------------------------------
# pretty printing of keys (for diagnostics)
# ----------------------------------------------------------------------

def show(k):
    if isinstance(k, Poly):
        k = k.key()
    if not isinstance(k, tuple) or not k:
        return repr(k)
    t = k[0]
    if t == 'num':
        c = k[1]
        return str(c.numerator) if c.denominator == 1 else str(float(c))
    if t == 'poly':
        parts = []
        for m, c in k[1]:
            fs = []
            if c != 1 or not m:
                fs.append(show(('num', c)))
            for a, e in m:
                fs.append(show(a) if e == 1 else '%s^%d' % (show(a), e))
            parts.append('*'.join(fs))
        return '(' + ' + '.join(parts) + ')'
    if t == 'name':
        return k[1]
    if t == 'bv':
        return 'v%s' % '_'.join(str(i) for i in k[1:])
    if t == 'attr':
        return '%s.%s' % (show(k[1]), k[2])
    if t == 'call':
        args = [show(a) for a in k[2]] + ['%s=%s' % (n, show(a))
                                          for n, a in k[3]]
        return '%s(%s)' % (show(k[1]), ', '.join(args))
    if t == 'sub':
        return '%s[%s]' % (show(k[1]), show(k[2]))
    if t == 'const':
        return repr(k[1])
    if t == 'cmp':
        if k[1] == '==':
            a, b = k[2]
            return '(%s == %s)' % (show(a), show(b))
        return '(%s %s %s)' % (show(k[2]), k[1], show(k[3]))
    if t == 'not':
        return 'not %s' % show(k[1])
    if t in ('and', 'or'):
        return '(' + (' %s ' % t).join(show(x) for x in k[1]) + ')'
    if t == 'truthy':
        return 'bool(%s)' % show(k[1])
    if t in ('tuple', 'list', 'set'):
        o, c = {'tuple': '()', 'list': '[]', 'set': '{}'}[t]
        return o + ', '.join(show(x) for x in k[1]) + c
    if t == 'sum':
        return 'SUM{%s | %s}' % (show(k[1]), _show_gens(k[2]))
    if t == 'comp':
        return '%s{%s | %s}' % (k[1], show(k[2]), _show_gens(k[3]))
    if t == 'ifexp':
        return '(%s if %s else %s)' % (show(k[2]), show(k[1]), show(k[3]))
    if t == 'inv':
        return '1/%s' % show(k[1])
    if t == 'pow':
        return '%s**%s' % (show(k[1]), show(k[2]))
    if t == 'slice':
        return ':'.join('' if x is None else show(x) for x in k[1:])
    return '%s<%s>' % (t, ', '.join(show(x) if isinstance(x, tuple) else repr(x)
                                    for x in k[1:]))


def _show_gens(gens):
    return '; '.join('%s in %s%s' % (show(t), show(i),
                                     ''.join(' if ' + show(c) for c in cs))
                     for t, i, cs in gens)


# ----------------------------------------------------------------------
# boolean normal form
# ----------------------------------------------------------------------

def b_not(k):
    if k[0] == 'not':
        return k[1]
    if k[0] == 'cmp':
        if k[1] == '<':
            return ('cmp', '<=', k[3], k[2])
        if k[1] == '<=':
            return ('cmp', '<', k[3], k[2])
    if k[0] == 'const' and isinstance(k[1], bool):
        return ('const', not k[1])
    if k[0] == 'and':
        return ('or', tuple(sorted((b_not(x) for x in k[1]), key=_sk)))
    if k[0] == 'or':
        return ('and', tuple(sorted((b_not(x) for x in k[1]), key=_sk)))
    return ('not', k)


def b_cmp(op, a, b):
    if op == '<':
        return ('cmp', '<', a, b)
    if op == '>':
        return ('cmp', '<', b, a)
    if op == '<=':
        return ('cmp', '<=', a, b)
    if op == '>=':
        return ('cmp', '<=', b, a)
    if op == '==':
        return ('cmp', '==', tuple(sorted((a, b), key=_sk)))
    if op == '!=':
        return ('not', ('cmp', '==', tuple(sorted((a, b), key=_sk))))
    if op == 'is':
        return ('cmp', 'is', a, b)
    if op == 'is not':
        return ('not', ('cmp', 'is', a, b))
    if op == 'in':
        return ('cmp', 'in', a, b)
    if op == 'not in':
        return ('not', ('cmp', 'in', a, b))
    raise Unmodelled('comparison %s' % op)


_BOOLISH = ('cmp', 'not', 'and', 'or')


def as_bool(k):
    """Key in a truth-value context."""
    if isinstance(k, Poly):
        k = k.key()
    if k[0] in _BOOLISH:
        return k
    if k[0] == 'const' and isinstance(k[1], bool):
        return k
    if k[0] == 'const' and k[1] is None:
        return ('const', False)
    if k[0] == 'num':
        return ('const', k[1] != 0)
    return ('truthy', k)


def bool_atoms(k, out=None):
    """Atomic predicates of a boolean key (positive polarity)."""
    if out is None:
        out = []
    if k[0] in ('and', 'or'):
        for x in k[1]:
            bool_atoms(x, out)
    elif k[0] == 'not':
        bool_atoms(k[1], out)
    elif k[0] == 'const':
        pass
    else:
        a = atom_of(k)[0]
        if a not in out:
            out.append(a)
    return out


def atom_of(k):
    """(atom, polarity): complementary comparisons are one atom."""
    if k[0] == 'cmp' and k[1] == '<=':
        # a <= b  is  not (b < a)
        return ('cmp', '<', k[3], k[2]), False
    return k, True


def eval_bool(k, assign):
    """Three-valued evaluation under a partial assignment atom->bool."""
    if k[0] == 'const':
        return bool(k[1])
    if k[0] == 'not':
        v = eval_bool(k[1], assign)
        return None if v is None else (not v)
    if k[0] == 'and':
        vals = [eval_bool(x, assign) for x in k[1]]
        if any(v is False for v in vals):
            return False
        return None if any(v is None for v in vals) else True
    if k[0] == 'or':
        vals = [eval_bool(x, assign) for x in k[1]]
        if any(v is True for v in vals):
            return True
        return None if any(v is None for v in vals) else False
    a, pol = atom_of(k)
    if a in assign:
        return assign[a] if pol else (not assign[a])
    return None


# ----------------------------------------------------------------------
# renaming (for mirror / sibling comparison)
# ----------------------------------------------------------------------

def rename(k, mapping):
    """Rebuild key `k` with names/attribute names substituted and the result
    re-normalised.  mapping: {'name:x': 'y', 'attr:min_T': 'max_T',
    'cmpflip': True}."""
    if isinstance(k, Poly):
        k = k.key()
    if not isinstance(k, tuple) or not k:
        return k
    t = k[0]
    if t == 'num':
        return k
    if t == 'poly':
        p = Poly()
        for m, c in k[1]:
            term = Poly.const(c)
            for a, e in m:
                term = term * (to_poly(poly_of_key(rename(a, mapping))) ** e)
            p = p + term
        return p.key()
    if t == 'name':
        return ('name', mapping.get('name:' + k[1], k[1]))
    if t == 'attr':
        return ('attr', rename(k[1], mapping),
                mapping.get('attr:' + k[2], k[2]))
    if t == 'cmp':
        if k[1] == '==':
            return b_cmp('==', rename(k[2][0], mapping),
                         rename(k[2][1], mapping))
        a, b = rename(k[2], mapping), rename(k[3], mapping)
        if mapping.get('cmpflip') and k[1] in ('<', '<='):
            return ('cmp', k[1], b, a)
        return ('cmp', k[1], a, b)
    if t == 'not':
        return b_not(rename(k[1], mapping))
    if t in ('and', 'or'):
        return (t, tuple(sorted((rename(x, mapping) for x in k[1]),
                                key=_sk)))
    return tuple(rename(x, mapping) if isinstance(x, tuple) else x
                 for x in k)


def mentions(k, pred):
    """Does any sub-key satisfy pred?"""
    if isinstance(k, Poly):
        k = k.key()
    if isinstance(k, tuple):
        if k and isinstance(k[0], str) and pred(k):
            return True
        return any(mentions(x, pred) for x in k if isinstance(x, tuple))
    return False


def subkeys(k):
    if isinstance(k, Poly):
        k = k.key()
    if isinstance(k, tuple):
        if k and isinstance(k[0], str):
            yield k
        for x in k:
            if isinstance(x, tuple):
                for y in subkeys(x):
                    yield y


# ----------------------------------------------------------------------
# expression evaluation
# ----------------------------------------------------------------------

_BINOPS = {ast.Add: '+', ast.Sub: '-', ast.Mult: '*', ast.Div: '/',
           ast.Pow: '**', ast.Mod: '%', ast.FloorDiv: '//',
           ast.BitOr: '|', ast.BitAnd: '&', ast.MatMult: '@',
           ast.BitXor: '^', ast.LShift: '<<', ast.RShift: '>>'}
_CMPOPS = {ast.Lt: '<', ast.LtE: '<=', ast.Gt: '>', ast.GtE: '>=',
           ast.Eq: '==', ast.NotEq: '!=', ast.Is: 'is', ast.IsNot: 'is not',
           ast.In: 'in', ast.NotIn: 'not in'}

TRANSPARENT_CALLS = {'float': 'numeric identity on numbers',
                     'np.any': 'any() of a scalar comparison is the '
                               'comparison',
                     'numpy.any': 'same'}


class State(object):
    def __init__(self, env=None, heap=None, trace=None):
        self.env = env if env is not None else {}
        self.heap = heap if heap is not None else {}
        self.trace = trace if trace is not None else []

    def copy(self):
        return State(dict(self.env), dict(self.heap), list(self.trace))


class Evaluator(object):
    def __init__(self, transparent=None, record_calls=True):
        self.transparent = dict(TRANSPARENT_CALLS)
        if transparent:
            self.transparent.update(transparent)
        self.record_calls = record_calls
        self.depth = 0

    # -- expressions -----------------------------------------------------
    def ev(self, node, st):
        m = getattr(self, 'ev_' + type(node).__name__, None)
        if m is None:
            raise Unmodelled('expression %s (%s)' % (type(node).__name__,
                                                     src(node)[:60]))
        return m(node, st)

    def k(self, node, st):
        return key(self.ev(node, st))

    def ev_Constant(self, n, st):
        v = n.value
        if isinstance(v, bool) or v is None or isinstance(v, (str, bytes)):
            return ('const', v)
        if isinstance(v, int):
            return Poly.const(v)
        if isinstance(v, float):
            return Poly.const(Fraction(repr(v)))
        if v is Ellipsis:
            return ('const', '...')
        raise Unmodelled('constant %r' % (v,))

    def ev_Name(self, n, st):
        if n.id in st.env:
            return st.env[n.id]
        if n.id in getattr(self, 'locals_', ()):
            # a function-local that is not bound on this path
            st.trace.append(('unbound', n.id, getattr(n, 'lineno', None)))
        return ('name', n.id)

    def ev_Attribute(self, n, st):
        base = self.k(n.value, st)
        hk = (base, n.attr)
        if hk in st.heap:
            return st.heap[hk]
        return ('attr', base, n.attr)

    def ev_Subscript(self, n, st):
        base = self.k(n.value, st)
        idx = self.k(n.slice, st)
        if base[0] in ('tuple', 'list') and idx[0] == 'num' \
                and idx[1].denominator == 1:
            i = int(idx[1])
            if -len(base[1]) <= i < len(base[1]):
                return poly_of_key(base[1][i])
        hk = (base, ('idx', idx))
        if hk in st.heap:
            return st.heap[hk]
        return ('sub', base, idx)

    def ev_Slice(self, n, st):
        return ('slice',
                None if n.lower is None else self.k(n.lower, st),
                None if n.upper is None else self.k(n.upper, st),
                None if n.step is None else self.k(n.step, st))

    def ev_Tuple(self, n, st):
        return ('tuple', tuple(self.k(e, st) for e in n.elts))

    def ev_List(self, n, st):
        return ('list', tuple(self.k(e, st) for e in n.elts))

    def ev_Set(self, n, st):
        return ('set', tuple(sorted((self.k(e, st) for e in n.elts),
                                    key=_sk)))

    def ev_Dict(self, n, st):
        items = []
        for kk, vv in zip(n.keys, n.values):
            items.append((None if kk is None else self.k(kk, st),
                          self.k(vv, st)))
        return ('dict', tuple(items))

    def ev_JoinedStr(self, n, st):
        parts = []
        for v in n.values:
            if isinstance(v, ast.Constant):
                parts.append(('const', v.value))
            else:
                parts.append(self.k(v.value, st))
        return ('fstr', tuple(parts))

    def ev_UnaryOp(self, n, st):
        if isinstance(n.op, ast.Not):
            return b_not(as_bool(self.k(n.operand, st)))
        v = self.ev(n.operand, st)
        if isinstance(n.op, ast.USub):
            return -to_poly(v)
        if isinstance(n.op, ast.UAdd):
            return to_poly(v)
        return ('unop', type(n.op).__name__, key(v))

    def ev_BinOp(self, n, st):
        op = _BINOPS.get(type(n.op))
        if op is None:
            raise Unmodelled('operator %s' % type(n.op).__name__)
        a = self.ev(n.left, st)
        b = self.ev(n.right, st)
        ka, kb = key(a), key(b)
        stringy = lambda kk: kk[0] in ('const', 'fstr', 'fmt', 'list',
                                       'tuple', 'strcat') and not (
            kk[0] == 'const' and isinstance(kk[1], bool))
        if op == '%' and ka[0] == 'const' and isinstance(ka[1], str):
            return ('fmt', ka, kb)
        if op in ('+', '*') and (stringy(ka) or stringy(kb)):
            return ('strcat' if op == '+' else 'seqrep', ka, kb)
        if op == '+':
            return to_poly(a) + to_poly(b)
        if op == '-':
            return to_poly(a) - to_poly(b)
        if op == '*':
            return to_poly(a) * to_poly(b)
        if op == '/':
            return to_poly(a) * to_poly(b).inverse()
        if op == '**':
            pb = to_poly(b)
            if pb.is_const() and pb.const_value().denominator == 1 \
                    and abs(pb.const_value()) <= 8:
                return to_poly(a) ** int(pb.const_value())
            return ('pow', ka, kb)
        return ('binop', op, ka, kb)

    def ev_BoolOp(self, n, st):
        vals = [as_bool(self.k(v, st)) for v in n.values]
        t = 'and' if isinstance(n.op, ast.And) else 'or'
        flat = []
        for v in vals:
            if v[0] == t:
                flat.extend(v[1])
            else:
                flat.append(v)
        # note: value-returning and/or (x or default) is also mapped here;
        # rules that care about the value use ifexp forms instead
        return (t, tuple(sorted(set(flat), key=_sk)))

    def ev_Compare(self, n, st):
        left = self.k(n.left, st)
        parts = []
        for op, right in zip(n.ops, n.comparators):
            r = self.k(right, st)
            parts.append(b_cmp(_CMPOPS[type(op)], left, r))
            left = r
        if len(parts) == 1:
            return parts[0]
        return ('and', tuple(sorted(parts, key=_sk)))

    def ev_IfExp(self, n, st):
        return ('ifexp', as_bool(self.k(n.test, st)), self.k(n.body, st),
                self.k(n.orelse, st))

    def ev_Lambda(self, n, st):
        st2 = st.copy()
        names = [a.arg for a in n.args.args]
        for i, a in enumerate(names):
            st2.env[a] = ('bv', 'lam', i)
        return ('lambda', len(names), self.k(n.body, st2))

    def ev_Starred(self, n, st):
        return ('star', self.k(n.value, st))

    def _call_name(self, fk):
        if fk[0] == 'name':
            return fk[1]
        if fk[0] == 'attr':
            b = self._call_name(fk[1])
            return None if b is None else b + '.' + fk[2]
        return None

    def ev_Call(self, n, st):
        fk = self.k(n.func, st)
        cname = self._call_name(fk)
        # builtins with algebraic meaning
        if cname == 'sum' and len(n.args) == 1 and not n.keywords \
                and isinstance(n.args[0], (ast.GeneratorExp, ast.ListComp)):
            comp = self._comp(n.args[0], st)
            res = ('sum', comp[2], comp[3])
            self._note_call(st, res, n)
            return res
        args = [self.k(a, st) for a in n.args]
        kws = tuple(sorted(((kw.arg, self.k(kw.value, st))
                            for kw in n.keywords), key=_sk))
        if cname in self.transparent and len(args) == 1 and not kws:
            return poly_of_key(args[0])
        if fk[0] == 'attr' and fk[2] == 'keys' and not args and not kws:
            # iterating / testing membership / len of d.keys() is the same
            # as of d
            return poly_of_key(fk[1])
        res = ('call', fk, tuple(args), kws)
        self._note_call(st, res, n)
        # a call on self (or passing self) may change self's attributes
        if (fk[0] == 'attr' and fk[1] == ('name', 'self')) \
                or ('name', 'self') in args:
            for hk in [h for h in st.heap if h[0] == ('name', 'self')]:
                del st.heap[hk]
        return res

    def _note_call(self, st, res, node):
        if self.record_calls:
            st.trace.append(('call', res, getattr(node, 'lineno', None)))

    # comprehensions ------------------------------------------------------
    def _bind_target(self, target, base, st):
        if isinstance(target, ast.Name):
            st.env[target.id] = base
        elif isinstance(target, (ast.Tuple, ast.List)):
            for i, e in enumerate(target.elts):
                self._bind_target(e, base + (i,), st)
        else:
            raise Unmodelled('loop target %s' % src(target))

    def _comp(self, n, st):
        st2 = st.copy()
        gens = []
        depth0 = self.depth
        for g in n.generators:
            it = self.k(g.iter, st2)
            base = ('bv', self.depth)
            self.depth += 1
            self._bind_target(g.target, base, st2)
            conds = tuple(sorted((as_bool(self.k(c, st2)) for c in g.ifs),
                                 key=_sk))
            gens.append((base, it, conds))
        if isinstance(n, ast.DictComp):
            elt = ('pair', self.k(n.key, st2), self.k(n.value, st2))
        else:
            elt = self.k(n.elt, st2)
        self.depth = depth0
        kind = {'GeneratorExp': 'gen', 'ListComp': 'list',
                'SetComp': 'set', 'DictComp': 'dict'}[type(n).__name__]
        return ('comp', kind, elt, tuple(gens))

    def ev_GeneratorExp(self, n, st):
        return self._comp(n, st)

    ev_ListComp = ev_GeneratorExp
    ev_SetComp = ev_GeneratorExp
    ev_DictComp = ev_GeneratorExp


# ----------------------------------------------------------------------
# statements -> paths
# ----------------------------------------------------------------------

class Path(object):
    def __init__(self, st, outcome):
        self.trace = st.trace
        self.env = st.env
        self.heap = st.heap
        self.outcome = outcome      # ('return', key) | ('raise', cls, args)
        #                             | ('fall',)

    def conds(self):
        return [(e[1], e[2]) for e in self.trace if e[0] == 'cond']

    def facts(self):
        """atom -> bool for every condition that is a literal (an atom or
        its negation); complementary comparisons share one atom."""
        out = {}
        for k, pol in self.conds():
            while k[0] == 'not':
                k, pol = k[1], not pol
            if k[0] in ('and', 'or', 'const'):
                # a conjunction known true / disjunction known false fixes
                # its members
                if (k[0] == 'and' and pol) or (k[0] == 'or' and not pol):
                    for x in k[1]:
                        q = pol
                        while x[0] == 'not':
                            x, q = x[1], not q
                        if x[0] not in ('and', 'or', 'const'):
                            a, ap = atom_of(x)
                            out[a] = q if ap else not q
                continue
            a, ap = atom_of(k)
            out[a] = pol if ap else not pol
        return out

    def says(self, atom, value=True):
        a, ap = atom_of(atom)
        f = self.facts()
        return a in f and f[a] == (value if ap else not value)

    def calls(self):
        return [e[1] for e in self.trace if e[0] == 'call']

    def stores(self):
        return [e for e in self.trace if e[0] == 'store']

    def feasible(self, assign):
        for k, pol in self.conds():
            v = eval_bool(k, assign)
            if v is not None and v != pol:
                return False
        return True

    def describe(self):
        cs = ' and '.join(('' if pol else 'not ') + show(k)
                          for k, pol in self.conds()) or 'always'
        o = self.outcome
        if o[0] == 'return':
            return '[%s] -> return %s' % (cs, show(o[1]))
        if o[0] == 'raise':
            return '[%s] -> raise %s' % (cs, o[1])
        return '[%s] -> %s' % (cs, o[0])


MAX_PATHS = 4096


class Summarizer(Evaluator):
    def __init__(self, **kw):
        Evaluator.__init__(self, **kw)
        self.loop_id = 0

    def summarize(self, func, env=None):
        st = State(env=dict(env or {}))
        # locals: names stored somewhere in the function (not parameters,
        # not declared global)
        params_ = set(a.arg for a in func.args.args + func.args.kwonlyargs)
        if func.args.vararg:
            params_.add(func.args.vararg.arg)
        if func.args.kwarg:
            params_.add(func.args.kwarg.arg)
        glob = set()
        stored = set()
        todo = list(func.body)
        while todo:
            x = todo.pop()
            if isinstance(x, (ast.FunctionDef, ast.ClassDef, ast.Lambda)):
                if isinstance(x, (ast.FunctionDef, ast.ClassDef)):
                    stored.add(x.name)
                continue
            if isinstance(x, (ast.Global, ast.Nonlocal)):
                glob.update(x.names)
            if isinstance(x, ast.Name) and isinstance(x.ctx, ast.Store):
                stored.add(x.id)
            if isinstance(x, (ast.ListComp, ast.SetComp, ast.DictComp,
                              ast.GeneratorExp)):
                continue    # comprehension targets are their own scope
            if isinstance(x, ast.ExceptHandler) and x.name:
                stored.add(x.name)
            if isinstance(x, (ast.Import, ast.ImportFrom)):
                for a in x.names:
                    stored.add((a.asname or a.name).split('.')[0])
            todo.extend(ast.iter_child_nodes(x))
        self.locals_ = stored - params_ - glob
        outs = self.block(func.body, st)
        paths = []
        for s, o in outs:
            if o is None:
                o = ('return', ('const', None)) if isinstance(
                    func, ast.FunctionDef) else ('fall',)
            if o[0] in ('break', 'continue'):
                raise Unmodelled('%s outside loop' % o[0])
            paths.append(Path(s, o))
        return paths

    # returns list of (state, outcome-or-None)
    def block(self, stmts, st):
        live = [(st, None)]
        for stmt in stmts:
            nxt = []
            for s, o in live:
                if o is not None:
                    nxt.append((s, o))
                else:
                    nxt.extend(self.stmt(stmt, s))
            live = nxt
            if len(live) > MAX_PATHS:
                raise Unmodelled('more than %d paths' % MAX_PATHS)
        return live

    def stmt(self, n, st):
        m = getattr(self, 'st_' + type(n).__name__, None)
        if m is None:
            raise Unmodelled('statement %s at line %s'
                             % (type(n).__name__, n.lineno))
        return m(n, st)

    def st_Pass(self, n, st):
        return [(st, None)]

    st_Global = st_Pass
    st_Nonlocal = st_Pass

    def st_Import(self, n, st):
        for a in n.names:
            st.env[(a.asname or a.name).split('.')[0]] = (
                'import', a.name if a.asname else a.name.split('.')[0])
        return [(st, None)]

    def st_ImportFrom(self, n, st):
        for a in n.names:
            st.env[a.asname or a.name] = ('importfrom', '.' * n.level
                                          + (n.module or ''), a.name)
        return [(st, None)]

    def st_FunctionDef(self, n, st):
        st.env[n.name] = ('localfunc', n.name)
        return [(st, None)]

    st_ClassDef = st_FunctionDef

    def st_Expr(self, n, st):
        if isinstance(n.value, ast.Constant):
            return [(st, None)]
        v = self.k(n.value, st)
        st.trace.append(('expr', v, n.lineno))
        return [(st, None)]

    def st_Return(self, n, st):
        v = ('const', None) if n.value is None else self.k(n.value, st)
        return [(st, ('return', v))]

    def st_Raise(self, n, st):
        if n.exc is None:
            return [(st, ('raise', '<reraise>', ()))]
        if isinstance(n.exc, ast.Call):
            cls = src(n.exc.func)
            args = tuple(self.k(a, st) for a in n.exc.args)
        else:
            cls = src(n.exc)
            args = ()
        return [(st, ('raise', cls, args))]

    def st_Assert(self, n, st):
        t = as_bool(self.k(n.test, st))
        ok = st.copy()
        ok.trace.append(('cond', t, True, n.lineno))
        bad = st
        bad.trace.append(('cond', t, False, n.lineno))
        return [(ok, None), (bad, ('raise', 'AssertionError', ()))]

    def st_Delete(self, n, st):
        for t in n.targets:
            st.trace.append(('del', self._target_key(t, st), n.lineno))
            if isinstance(t, ast.Name):
                st.env.pop(t.id, None)
        return [(st, None)]

    def _target_key(self, t, st):
        if isinstance(t, ast.Name):
            return ('name', t.id)
        if isinstance(t, ast.Attribute):
            return ('attr', self.k(t.value, st), t.attr)
        if isinstance(t, ast.Subscript):
            return ('sub', self.k(t.value, st), self.k(t.slice, st))
        if isinstance(t, (ast.Tuple, ast.List)):
            return ('tuple', tuple(self._target_key(e, st) for e in t.elts))
        if isinstance(t, ast.Starred):
            return ('star', self._target_key(t.value, st))
        raise Unmodelled('assignment target %s' % src(t))

    def assign(self, target, val, st, lineno):
        vk = key(val)
        if isinstance(target, ast.Name):
            st.env[target.id] = val
        elif isinstance(target, ast.Attribute):
            base = self.k(target.value, st)
            tk = ('attr', base, target.attr)
            self._note_increment(tk, val, st, lineno)
            st.heap[(base, target.attr)] = val
            st.trace.append(('store', tk, vk, lineno))
        elif isinstance(target, ast.Subscript):
            base = self.k(target.value, st)
            idx = self.k(target.slice, st)
            tk = ('sub', base, idx)
            self._note_increment(tk, val, st, lineno)
            st.heap[(base, ('idx', idx))] = val
            st.trace.append(('store', tk, vk, lineno))
        elif isinstance(target, (ast.Tuple, ast.List)):
            for i, e in enumerate(target.elts):
                if vk[0] in ('tuple', 'list') and len(vk[1]) == len(
                        target.elts):
                    self.assign(e, poly_of_key(vk[1][i]), st, lineno)
                else:
                    self.assign(e, ('sub', vk, ('num', Fraction(i))), st,
                                lineno)
        else:
            raise Unmodelled('assignment target %s' % src(target))

    def _note_increment(self, tk, val, st, lineno):
        """`t += d`, `t -= d` and `t = t + d` all become one event
        ('aug', t, 'Add', d) with a signed delta."""
        if not isinstance(val, Poly):
            return
        mono = ((tk, 1),)
        if val.terms.get(mono) == 1:
            rest = Poly(dict((m, c) for m, c in val.terms.items()
                             if m != mono))
            if tk not in rest.atoms():
                st.trace.append(('aug', tk, 'Add', rest.key(), lineno))

    def st_Assign(self, n, st):
        val = self.ev(n.value, st)
        for t in n.targets:
            self.assign(t, val, st, n.lineno)
        return [(st, None)]

    def st_AnnAssign(self, n, st):
        if n.value is not None:
            self.assign(n.target, self.ev(n.value, st), st, n.lineno)
        return [(st, None)]

    def st_AugAssign(self, n, st):
        fake = ast.BinOp(left=_load(n.target), op=n.op, right=n.value)
        ast.copy_location(fake, n)
        val = self.ev(fake, st)
        self.assign(n.target, val, st, n.lineno)
        return [(st, None)]

    def st_If(self, n, st):
        t = as_bool(self.k(n.test, st))
        if t[0] == 'const':
            return self.block(n.body if t[1] else n.orelse, st)
        a = st.copy()
        a.trace.append(('cond', t, True, n.lineno))
        b = st
        b.trace.append(('cond', t, False, n.lineno))
        return self.block(n.body, a) + self.block(n.orelse, b)

    def st_With(self, n, st):
        for item in n.items:
            v = self.ev(item.context_expr, st)
            if item.optional_vars is not None:
                self.assign(item.optional_vars, v, st, n.lineno)
        return self.block(n.body, st)

    # loops -----------------------------------------------------------
    def _loop(self, n, st, gens_key, bind):
        """Generic loop summary.  Body is walked once with the loop variable
        bound to an alpha-renamed bound variable.  Results:
        * for every body path that returns/raises: one overall path
          'exists an iteration satisfying <conds>' -> that outcome;
        * one fall-through path where each variable assigned in the body
          becomes pre + SUM(delta) when the body adds a loop-invariant-free
          delta to it (accumulate idiom), else an opaque loop value; the
          body's events are kept as one ('loop', ...) event."""
        self.loop_id += 1
        lid = self.loop_id
        pre = st
        body_st = State(dict(pre.env), dict(pre.heap), [])
        bind(body_st)
        self.depth += 1
        try:
            outs = self.block(n.body, body_st)
        finally:
            self.depth -= 1
        results = []
        fall_states = []
        for s, o in outs:
            if o is not None and o[0] in ('return', 'raise'):
                ex = pre.copy()
                conds = tuple((e[1], e[2]) for e in s.trace
                              if e[0] == 'cond')
                ex.trace.append(('cond', ('exists', gens_key, conds), True,
                                 n.lineno))
                ex.trace.append(('loop-part', gens_key, tuple(s.trace), lid))
                results.append((ex, o))
            else:
                fall_states.append((s, o))
        # fall-through
        ft = pre.copy()
        ex_conds = []
        for ex, o in results:
            ex_conds.append(ex.trace[-2][1])
        for c in ex_conds:
            ft.trace.append(('cond', c, False, n.lineno))
        body_events = []
        for s, o in fall_states:
            body_events.append((tuple(s.trace), o[0] if o else None))
        ft.trace.append(('loop', gens_key, tuple(body_events), lid, n.lineno))
        # variables
        assigned = set()
        for node in ast.walk(ast.Module(body=n.body, type_ignores=[])):
            if isinstance(node, (ast.Assign, ast.AugAssign, ast.AnnAssign,
                                 ast.For, ast.With, ast.NamedExpr)):
                tg = []
                if isinstance(node, ast.Assign):
                    tg = node.targets
                elif isinstance(node, ast.For):
                    tg = [node.target]
                elif isinstance(node, ast.With):
                    tg = [i.optional_vars for i in node.items
                          if i.optional_vars is not None]
                else:
                    tg = [node.target]
                for t in tg:
                    for x in ast.walk(t):
                        if isinstance(x, ast.Name) and isinstance(
                                x.ctx, ast.Store):
                            assigned.add(x.id)
        for name in sorted(assigned):
            newv = None
            if len(fall_states) == 1 and name in pre.env:
                post = fall_states[0][0].env.get(name)
                if post is not None:
                    delta = to_poly(post) - to_poly(pre.env[name])
                    pre_atoms = to_poly(pre.env[name]).atoms()
                    if not delta.is_const() or delta.const_value() != 0:
                        if not (delta.atoms() & pre_atoms) or \
                                to_poly(pre.env[name]).is_const():
                            newv = to_poly(pre.env[name]) + Poly.atom(
                                ('sum', delta.key(), gens_key))
                    else:
                        newv = pre.env[name]
            if newv is None:
                newv = ('loopvar', name, gens_key, lid)
            ft.env[name] = newv
        # heap entries written in the body are unknown afterwards
        for s, o in fall_states:
            for e in s.trace:
                if e[0] == 'store':
                    tk = e[1]
                    if tk[0] == 'attr':
                        ft.heap.pop((tk[1], tk[2]), None)
                    elif tk[0] == 'sub':
                        ft.heap.pop((tk[1], ('idx', tk[2])), None)
        if n.orelse:
            results.extend(self.block(n.orelse, ft))
        else:
            results.append((ft, None))
        return results

    def st_For(self, n, st):
        it = self.k(n.iter, st)
        base = ('bv', self.depth)
        gens_key = ((base, it, ()),)

        def bind(body_st):
            self._bind_target(n.target, base, body_st)
        return self._loop(n, st, gens_key, bind)

    def st_While(self, n, st):
        body_probe = State(dict(st.env), dict(st.heap), [])
        t = as_bool(self.k(n.test, body_probe))
        gens_key = ((('bv', self.depth), ('while', t), ()),)
        return self._loop(n, st, gens_key, lambda s: None)

    def st_Break(self, n, st):
        return [(st, ('break',))]

    def st_Continue(self, n, st):
        return [(st, ('continue',))]

    def st_Try(self, n, st):
        entry = st.copy()
        body = self.block(n.body, st)
        results = []
        handler_names = []
        for h in n.handlers:
            if h.type is None:
                handler_names.append(('<bare>',))
            elif isinstance(h.type, ast.Tuple):
                handler_names.append(tuple(src(e) for e in h.type.elts))
            else:
                handler_names.append((src(h.type),))
        for s, o in body:
            if o is not None and o[0] == 'raise':
                caught = False
                for h, names in zip(n.handlers, handler_names):
                    if o[1] in names or names == ('<bare>',) or \
                            'Exception' in names or 'BaseException' in names:
                        s.trace.append(('caught', o[1], names, h.lineno))
                        if h.name:
                            s.env[h.name] = ('exc', o[1])
                        results.extend(self.block(h.body, s))
                        caught = True
                        break
                if not caught:
                    results.append((s, o))
            else:
                if o is None and n.orelse:
                    results.extend(self.block(n.orelse, s))
                else:
                    results.append((s, o))
        # implicit exception edges: something in the body raised h's type
        for h, names in zip(n.handlers, handler_names):
            s = entry.copy()
            s.trace.append(('except', names, h.lineno))
            # locals assigned in the try body are unknown in the handler
            for node in ast.walk(ast.Module(body=n.body, type_ignores=[])):
                if isinstance(node, ast.Name) and isinstance(node.ctx,
                                                             ast.Store):
                    s.env[node.id] = ('maybe', node.id, h.lineno)
            if h.name:
                s.env[h.name] = ('exc', names)
            results.extend(self.block(h.body, s))
        if n.finalbody:
            fin = []
            for s, o in results:
                for s2, o2 in self.block(n.finalbody, s):
                    fin.append((s2, o2 if o2 is not None else o))
            results = fin
        return results


def _load(target):
    t = ast.parse(src(target), mode='eval').body
    return t


def summarize(func, **kw):
    return Summarizer(**kw).summarize(func)


def expr_key(text, env=None):
    """Normal form of an oracle expression written as Python text."""
    node = ast.parse(text, mode='eval').body
    ev = Evaluator(record_calls=False)
    return key(ev.ev(node, State(env=dict(env or {}))))


def decision_table(paths, atoms=None, implications=()):
    """Enumerate assignments of the predicate atoms and map each to the set
    of outcomes of the feasible paths.  implications: list of (a, b) meaning
    a => b (excluded assignments)."""
    if atoms is None:
        atoms = []
        for p in paths:
            for k, pol in p.conds():
                for a in bool_atoms(k):
                    if a not in atoms:
                        atoms.append(a)
    if len(atoms) > 12:
        raise Unmodelled('decision table over %d atoms' % len(atoms))
    table = []
    n = len(atoms)
    for bits in range(1 << n):
        assign = dict((a, bool(bits >> i & 1)) for i, a in enumerate(atoms))
        if any(assign.get(a) and not assign.get(b, True)
               for a, b in implications):
            continue
        outs = []
        for p in paths:
            if p.feasible(assign):
                outs.append(p)
        table.append((assign, outs))
    return atoms, table

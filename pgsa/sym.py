"""Normal forms and path summaries (no execution of repository code).

* `Poly`: polynomial over Q in opaque atoms -- the algebraic normal form of an
  arithmetic expression (operand order, parentheses, temporaries and renamed
  locals do not matter; a dropped factor or a misplaced parenthesis does).
* boolean/comparison normal form: `a > b` == `b < a`, `not a < b` == `b <= a`.
* `summarize(funcdef)`: a syntax-directed walk of a function body that yields
  one `Path` per structured control-flow path: the ordered trace of events
  (conditions taken, calls evaluated, stores, loops) and the outcome
  (return <normal form> / raise <class> / fall through).  Local temporaries
  are forward-substituted, `sum(genexp)` and the accumulate-in-a-loop idiom
  become one binder form with alpha-renamed bound variables.

Python has no goto, so for the statement kinds modelled here (if/elif/else,
for, while, try/except/finally, with, return, raise, assert, break, continue,
pass, assignments, expression statements, del, global, import) the structured
enumeration is exact; anything else raises `Unmodelled` (-> exit 2).
"""
import ast
import re
from fractions import Fraction

from .source import AnalysisError, src


class Unmodelled(AnalysisError):
    pass


# ----------------------------------------------------------------------
# keys: every value has a hashable canonical key (nested tuples)
# ----------------------------------------------------------------------

def _sk(x):
    return repr(x)


class Poly(object):
    __slots__ = ('terms',)

    def __init__(self, terms=None):
        self.terms = {}
        if terms:
            for m, c in terms.items():
                if c != 0:
                    self.terms[m] = c

    @staticmethod
    def const(c):
        return Poly({(): Fraction(c)})

    @staticmethod
    def atom(a):
        return Poly({((a, 1),): Fraction(1)})

    def is_const(self):
        return all(m == () for m in self.terms)

    def const_value(self):
        return self.terms.get((), Fraction(0))

    def __add__(self, o):
        t = dict(self.terms)
        for m, c in o.terms.items():
            t[m] = t.get(m, 0) + c
        return Poly(t)

    def __neg__(self):
        return Poly(dict((m, -c) for m, c in self.terms.items()))

    def __sub__(self, o):
        return self + (-o)

    @staticmethod
    def _mulmono(a, b):
        d = dict(a)
        for atom, e in b:
            d[atom] = d.get(atom, 0) + e
        return tuple(sorted(((k, v) for k, v in d.items() if v != 0),
                            key=_sk))

    def __mul__(self, o):
        t = {}
        for m1, c1 in self.terms.items():
            for m2, c2 in o.terms.items():
                m = Poly._mulmono(m1, m2)
                t[m] = t.get(m, 0) + c1 * c2
        return Poly(t)

    def inverse(self):
        if len(self.terms) == 1:
            (m, c), = self.terms.items()
            return Poly({tuple((a, -e) for a, e in m): 1 / c})
        if not self.terms:
            raise Unmodelled('division by literal zero')
        return Poly.atom(('inv', self.key()))

    def __pow__(self, n):
        if n >= 0:
            r = Poly.const(1)
            for _ in range(n):
                r = r * self
            return r
        return (self ** (-n)).inverse()

    def key(self):
        if not self.terms:
            return ('num', Fraction(0))
        if len(self.terms) == 1:
            (m, c), = self.terms.items()
            if m == ():
                return ('num', c)
            if c == 1 and len(m) == 1 and m[0][1] == 1:
                return m[0][0]
        return ('poly', tuple(sorted(self.terms.items(), key=_sk)))

    def atoms(self):
        out = set()
        for m in self.terms:
            for a, _ in m:
                out.add(a)
        return out


def to_poly(v):
    return v if isinstance(v, Poly) else Poly.atom(v)


def key(v):
    return v.key() if isinstance(v, Poly) else v


def poly_of_key(k):
    """Inverse of Poly.key()."""
    if isinstance(k, tuple) and k and k[0] == 'num':
        return Poly.const(k[1])
    if isinstance(k, tuple) and k and k[0] == 'poly':
        return Poly(dict(k[1]))
    return Poly.atom(k)


# ----------------------------------------------------------------------
# pretty printing of keys (for diagnostics)
# ----------------------------------------------------------------------

def show(k):
    if isinstance(k, Poly):
        k = k.key()
    if not isinstance(k, tuple) or not k:
        return repr(k)
    t = k[0]
    if t == 'num':
        c = k[1]
        return str(c.numerator) if c.denominator == 1 else str(float(c))
    if t == 'poly':
        parts = []
        for m, c in k[1]:
            fs = []
            if c != 1 or not m:
                fs.append(show(('num', c)))
            for a, e in m:
                fs.append(show(a) if e == 1 else '%s^%d' % (show(a), e))
            parts.append('*'.join(fs))
        return '(' + ' + '.join(parts) + ')'
    if t == 'name':
        return k[1]
    if t == 'bv':
        return 'v%s' % '_'.join(str(i) for i in k[1:])
    if t == 'attr':
        return '%s.%s' % (show(k[1]), k[2])
    if t == 'call':
        args = [show(a) for a in k[2]] + ['%s=%s' % (n, show(a))
                                          for n, a in k[3]]
        return '%s(%s)' % (show(k[1]), ', '.join(args))
    if t == 'sub':
        return '%s[%s]' % (show(k[1]), show(k[2]))
    if t == 'const':
        return repr(k[1])
    if t == 'cmp':
        if k[1] == '==':
            a, b = k[2]
            return '(%s == %s)' % (show(a), show(b))
        return '(%s %s %s)' % (show(k[2]), k[1], show(k[3]))
    if t == 'not':
        return 'not %s' % show(k[1])
    if t in ('and', 'or'):
        return '(' + (' %s ' % t).join(show(x) for x in k[1]) + ')'
    if t == 'truthy':
        return 'bool(%s)' % show(k[1])
    if t in ('tuple', 'list', 'set'):
        o, c = {'tuple': '()', 'list': '[]', 'set': '{}'}[t]
        return o + ', '.join(show(x) for x in k[1]) + c
    if t == 'sum':
        return 'SUM{%s | %s}' % (show(k[1]), _show_gens(k[2]))
    if t == 'comp':
        return '%s{%s | %s}' % (k[1], show(k[2]), _show_gens(k[3]))
    if t == 'ifexp':
        return '(%s if %s else %s)' % (show(k[2]), show(k[1]), show(k[3]))
    if t == 'inv':
        return '1/%s' % show(k[1])
    if t == 'pow':
        return '%s**%s' % (show(k[1]), show(k[2]))
    if t == 'slice':
        return ':'.join('' if x is None else show(x) for x in k[1:])
    return '%s<%s>' % (t, ', '.join(show(x) if isinstance(x, tuple) else repr(x)
                                    for x in k[1:]))


def _show_gens(gens):
    return '; '.join('%s in %s%s' % (show(t), show(i),
                                     ''.join(' if ' + show(c) for c in cs))
                     for t, i, cs in gens)


# ----------------------------------------------------------------------
# boolean normal form
# ----------------------------------------------------------------------

def _percent_spec(conv, spec):
    """The %-conversion that formats like `{!conv:spec}` for the simple
    cases (None if there is none)."""
    if conv == 'r' and spec == '':
        return '%r'
    if conv in ('', 's') and spec == '':
        return '%s'
    if conv == 'a' and spec == '':
        return '%a'
    m = re.match(r'^([-+ 0#]?)(\d*)((?:\.\d+)?)([dgfeExXs])$', spec)
    if m and conv == '':
        return '%' + m.group(1) + m.group(2) + m.group(3) + m.group(4)
    return None


def _format_to_percent(template, nargs):
    """'a {} b {0!r} c {1:d}'  ->  ('a %s b %r c %d', [0, 0, 1]); None for
    anything fancier (named fields, nested specs, attribute access)."""
    out, order, auto = '', [], 0
    i = 0
    while i < len(template):
        ch = template[i]
        if ch == '{':
            if template[i:i + 2] == '{{':
                out += '{'
                i += 2
                continue
            j = template.find('}', i)
            if j < 0:
                return None
            field = template[i + 1:j]
            m = re.match(r'^(\d*)(?:!([rsa]))?(?::([^{}]*))?$', field)
            if not m:
                return None
            idx = int(m.group(1)) if m.group(1) else auto
            if not m.group(1):
                auto += 1
            f = _percent_spec(m.group(2) or '', m.group(3) or '')
            if f is None or idx >= nargs:
                return None
            out += f
            order.append(idx)
            i = j + 1
        elif ch == '}':
            if template[i:i + 2] == '}}':
                out += '}'
                i += 2
                continue
            return None
        else:
            out += '%%' if ch == '%' else ch
            i += 1
    return out, order


def fmt_key(ka, kb):
    """'text %s' % args with constant string arguments of %s fields folded
    into the text ('%s %s' % ('group', k) == 'group %s' % k)."""
    args = list(kb[1]) if kb[0] == 'tuple' else [kb]
    specs = list(re.finditer(r'%(?:%|[-#0 +]*\d*(?:\.\d+)?[sdrgfeExXi])',
                             ka[1]))
    fields = [m for m in specs if m.group() != '%%']
    if len(fields) != len(args) or '%(' in ka[1] or '*' in ka[1]:
        return ('fmt', ka, kb)
    out, rest, pos = '', [], 0
    changed = False
    for m, a in zip(fields, args):
        out += ka[1][pos:m.start()]
        pos = m.end()
        if m.group() == '%s' and a[0] == 'const' and isinstance(a[1], str) \
                and '%' not in a[1]:
            out += a[1]
            changed = True
        else:
            out += m.group()
            rest.append(a)
    out += ka[1][pos:]
    if not rest:
        return ('const', out.replace('%%', '%'))
    # one argument: the same whether written `% x` or `% (x,)`
    return ('fmt', ('const', out),
            rest[0] if len(rest) == 1 else ('tuple', tuple(rest)))


def listlike(k):
    """A value known to be a list: literal, list comprehension, or a
    concatenation of such."""
    return k[0] == 'list' or (k[0] == 'comp' and k[1] == 'list') or (
        k[0] == 'strcat' and listlike(k[1]) and listlike(k[2]))


def strcat(a, b):
    """Concatenation, re-associated to the left (a + (b + c) == (a + b) + c
    for strings and lists), so that building a text piecewise or in one
    expression gives one key."""
    if b[0] == 'strcat':
        return strcat(strcat(a, b[1]), b[2])

    def is_str(k):
        return k[0] == 'const' and isinstance(k[1], str)
    if a[0] == 'list' and b[0] == 'list':
        return ('list', a[1] + b[1])            # [x] + [y] == [x, y]
    if b[0] == 'list' and a[0] == 'strcat' and a[2][0] == 'list':
        return strcat(a[1], ('list', a[2][1] + b[1]))
    if a == ('list', ()) and listlike(b):
        return b
    if b == ('list', ()) and listlike(a):
        return a
    if is_str(a) and is_str(b):
        return ('const', a[1] + b[1])       # 'ab' 'cd' == 'abcd'
    if is_str(b) and a[0] == 'strcat' and is_str(a[2]):
        return strcat(a[1], ('const', a[2][1] + b[1]))
    if is_str(a) and a[1] == '':
        return b            # '' + x is x (x is a string, or it raises)
    return ('strcat', a, b)


def stringy(k):
    """The value is a text whenever it exists (a text literal, a formatted
    text, or a concatenation with one of them: `str + other` raises)."""
    return k[0] == 'fmt' or (k[0] == 'const' and isinstance(k[1], str)) \
        or (k[0] == 'strcat' and (stringy(k[1]) or stringy(k[2])))


def lits_of(k, pol=True):
    """Flatten one condition into a set of literal keys."""
    if not pol:
        k = b_not(k)
    if k[0] == 'and':
        out = set()
        for x in k[1]:
            out |= lits_of(x, True)
        return out
    if k[0] == 'const':
        return set() if k[1] else {('const', False)}
    return {k}


def ifexp(c, a, b):
    """Conditional value with the test in positive polarity."""
    if a == b:
        return a
    if a == ('const', True) and b == ('const', False):
        return c            # True if c else False: the truth value of c
    if a == ('const', False) and b == ('const', True):
        return b_not(c)
    if c[0] == 'const' and isinstance(c[1], bool):
        return a if c[1] else b
    if c[0] == 'not':
        return ('ifexp', c[1], b, a)
    if c[0] == 'cmp' and c[1] == '<=':
        return ('ifexp', b_not(c), b, a)
    if a == b:
        return a
    return ('ifexp', c, a, b)


def lift_ifexp(k, depth=0):
    """Move a conditional sub-value to the top: f(a if c else b) ==
    f(a) if c else f(b) (not across comprehension / lambda boundaries)."""
    if depth > 4:
        return k

    def find(x):
        if not isinstance(x, tuple) or not x:
            return None
        if x[0] == 'ifexp':
            return x
        if x[0] in ('comp', 'lambda', 'sum', 'exists'):
            return None
        for y in x:
            if isinstance(y, tuple):
                r = find(y)
                if r is not None:
                    return r
        return None

    def subst(x, old, new):
        if x == old:
            return new
        if not isinstance(x, tuple):
            return x
        return tuple(subst(y, old, new) if isinstance(y, tuple) else y
                     for y in x)
    if k[0] == 'ifexp':
        return ifexp(k[1], lift_ifexp(k[2], depth + 1),
                     lift_ifexp(k[3], depth + 1))
    t = find(k)
    if t is None:
        return k
    return ifexp(t[1], lift_ifexp(subst(k, t, t[2]), depth + 1),
                 lift_ifexp(subst(k, t, t[3]), depth + 1))


STR_PREDICATES = ('isdigit', 'isalpha', 'isalnum', 'isdecimal', 'isnumeric',
                  'isupper', 'islower', 'isspace', 'istitle', 'isidentifier')


def simplify_lits(lits):
    """Drop literals implied by others in a conjunction: `x.isdigit()`
    (any str predicate) implies `x` is non-empty, and an empty `x` implies
    the predicate is False."""
    ls = set(lits)
    for l in list(ls):
        if l[0] == 'truthy' and l[1][0] == 'call' and l[1][1][0] == 'attr' \
                and l[1][1][2] in STR_PREDICATES and not l[1][2]:
            ls.discard(('truthy', l[1][1][1]))
        if l[0] == 'not' and l[1][0] == 'truthy':
            x = l[1][1]
            for m in list(ls):
                if m[0] == 'not' and m[1][0] == 'truthy' \
                        and m[1][1][0] == 'call' \
                        and m[1][1][1][0] == 'attr' \
                        and m[1][1][1][1] == x \
                        and m[1][1][1][2] in STR_PREDICATES \
                        and not m[1][1][2]:
                    ls.discard(m)
    return ls


def exists_key(gens, lits):
    """'some iteration of gens satisfies all lits' -- the one form shared by
    any(genexp), a flag-and-break loop and an early exit out of a loop."""
    g2 = []
    ls = set(lits)
    for base, it, conds in gens:
        for c in conds:
            ls |= lits_of(c)
        g2.append((base, it, ()))
    if len(g2) == 1 and g2[0][1][0] == 'comp' and g2[0][1][1] in (
            'gen', 'list') and len(g2[0][1][3]) == 1:
        # some x in (e(y) for y in G if c(y)) satisfies P(x)
        #   ==  some y in G satisfies c(y) and P(e(y))
        base = g2[0][0]
        elt = g2[0][1][2]
        ibase, iit, iconds = g2[0][1][3][0]

        def sub(k):
            if k == base:
                return elt
            if isinstance(k, tuple):
                return tuple(sub(x) if isinstance(x, tuple) else x
                             for x in k)
            return k
        ls = set(sub(l) for l in ls)
        for c in iconds:
            ls |= lits_of(c)
        g2 = [(ibase, iit, ())]
    return ('exists', tuple(g2), tuple(sorted(simplify_lits(ls), key=_sk)))


def b_not(k):
    if k[0] == 'not':
        return k[1]
    if k[0] == 'cmp':
        if k[1] == '<':
            return ('cmp', '<=', k[3], k[2])
        if k[1] == '<=':
            return ('cmp', '<', k[3], k[2])
    if k[0] == 'const' and isinstance(k[1], bool):
        return ('const', not k[1])
    if k[0] == 'and':
        return ('or', tuple(sorted((b_not(x) for x in k[1]), key=_sk)))
    if k[0] == 'or':
        return ('and', tuple(sorted((b_not(x) for x in k[1]), key=_sk)))
    return ('not', k)


def _len_arg(k):
    if k[0] == 'call' and k[1] == ('name', 'len') and len(k[2]) == 1 \
            and not k[3]:
        return k[2][0]
    return None


def _num(k, v):
    return k[0] == 'num' and k[1] == v


def b_cmp(op, a, b):
    if op in ('==', '!=') and a[0] == 'const' and b[0] == 'const' \
            and isinstance(a[1], (str, type(None))) \
            and isinstance(b[1], (str, type(None))):
        # two literals (a helper's parameter bound to the text its caller
        # passes, compared with the keys of a table)
        same = a[1] == b[1]
        return ('const', same if op == '==' else not same)
    if a[0] == 'num' and b[0] == 'num':
        import operator as _op
        return ('const', {'==': _op.eq, '!=': _op.ne, '<': _op.lt,
                          '<=': _op.le, '>': _op.gt, '>=': _op.ge,
                          'is': _op.eq, 'is not': _op.ne}[op](a[1], b[1])) \
            if op in ('==', '!=', '<', '<=', '>', '>=') else \
            ('cmp', op, a, b)
    # emptiness tests: len(x) > 0, len(x) != 0, len(x) >= 1  ==  bool(x)
    la, lb = _len_arg(a), _len_arg(b)
    if la is not None and lb is None:
        if (op in ('>', '!=') and _num(b, 0)) or (op == '>=' and _num(b, 1)):
            return ('truthy', la)
        if (op in ('<=', '==') and _num(b, 0)) or (op == '<' and _num(b, 1)):
            return ('not', ('truthy', la))
    if lb is not None and la is None:
        if (op in ('<', '!=') and _num(a, 0)) or (op == '<=' and _num(a, 1)):
            return ('truthy', lb)
        if (op in ('>=', '==') and _num(a, 0)) or (op == '>' and _num(a, 1)):
            return ('not', ('truthy', lb))
    if op in ('==', '!=', 'is', 'is not') and a[0] == 'attr' \
            and b[0] == 'attr' and a[1] == b[1] and a[2].isupper() \
            and b[2].isupper():
        # two named constants of one namespace (enum members, flags)
        same = a[2] == b[2]
        return ('const', same if op in ('==', 'is') else not same)
    if op in ('==', '!=') and (a[0] == 'ifexp') != (b[0] == 'ifexp'):
        x, c = (a, b) if a[0] == 'ifexp' else (b, a)
        if c[0] in ('num', 'const') and x[2][0] in ('num', 'const') \
                and x[3][0] in ('num', 'const') and x[2] != x[3]:
            r = None
            if c == x[2]:
                r = x[1]
            elif c == x[3]:
                r = b_not(x[1])
            if r is not None:
                return r if op == '==' else b_not(r)
    if op in ('==', '!=') and a[0] in _BOOLISH and b[0] in _BOOLISH:
        # two truth values are equal iff both hold or neither does
        both = ('and', tuple(sorted((a, b), key=_sk)))
        neither = ('and', tuple(sorted((b_not(a), b_not(b)), key=_sk)))
        r = ('or', tuple(sorted((both, neither), key=_sk)))
        return r if op == '==' else b_not(r)
    if op == '<':
        return ('cmp', '<', a, b)
    if op == '>':
        return ('cmp', '<', b, a)
    if op == '<=':
        return ('cmp', '<=', a, b)
    if op == '>=':
        return ('cmp', '<=', b, a)
    if op == '==':
        return ('cmp', '==', tuple(sorted((a, b), key=_sk)))
    if op == '!=':
        return ('not', ('cmp', '==', tuple(sorted((a, b), key=_sk))))
    if op == 'is':
        return ('cmp', 'is', a, b)
    if op == 'is not':
        return ('not', ('cmp', 'is', a, b))
    if op in ('in', 'not in') and b[0] == 'dict' and b[1] and all(
            x[0] is not None for x in b[1]):
        b = ('tuple', tuple(x[0] for x in b[1]))    # keys of a literal dict
    if op in ('in', 'not in') and b[0] in ('tuple', 'list', 'set') \
            and 0 < len(b[1]) <= 12 and all(
                x[0] in ('const', 'num') for x in b[1]):
        # x in ('a', 'b')  ==  x == 'a' or x == 'b'
        alts = tuple(sorted(set(b_cmp('==', a, x) for x in b[1]), key=_sk))
        r = alts[0] if len(alts) == 1 else ('or', alts)
        return r if op == 'in' else b_not(r)
    if op == 'in':
        return ('cmp', 'in', a, b)
    if op == 'not in':
        return ('not', ('cmp', 'in', a, b))
    raise Unmodelled('comparison %s' % op)


_BOOLISH = ('cmp', 'not', 'and', 'or', 'truthy', 'exists')


def _nonempty_text(k):
    """A string expression that cannot be empty (contains a non-empty
    constant piece)."""
    if k[0] == 'const':
        return isinstance(k[1], str) and k[1] != ''
    if k[0] == 'strcat':
        return _nonempty_text(k[1]) or _nonempty_text(k[2])
    if k[0] == 'fmt':
        return bool(re.sub(r'%[-#0 +]*\d*(?:\.\d+)?[a-zA-Z]', '', k[1][1]))
    return False


def as_bool(k):
    """Key in a truth-value context."""
    if isinstance(k, Poly):
        k = k.key()
    if k[0] == 'call' and k[1][0] == 'attr' and k[1][2] == 'join' \
            and len(k[2]) == 1 and not k[3] and k[2][0][0] == 'comp' \
            and _nonempty_text(k[2][0][2]):
        # ''.join(<non-empty pieces>) is non-empty iff there is a piece
        return ('truthy', ('comp', 'list') + k[2][0][2:])

    if k[0] in _BOOLISH:
        return k
    if k[0] == 'const' and isinstance(k[1], bool):
        return k
    if k[0] == 'const' and k[1] is None:
        return ('const', False)
    if k[0] == 'num':
        return ('const', k[1] != 0)
    return ('truthy', k)


def bool_atoms(k, out=None):
    """Atomic predicates of a boolean key (positive polarity)."""
    if out is None:
        out = []
    if k[0] in ('and', 'or'):
        for x in k[1]:
            bool_atoms(x, out)
    elif k[0] == 'not':
        bool_atoms(k[1], out)
    elif k[0] == 'const':
        pass
    else:
        a = atom_of(k)[0]
        if a not in out:
            out.append(a)
    return out


def atom_of(k):
    """(atom, polarity): complementary comparisons are one atom."""
    if k[0] == 'cmp' and k[1] == '<=':
        # a <= b  is  not (b < a)
        return ('cmp', '<', k[3], k[2]), False
    return k, True


def eval_bool(k, assign):
    """Three-valued evaluation under a partial assignment atom->bool."""
    if k[0] == 'const':
        return bool(k[1])
    if k[0] == 'not':
        v = eval_bool(k[1], assign)
        return None if v is None else (not v)
    if k[0] == 'and':
        vals = [eval_bool(x, assign) for x in k[1]]
        if any(v is False for v in vals):
            return False
        return None if any(v is None for v in vals) else True
    if k[0] == 'or':
        vals = [eval_bool(x, assign) for x in k[1]]
        if any(v is True for v in vals):
            return True
        return None if any(v is None for v in vals) else False
    a, pol = atom_of(k)
    if a in assign:
        return assign[a] if pol else (not assign[a])
    return None


# ----------------------------------------------------------------------
# renaming (for mirror / sibling comparison)
# ----------------------------------------------------------------------

def rename(k, mapping):
    """Rebuild key `k` with names/attribute names substituted and the result
    re-normalised.  mapping: {'name:x': 'y', 'attr:min_T': 'max_T',
    'cmpflip': True}."""
    if isinstance(k, Poly):
        k = k.key()
    if not isinstance(k, tuple) or not k:
        return k
    t = k[0]
    if t == 'num':
        return k
    if t == 'poly':
        p = Poly()
        for m, c in k[1]:
            term = Poly.const(c)
            for a, e in m:
                term = term * (to_poly(poly_of_key(rename(a, mapping))) ** e)
            p = p + term
        return p.key()
    if t == 'name':
        return ('name', mapping.get('name:' + k[1], k[1]))
    if t == 'attr':
        return ('attr', rename(k[1], mapping),
                mapping.get('attr:' + k[2], k[2]))
    if t == 'cmp':
        if k[1] == '==':
            return b_cmp('==', rename(k[2][0], mapping),
                         rename(k[2][1], mapping))
        a, b = rename(k[2], mapping), rename(k[3], mapping)
        if mapping.get('cmpflip') and k[1] in ('<', '<='):
            return ('cmp', k[1], b, a)
        return ('cmp', k[1], a, b)
    if t == 'not':
        return b_not(rename(k[1], mapping))
    if t in ('and', 'or'):
        return (t, tuple(sorted((rename(x, mapping) for x in k[1]),
                                key=_sk)))
    return tuple(rename(x, mapping) if isinstance(x, tuple) else x
                 for x in k)


def mentions_any(k, atoms):
    """Does any of `atoms` occur anywhere inside k?"""
    atoms = set(atoms)
    if not atoms:
        return False
    return mentions(k, lambda x: x in atoms)


def mentions(k, pred):
    """Does any sub-key satisfy pred?"""
    if isinstance(k, Poly):
        k = k.key()
    if isinstance(k, tuple):
        if k and isinstance(k[0], str) and pred(k):
            return True
        return any(mentions(x, pred) for x in k if isinstance(x, tuple))
    return False


def subkeys(k):
    if isinstance(k, Poly):
        k = k.key()
    if isinstance(k, tuple):
        if k and isinstance(k[0], str):
            yield k
        for x in k:
            if isinstance(x, tuple):
                for y in subkeys(x):
                    yield y


# ----------------------------------------------------------------------
# expression evaluation
# ----------------------------------------------------------------------

_BINOPS = {ast.Add: '+', ast.Sub: '-', ast.Mult: '*', ast.Div: '/',
           ast.Pow: '**', ast.Mod: '%', ast.FloorDiv: '//',
           ast.BitOr: '|', ast.BitAnd: '&', ast.MatMult: '@',
           ast.BitXor: '^', ast.LShift: '<<', ast.RShift: '>>'}
_CMPOPS = {ast.Lt: '<', ast.LtE: '<=', ast.Gt: '>', ast.GtE: '>=',
           ast.Eq: '==', ast.NotEq: '!=', ast.Is: 'is', ast.IsNot: 'is not',
           ast.In: 'in', ast.NotIn: 'not in'}

TRANSPARENT_CALLS = {'float': 'numeric identity on numbers',
                     'np.any': 'any() of a scalar comparison is the '
                               'comparison',
                     'numpy.any': 'same'}


_ALIAS = ('aliasof',)
_EPOCH = ('epoch',)
_PENDING = (('pending-epoch',), '')


class State(object):
    def __init__(self, env=None, heap=None, trace=None):
        self.env = env if env is not None else {}
        self.heap = heap if heap is not None else {}
        self.trace = trace if trace is not None else []

    def copy(self):
        return State(dict(self.env), dict(self.heap), list(self.trace))


class Evaluator(object):
    def __init__(self, transparent=None, record_calls=True, opaque=()):
        self.transparent = dict(TRANSPARENT_CALLS)
        if transparent:
            self.transparent.update(transparent)
        for name in opaque:
            self.transparent.pop(name, None)
        self.record_calls = record_calls
        self.depth = 0
        self.ctx = None

    # -- expressions -----------------------------------------------------
    def ev(self, node, st):
        m = getattr(self, 'ev_' + type(node).__name__, None)
        if m is None:
            raise Unmodelled('expression %s (%s)' % (type(node).__name__,
                                                     src(node)[:60]))
        return m(node, st)

    def k(self, node, st):
        return key(self.ev(node, st))

    def ev_Constant(self, n, st):
        v = n.value
        if isinstance(v, bool) or v is None or isinstance(v, (str, bytes)):
            return ('const', v)
        if isinstance(v, int):
            return Poly.const(v)
        if isinstance(v, float):
            return Poly.const(Fraction(repr(v)))
        if v is Ellipsis:
            return ('const', '...')
        raise Unmodelled('constant %r' % (v,))

    def ev_Name(self, n, st):
        if n.id in st.env:
            return st.env[n.id]
        if n.id in getattr(self, 'locals_', ()):
            # a function-local that is not bound on this path
            st.trace.append(('unbound', n.id, getattr(n, 'lineno', None)))
        alias = getattr(self, '_module_alias', None)
        if alias is not None and isinstance(n.ctx, ast.Load):
            a = alias(n)
            if a is not None:
                return self.ev(a, st)
            lam = self._helper_as_lambda(n)
            if lam is not None:
                return self.ev(lam, st)
        return ('name', n.id)

    def ev_Attribute(self, n, st):
        tab = getattr(self, '_const_table', None)
        if tab is not None:
            d = tab(n)
            if d is None and isinstance(n.ctx, ast.Load) and getattr(
                    self, 'ctx', None) is not None:
                d = self._const_scalar(n)
                if d is None:
                    d = self._class_function_alias(n)
            if d is not None:
                return self.ev(d, st)
        base = self.k(n.value, st)
        if base[0] == 'call' and not base[2] and not base[3] \
                and n.attr.isupper() and base[1][0] == 'attr' \
                and base[1][2][:1].isupper():
            # Class().CONSTANT is Class.CONSTANT (a named constant read
            # through a throw-away instance, e.g. Chem.BondType().DOUBLE)
            base = base[1]
        hk = (base, n.attr)
        if hk in st.heap:
            return st.heap[hk]
        return ('attr', base, n.attr)

    def ev_Subscript(self, n, st):
        base = self.k(n.value, st)
        idx = self.k(n.slice, st)
        if base[0] in ('tuple', 'list') and idx[0] == 'num' \
                and idx[1].denominator == 1:
            i = int(idx[1])
            if -len(base[1]) <= i < len(base[1]):
                return poly_of_key(base[1][i])
        hk = (base, ('idx', idx))
        if hk in st.heap:
            return st.heap[hk]
        return ('sub', base, idx)

    def ev_Slice(self, n, st):
        return ('slice',
                None if n.lower is None else self.k(n.lower, st),
                None if n.upper is None else self.k(n.upper, st),
                None if n.step is None else self.k(n.step, st))

    def ev_Tuple(self, n, st):
        return ('tuple', tuple(self.k(e, st) for e in n.elts))

    def ev_List(self, n, st):
        return ('list', tuple(self.k(e, st) for e in n.elts))

    def ev_Set(self, n, st):
        return ('set', tuple(sorted((self.k(e, st) for e in n.elts),
                                    key=_sk)))

    def ev_Dict(self, n, st):
        items = []
        for kk, vv in zip(n.keys, n.values):
            items.append((None if kk is None else self.k(kk, st),
                          self.k(vv, st)))
        return ('dict', tuple(items))

    def ev_JoinedStr(self, n, st):
        # f'..{x!r}..{n:d}' is '..%r..%d' % (x, n)
        text, args = '', []
        for v in n.values:
            if isinstance(v, ast.Constant):
                text += str(v.value).replace('%', '%%')
                continue
            spec = ''
            if v.format_spec is not None:
                if len(v.format_spec.values) == 1 and isinstance(
                        v.format_spec.values[0], ast.Constant):
                    spec = str(v.format_spec.values[0].value)
                else:
                    raise Unmodelled('computed format spec')
            conv = {114: 'r', 115: 's', 97: 'a', -1: ''}.get(v.conversion, '')
            f = _percent_spec(conv, spec)
            if f is None:
                raise Unmodelled('format spec %r' % spec)
            text += f
            args.append(self.k(v.value, st))
        if not args:
            return ('const', text.replace('%%', '%'))
        return fmt_key(('const', text), args[0] if len(args) == 1
                       else ('tuple', tuple(args)))

    def ev_UnaryOp(self, n, st):
        if isinstance(n.op, ast.Not):
            return b_not(as_bool(self.k(n.operand, st)))
        v = self.ev(n.operand, st)
        if isinstance(n.op, ast.USub):
            return -to_poly(v)
        if isinstance(n.op, ast.UAdd):
            return to_poly(v)
        return ('unop', type(n.op).__name__, key(v))

    def ev_BinOp(self, n, st):
        op = _BINOPS.get(type(n.op))
        if op is None:
            raise Unmodelled('operator %s' % type(n.op).__name__)
        a = self.ev(n.left, st)
        b = self.ev(n.right, st)
        ka, kb = key(a), key(b)
        stringy = lambda kk: kk[0] in ('const', 'fstr', 'fmt', 'list',
                                       'tuple', 'strcat') and not (
            kk[0] == 'const' and isinstance(kk[1], bool))
        if op == '%' and ka[0] == 'const' and isinstance(ka[1], str):
            return fmt_key(ka, kb)
        if op in ('+', '*') and (stringy(ka) or stringy(kb)):
            if op == '+':
                return strcat(ka, kb)
            for one, times in ((ka, kb), (kb, ka)):
                if one[0] == 'list' and len(one[1]) == 1 \
                        and one[1][0][0] in ('name', 'bv', 'const', 'num',
                                             'attr', 'sub', 'carried',
                                             'snapshot', 'poly') \
                        and times[0] not in ('list', 'tuple', 'const',
                                             'strcat'):
                    # (an element that is built afresh -- [[]] * n -- is one
                    # shared object, not n objects: left alone)
                    # [x] * n  ==  [x for _ in range(n)]
                    return ('comp', 'list', one[1][0], ((
                        ('bv', self.depth),
                        ('call', ('name', 'range'), (times,), ()), ()),))
            return ('seqrep', ka, kb)
        if op == '+':
            return to_poly(a) + to_poly(b)
        if op == '-':
            return to_poly(a) - to_poly(b)
        if op == '*':
            return to_poly(a) * to_poly(b)
        if op == '/':
            return to_poly(a) * to_poly(b).inverse()
        if op == '**':
            pb = to_poly(b)
            if pb.is_const() and pb.const_value().denominator == 1 \
                    and abs(pb.const_value()) <= 8:
                return to_poly(a) ** int(pb.const_value())
            return ('pow', ka, kb)
        return ('binop', op, ka, kb)

    def ev_BoolOp(self, n, st):
        vals = [as_bool(self.k(v, st)) for v in n.values]
        t = 'and' if isinstance(n.op, ast.And) else 'or'
        # note: value-returning and/or (x or default) is also mapped here;
        # rules that care about the value use ifexp forms instead
        return self._bool(t, vals)

    def ev_Compare(self, n, st):
        left = self.k(n.left, st)
        parts = []
        lnode = n.left
        for op, right in zip(n.ops, n.comparators):
            r = self.k(right, st)
            if isinstance(op, (ast.Is, ast.IsNot)) and hasattr(
                    self, '_sentinel_fact'):
                fact = self._sentinel_fact(lnode, left, right, r)
                if fact is not None:
                    parts.append(('const', fact if isinstance(op, ast.Is)
                                  else not fact))
                    left, lnode = r, right
                    continue
            lnode = right
            if isinstance(op, (ast.In, ast.NotIn)) and r[0] == 'list':
                r = ('tuple', r[1])     # membership in a literal
            if isinstance(op, (ast.In, ast.NotIn)) and isinstance(
                    right, (ast.Name, ast.Attribute)) and hasattr(
                    self, '_const_binding'):
                # membership in a read-only table of constants
                cm = self._const_members(right)
                members = None
                tb = None
                if cm is not None:
                    members = cm[1]
                    tb = ast.Dict(keys=[], values=[]) if cm[0] == 'dict' \
                        else ast.Tuple(elts=list(cm[1]), ctx=ast.Load())
                if members and (isinstance(tb, ast.Dict) or not all(
                        isinstance(m, ast.Constant) for m in members)) \
                        and not all(isinstance(m, ast.Constant)
                                    for m in members):
                    members = None
                    if not isinstance(tb, ast.Dict):
                        # named constants: the literal tuple itself
                        r = ('tuple', tuple(self.k(m, st) for m in tb.elts))
                if members:
                    r = ('tuple', tuple(self.k(m, st) for m in members))
            parts.append(b_cmp(_CMPOPS[type(op)], left, r))
            left = r
        if len(parts) == 1:
            return parts[0]
        return ('and', tuple(sorted(parts, key=_sk)))

    def ev_IfExp(self, n, st):
        return ifexp(as_bool(self.k(n.test, st)), self.k(n.body, st),
                     self.k(n.orelse, st))

    def ev_Lambda(self, n, st):
        st2 = st.copy()
        names = [a.arg for a in n.args.args]
        for i, a in enumerate(names):
            st2.env[a] = ('bv', 'lam', i)
        body = self.k(n.body, st2)
        # eta-reduction: lambda s: f(s)  ==  f
        if body[0] == 'call' and not body[3] and body[2] == tuple(
                ('bv', 'lam', i) for i in range(len(names))) and names \
                and not mentions(body[1], lambda x: x[0] == 'bv'
                                 and x[1:2] == ('lam',)):
            return body[1]
        return ('lambda', len(names), body)

    def ev_Starred(self, n, st):
        v = self.k(n.value, st)
        if v[0] == 'comp' and v[1] in ('list', 'gen'):
            v = ('comp', 'gen') + v[2:]     # f(*[..]) == f(*(..))
        return ('star', v)

    def _call_name(self, fk):
        if fk[0] == 'name':
            return fk[1]
        if fk[0] == 'attr':
            b = self._call_name(fk[1])
            return None if b is None else b + '.' + fk[2]
        return None

    # iterables whose wrapping in list()/tuple() changes nothing for the
    # consumer
    _ITER_CONSUMERS = {'dict', 'list', 'tuple', 'set', 'frozenset', 'sorted',
                       'sum', 'any', 'all', 'min', 'max', 'enumerate', 'zip',
                       'len', 'reversed', 'np.array', 'numpy.array'}
    _LOGICAL = {'np.logical_not': 'not', 'numpy.logical_not': 'not',
                'np.logical_and': 'and', 'numpy.logical_and': 'and',
                'np.logical_or': 'or', 'numpy.logical_or': 'or'}

    def _enumerable(self, node, st):
        """Elements of an iterable that is spelled out in the source:
        a literal tuple/list or range(<small constant>)."""
        if isinstance(node, (ast.Tuple, ast.List)) and len(node.elts) <= 12 \
                and not any(isinstance(e, ast.Starred) for e in node.elts):
            return list(node.elts)
        if isinstance(node, ast.Constant) and isinstance(node.value, str) \
                and 0 < len(node.value) <= 8:
            return [ast.copy_location(ast.Constant(value=ch), node)
                    for ch in node.value]
        if isinstance(node, ast.Call) and isinstance(node.func, ast.Name) \
                and node.func.id == 'range' and 'range' not in st.env \
                and not node.keywords and 1 <= len(node.args) <= 2:
            vals = []
            for a in node.args:
                k = self.k(a, st)
                if k[0] != 'num' or k[1].denominator != 1:
                    return None
                vals.append(int(k[1]))
            lo, hi = (0, vals[0]) if len(vals) == 1 else vals
            if 0 <= hi - lo <= 8:
                return [ast.Constant(value=i) for i in range(lo, hi)]
        return None

    def _known_length(self, node, st):
        """x[0], ..., x[n-1] when the path has established len(x) == n."""
        it = self.k(node, st)
        ln = ('call', ('name', 'len'), (it,), ())
        for e in st.trace:
            if e[0] != 'cond':
                continue
            k, pol = e[1], e[2]
            if k[0] == 'not':
                k, pol = k[1], not pol
            if pol and k[0] == 'cmp' and k[1] == '==' and ln in k[2]:
                other = [x for x in k[2] if x != ln]
                if len(other) == 1 and other[0][0] == 'num' \
                        and other[0][1].denominator == 1 \
                        and 0 < other[0][1] <= 8:
                    return [ast.copy_location(ast.Subscript(
                        value=node, slice=ast.Constant(value=i),
                        ctx=ast.Load()), node)
                        for i in range(int(other[0][1]))]
        return None

    def _operator_name(self, name):
        """'add' / 'sub' / 'mul' when `name` is that function of the
        operator module in the analysed module's imports."""
        ctx = getattr(self, 'ctx', None)
        if ctx is None or name in getattr(self, 'locals_', ()):
            return None
        for stmt in ctx[1].body:
            if isinstance(stmt, ast.ImportFrom) and stmt.module == 'operator':
                for a in stmt.names:
                    if (a.asname or a.name) == name and a.name in (
                            'add', 'sub', 'mul', 'itemgetter'):
                        return a.name
        return None

    def _apply_binary(self, f, x, y):
        op = self._operator_name(f[1]) if f[0] == 'name' else None
        if op == 'add':
            return (to_poly(poly_of_key(x)) + to_poly(poly_of_key(y))).key()
        if op == 'sub':
            return (to_poly(poly_of_key(x)) - to_poly(poly_of_key(y))).key()
        if op == 'mul':
            return (to_poly(poly_of_key(x)) * to_poly(poly_of_key(y))).key()
        return ('call', f, (x, y), ())

    def _quantifier(self, which, comp_node, st):
        """any(...) / all(...) over a generator expression."""
        if len(comp_node.generators) == 1 and not \
                comp_node.generators[0].is_async:
            g = comp_node.generators[0]
            elts = self._enumerable(g.iter, st)
            if elts is None:
                elts = self._known_length(g.iter, st)
            if elts is not None:
                vals = []
                for e in elts:
                    st2 = st.copy()
                    self._assign_name_only(g.target, self.ev(e, st2), st2)
                    v = as_bool(self.k(comp_node.elt, st2))
                    guards = [as_bool(self.k(c, st2)) for c in g.ifs]
                    if which == 'any':
                        v = self._bool('and', guards + [v])
                    else:
                        v = self._bool('or', [b_not(x) for x in guards]
                                       + [v])
                    vals.append(v)
                return self._bool('or' if which == 'any' else 'and', vals)
        comp = self._comp(comp_node, st)
        elt = as_bool(comp[2])
        if which == 'any':
            return exists_key(comp[3], lits_of(elt))
        # all(p) == not any(not p)
        return b_not(exists_key(comp[3], lits_of(b_not(elt))))

    def _bool(self, t, vals):
        flat = []
        for v in vals:
            if v[0] == t:
                flat.extend(v[1])
            elif v[0] == 'const' and isinstance(v[1], bool):
                if v[1] == (t == 'or'):
                    return ('const', v[1])
            else:
                flat.append(v)
        flat = sorted(set(flat), key=_sk)
        if not flat:
            return ('const', t == 'and')
        if len(flat) == 1:
            return flat[0]
        return (t, tuple(flat))

    def _assign_name_only(self, target, val, st):
        if isinstance(target, ast.Name):
            st.env[target.id] = val
        elif isinstance(target, (ast.Tuple, ast.List)):
            vk = key(val)
            if vk[0] == 'call' and vk[1] in (('name', 'list'),
                                             ('name', 'tuple')) \
                    and len(vk[2]) == 1 and not vk[3]:
                vk = vk[2][0]       # a, b = list(x)  ==  a, b = x
            for i, e in enumerate(target.elts):
                if vk[0] in ('tuple', 'list') and len(vk[1]) == len(
                        target.elts):
                    self._assign_name_only(e, poly_of_key(vk[1][i]), st)
                else:
                    self._assign_name_only(
                        e, ('sub', vk, ('num', Fraction(i))), st)
        else:
            raise Unmodelled('loop target %s' % src(target))

    def ev_Call(self, n, st):
        if getattr(self, 'inline', False) and self.ctx is not None \
                and getattr(self, 'expr_inline_depth', 0) < 3:
            self.expr_inline_depth = getattr(self, 'expr_inline_depth',
                                             0) + 1
            try:
                v = self._inline_expr(n, st)
            finally:
                self.expr_inline_depth -= 1
            if v is not None:
                return v
        fk = self.k(n.func, st)
        if fk[0] == 'lambda' and not n.keywords and len(n.args) == fk[1] \
                and not any(isinstance(a, ast.Starred) for a in n.args):
            # (lambda a, b: body)(x, y)  ==  body[a:=x, b:=y]
            actual = dict(((('bv', 'lam', i)), self.k(a, st))
                          for i, a in enumerate(n.args))

            def sub(k):
                if k in actual:
                    return actual[k]
                if isinstance(k, tuple):
                    if k[:1] == ('lambda',):
                        return k        # an inner lambda binds its own
                    return tuple(sub(x) if isinstance(x, tuple) else x
                                 for x in k)
                return k
            return poly_of_key(sub(fk[2]))
        cname = self._call_name(fk)
        # builtins with algebraic meaning
        if cname == 'sum' and len(n.args) == 1 and not n.keywords \
                and isinstance(n.args[0], (ast.GeneratorExp, ast.ListComp)):
            comp = self._comp(n.args[0], st)
            res = ('sum', comp[2], comp[3])
            self._note_call(st, res, n)
            return res
        if cname in ('any', 'all') and len(n.args) == 1 and not n.keywords \
                and isinstance(n.args[0], (ast.GeneratorExp, ast.ListComp)):
            return self._quantifier(cname, n.args[0], st)
        if cname in ('map',) and len(n.args) == 2 and not n.keywords \
                and not isinstance(n.args[0], ast.Lambda):
            # map(f, xs) == (f(x) for x in xs)
            f = self.k(n.args[0], st)
            it = self.k(n.args[1], st)
            base = ('bv', self.depth)
            return ('comp', 'gen', ('call', f, (base,), ()),
                    ((base, it, ()),))
        if cname == 'map' and len(n.args) == 3 and not n.keywords:
            # map(f, xs, [c]*len(xs)) == (f(x, c) for x in xs)
            f = self.k(n.args[0], st)
            xs = self.k(n.args[1], st)
            if xs[0] == 'call' and self._call_name(xs[1]) in (
                    'list', 'tuple') and len(xs[2]) == 1 and not xs[3]:
                xs = xs[2][0]
            rep = self.k(n.args[2], st)
            if rep[0] == 'comp' and rep[1] == 'list' and len(rep[3]) == 1 \
                    and not rep[3][0][2] and rep[3][0][1] == (
                        'call', ('name', 'range'),
                        (('call', ('name', 'len'), (xs,), ()),), ()):
                base = ('bv', self.depth)
                elt = self._apply_binary(f, base, rep[2])
                return ('comp', 'gen', elt, ((base, xs, ()),))
            if rep[0] == 'seqrep':
                a, b = rep[1], rep[2]
                if b[0] in ('list', 'tuple'):
                    a, b = b, a
                if a[0] in ('list', 'tuple') and len(a[1]) == 1 \
                        and b == ('call', ('name', 'len'), (xs,), ()):
                    base = ('bv', self.depth)
                    elt = self._apply_binary(f, base, a[1][0])
                    return ('comp', 'gen', elt, ((base, xs, ()),))
        args = []
        for a in n.args:
            ak = self.k(a, st)
            if ak[0] == 'star' and ak[1][0] in ('tuple', 'list'):
                args.extend(ak[1][1])       # f(*(a, b))  ==  f(a, b)
            else:
                args.append(ak)
        kws = tuple(sorted(((kw.arg, self.k(kw.value, st))
                            for kw in n.keywords), key=_sk))
        if cname == 'warn' and kws:
            # the stack level changes only which source line a warning is
            # attributed to
            kws = tuple(kw for kw in kws if kw[0] != 'stacklevel')
        if len(args) == 1 and not kws and (
                (fk[0] == 'name' and self._operator_name(fk[1])
                 == 'itemgetter') or fk == ('attr', ('name', 'operator'),
                                            'itemgetter')):
            # itemgetter(k)  ==  lambda v: v[k]
            return ('lambda', 1, ('sub', ('bv', 'lam', 0), args[0]))
        if cname == 'isinstance' and len(args) == 2 and not kws \
                and args[1][0] == 'tuple' and args[1][1]:
            # isinstance(x, (A, B))  ==  isinstance(x, A) or isinstance(x, B)
            return self._bool('or', [
                as_bool(('call', fk, (args[0], c), ()))
                for c in args[1][1]])
        if len(args) == 2 and not kws and fk[0] == 'name' \
                and self._operator_name(fk[1]) in ('add', 'sub', 'mul'):
            return poly_of_key(self._apply_binary(fk, args[0], args[1]))
        if cname in self.transparent and len(args) == 1 and not kws:
            return poly_of_key(args[0])
        if cname in self._LOGICAL and not kws:
            t = self._LOGICAL[cname]
            if t == 'not' and len(args) == 1:
                return b_not(as_bool(args[0]))
            if t != 'not' and len(args) == 2:
                return self._bool(t, [as_bool(a) for a in args])
        if fk[0] == 'attr' and fk[2] == 'keys' and not args and not kws:
            # iterating / testing membership / len of d.keys() is the same
            # as of d
            return poly_of_key(fk[1])
        if fk[0] == 'attr' and fk[2] == '__str__' and not args and not kws:
            fk, args, cname = ('name', 'str'), [fk[1]], 'str'
        if cname in ('tuple', 'list', 'dict') and not args and not kws:
            return (cname, ())
        if cname == 'str' and not args and not kws:
            return ('const', '')
        if cname == 'bool' and len(args) == 1 and not kws:
            return as_bool(args[0])
        if cname in ('set', 'frozenset') and len(args) == 1 and not kws \
                and args[0][0] == 'comp' and args[0][1] in ('gen', 'list') \
                and cname == 'set':
            return ('comp', 'set') + args[0][2:]    # set(x for ..) == {x for ..}
        if cname == 'getattr' and len(args) == 2 and not kws \
                and args[1][0] == 'const' and isinstance(args[1][1], str):
            return ('attr', args[0], args[1][1])
        if cname in self._ITER_CONSUMERS and args and not (
                cname == 'len'):
            # f(list(xs)) == f(xs) for consumers that only iterate
            a0 = args[0]
            if a0[0] == 'call' and self._call_name(a0[1]) in (
                    'list', 'tuple') and len(a0[2]) == 1 and not a0[3]:
                args[0] = a0[2][0]
            elif a0[0] == 'comp' and a0[1] == 'list' and cname != 'list':
                args[0] = ('comp', 'gen') + a0[2:]
        if cname == 'dict' and len(args) == 1 and not kws \
                and args[0][0] == 'comp' and args[0][1] in ('gen', 'list'):
            # dict((k, v) for ...) == {k: v for ...}
            def as_pair(e):
                if e[0] == 'tuple' and len(e[1]) == 2:
                    return ('pair', e[1][0], e[1][1])
                if e[0] == 'ifexp':
                    a, b = as_pair(e[2]), as_pair(e[3])
                    if a is not None and b is not None:
                        return ('ifexp', e[1], a, b)
                return None
            pr = as_pair(args[0][2])
            if pr is not None:
                return ('comp', 'dict', pr, args[0][3])
        if fk[0] == 'attr' and fk[2] == 'join' and len(args) == 1 \
                and not kws and args[0][0] == 'comp' \
                and args[0][1] == 'list':
            args[0] = ('comp', 'gen') + args[0][2:]
        if fk == ('attr', ('const', ''), 'join') and len(args) == 1 \
                and not kws and args[0][0] == 'strcat':
            # ''.join([a, b] + [f(x) for x in xs] + [c])
            #   ==  a + b + ''.join(f(x) for x in xs) + c
            segs = []

            def flat(k):
                if k[0] == 'strcat':
                    flat(k[1])
                    flat(k[2])
                else:
                    segs.append(k)
            flat(args[0])
            if all(g[0] == 'list' or (g[0] == 'comp' and g[1] in (
                    'list', 'gen')) for g in segs):
                out = ('const', '')
                for g in segs:
                    if g[0] == 'list':
                        for piece in g[1]:
                            out = strcat(out, piece)
                    else:
                        out = strcat(out, ('call', fk, ((
                            'comp', 'gen') + g[2:],), ()))
                return out
        if fk == ('attr', ('const', ''), 'join') and len(args) == 1 \
                and not kws and args[0][0] in ('list', 'tuple') \
                and args[0][1]:
            # ''.join([a, b, c])  ==  a + b + c   (texts, or it raises)
            out = ('const', '')
            for piece in args[0][1]:
                out = strcat(out, piece)
            return out
        if cname in ('list', 'tuple') and len(args) == 1 and not kws \
                and args[0][0] == 'comp' and args[0][1] in ('gen', 'list'):
            # list(<genexp>) == [<comp>]
            if cname == 'list':
                return ('comp', 'list') + args[0][2:]
        if fk[0] == 'attr' and fk[2] == 'format' and fk[1][0] == 'const' \
                and isinstance(fk[1][1], str) and not kws:
            conv = _format_to_percent(fk[1][1], len(args))
            if conv is not None:
                text, order = conv
                fargs = [args[i] for i in order]
                if not fargs:
                    return ('const', text.replace('%%', '%'))
                return fmt_key(('const', text), fargs[0] if len(fargs) == 1
                               else ('tuple', tuple(fargs)))
        root = self._receiver_root(fk)
        if root is not None and getattr(self, 'ctx', None) is not None:
            ep = st.heap.get((_EPOCH, root), 0)
            if ep:
                # the receiver has been through `ep` statements that call
                # one of its state-changing methods: this is not the value
                # the same call had before them
                kws = (('@', ('num', Fraction(ep))),) + tuple(kws)
        res = ('call', fk, tuple(args), kws)
        self._note_call(st, res, n)
        # a call on self (or passing self) may change self's attributes
        if (fk[0] == 'attr' and fk[1] == ('name', 'self')) \
                or ('name', 'self') in args:
            for hk in [h for h in st.heap if h[0] == ('name', 'self')]:
                del st.heap[hk]
        return res

    @staticmethod
    def _receiver_root(fk):
        """'self' for self.m / self.a.m; the name for name.m."""
        if fk[0] != 'attr':
            return None
        b = fk[1]
        while b[0] == 'attr':
            b = b[1]
        return b[1] if b[0] == 'name' else None

    def _note_call(self, st, res, node):
        if self.record_calls:
            st.trace.append(('call', res, getattr(node, 'lineno', None)))

    # comprehensions ------------------------------------------------------
    def _bind_target(self, target, base, st):
        if isinstance(target, ast.Name):
            st.env[target.id] = base
        elif isinstance(target, (ast.Tuple, ast.List)):
            for i, e in enumerate(target.elts):
                self._bind_target(e, base + (i,), st)
        else:
            raise Unmodelled('loop target %s' % src(target))

    def _bind_target_value(self, target, val, st):
        if isinstance(target, ast.Name):
            st.env[target.id] = val
        elif isinstance(target, (ast.Tuple, ast.List)):
            for i, e in enumerate(target.elts):
                self._bind_target_value(
                    e, ('sub', val, ('num', Fraction(i))), st)
        else:
            raise Unmodelled('loop target %s' % src(target))

    def _items_iter(self, it_node, target):
        """(mapping node, key target, value target) for
        `for k, v in d.items()` -- the same as `for k in d` with v = d[k]."""
        if isinstance(it_node, ast.Call) and isinstance(
                it_node.func, ast.Attribute) and it_node.func.attr == 'items' \
                and not it_node.args and not it_node.keywords and isinstance(
                    target, (ast.Tuple, ast.List)) and len(target.elts) == 2:
            return it_node.func.value, target.elts[0], target.elts[1]
        if isinstance(it_node, ast.Call) and isinstance(
                it_node.func, ast.Name) and it_node.func.id == 'list' \
                and len(it_node.args) == 1 and not it_node.keywords:
            return self._items_iter(it_node.args[0], target)
        return None

    def _indexed_iter(self, it_node, target, st):
        """(xs node, index name, start, element target) for
        `enumerate(xs[, start])` with an (i, x) target and for
        `range(len(xs))` / `range(0, len(xs))` with a plain name."""
        def is_len(node):
            return isinstance(node, ast.Call) and isinstance(
                node.func, ast.Name) and node.func.id == 'len' \
                and len(node.args) == 1 and not node.keywords
        if not (isinstance(it_node, ast.Call) and isinstance(
                it_node.func, ast.Name) and not it_node.keywords):
            return None
        f = it_node.func.id
        if f in st.env:
            return None
        if f == 'enumerate' and 1 <= len(it_node.args) <= 2 and isinstance(
                target, (ast.Tuple, ast.List)) and len(target.elts) == 2 \
                and isinstance(target.elts[0], ast.Name):
            start = self.ev(it_node.args[1], st) if len(
                it_node.args) == 2 else Poly.const(0)
            return it_node.args[0], target.elts[0].id, start, target.elts[1]
        if f == 'range' and isinstance(target, ast.Name) and (
                (len(it_node.args) == 1 and is_len(it_node.args[0])) or (
                    len(it_node.args) == 2 and isinstance(
                        it_node.args[0], ast.Constant)
                    and it_node.args[0].value == 0
                    and is_len(it_node.args[1]))):
            return it_node.args[-1].args[0], target.id, Poly.const(0), None
        return None

    def _comp(self, n, st):
        st2 = st.copy()
        gens = []
        depth0 = self.depth
        for g in n.generators:
            it = self.k(g.iter, st2)
            if it[0] == 'comp' and it[1] in ('gen', 'list') and isinstance(
                    g.target, ast.Name):
                # iterating over a comprehension: fuse (x for x in (f(y) for
                # y in ys) if p(x))  ==  (f(y) for y in ys if p(f(y)))
                st2.env[g.target.id] = poly_of_key(it[2])
                inner = list(it[3])
                self.depth += len(inner)
                cl = set()
                for c in g.ifs:
                    cl |= lits_of(as_bool(self.k(c, st2)))
                if cl:
                    b0, i0, c0 = inner[-1]
                    inner[-1] = (b0, i0, tuple(sorted(set(c0) | cl,
                                                      key=_sk)))
                gens.extend(inner)
                continue
            base = ('bv', self.depth)
            items = self._items_iter(g.iter, g.target)
            if items is not None:
                mp, kt, vt = items
                it = self.k(mp, st2)
                self.depth += 1
                self._bind_target_value(kt, base, st2)
                self._bind_target_value(vt, ('sub', it, base), st2)
                cl = set()
                for c in g.ifs:
                    cl |= lits_of(as_bool(self.k(c, st2)))
                gens.append((base, it, tuple(sorted(cl, key=_sk))))
                continue
            idx = self._indexed_iter(g.iter, g.target, st2)
            if idx is not None:
                # enumerate(xs) / range(len(xs)): position and xs[position]
                it_node, idx_name, start, tgt = idx
                it = self.k(it_node, st2)
                pos = ('bv', self.depth, 'idx')
                st2.env[idx_name] = Poly.atom(pos) + to_poly(start)
                if tgt is not None:
                    self._bind_target_value(tgt, ('sub', it, pos), st2)
                self.depth += 1
                cl = set()
                for c in g.ifs:
                    cl |= lits_of(as_bool(self.k(c, st2)))
                gens.append((base, it, tuple(sorted(cl, key=_sk))))
                continue
            self.depth += 1
            self._bind_target(g.target, base, st2)
            cl = set()
            for c in g.ifs:
                cl |= lits_of(as_bool(self.k(c, st2)))
            conds = tuple(sorted(cl, key=_sk))
            gens.append((base, it, conds))
        if isinstance(n, ast.DictComp):
            elt = ('pair', self.k(n.key, st2), self.k(n.value, st2))
        else:
            elt = lift_ifexp(self.k(n.elt, st2))
        self.depth = depth0
        kind = {'GeneratorExp': 'gen', 'ListComp': 'list',
                'SetComp': 'set', 'DictComp': 'dict'}[type(n).__name__]
        return ('comp', kind, elt, tuple(gens))

    def ev_GeneratorExp(self, n, st):
        return self._comp(n, st)

    ev_ListComp = ev_GeneratorExp
    ev_SetComp = ev_GeneratorExp
    ev_DictComp = ev_GeneratorExp


# ----------------------------------------------------------------------
# statements -> paths
# ----------------------------------------------------------------------

class Path(object):
    def __init__(self, st, outcome):
        self.trace = st.trace
        self.env = st.env
        self.heap = st.heap
        self.outcome = outcome      # ('return', key) | ('raise', cls, args)
        #                             | ('fall',)

    def conds(self):
        return [(e[1], e[2]) for e in self.trace if e[0] == 'cond']

    def facts(self):
        """atom -> bool for every condition that is a literal (an atom or
        its negation); complementary comparisons share one atom."""
        out = {}
        for k, pol in self.conds():
            while k[0] == 'not':
                k, pol = k[1], not pol
            if k[0] in ('and', 'or', 'const'):
                # a conjunction known true / disjunction known false fixes
                # its members
                if (k[0] == 'and' and pol) or (k[0] == 'or' and not pol):
                    for x in k[1]:
                        q = pol
                        while x[0] == 'not':
                            x, q = x[1], not q
                        if x[0] not in ('and', 'or', 'const'):
                            a, ap = atom_of(x)
                            out[a] = q if ap else not q
                continue
            a, ap = atom_of(k)
            out[a] = pol if ap else not pol
        return out

    def says(self, atom, value=True):
        a, ap = atom_of(atom)
        f = self.facts()
        return a in f and f[a] == (value if ap else not value)

    def calls(self):
        return [e[1] for e in self.trace if e[0] == 'call']

    def stores(self):
        return [e for e in self.trace if e[0] == 'store']

    def feasible(self, assign):
        for k, pol in self.conds():
            v = eval_bool(k, assign)
            if v is not None and v != pol:
                return False
        return True

    def describe(self):
        cs = ' and '.join(('' if pol else 'not ') + show(k)
                          for k, pol in self.conds()) or 'always'
        o = self.outcome
        if o[0] == 'return':
            return '[%s] -> return %s' % (cs, show(o[1]))
        if o[0] == 'raise':
            return '[%s] -> raise %s' % (cs, o[1])
        return '[%s] -> %s' % (cs, o[0])


def _event_keys(trace):
    for e in trace:
        if e[0] == 'loop':
            for tr, o in e[2]:
                for x in _event_keys(tr):
                    yield x
        elif e[0] == 'loop-part':
            for x in _event_keys(e[2]):
                yield x
        else:
            for x in e[1:]:
                if isinstance(x, tuple):
                    yield x


def path_keys(path):
    """Every sub-key occurring in a path: outcome, conditions, stores,
    calls, loop bodies (helpers that were followed included)."""
    o = path.outcome
    roots = [x for x in o[1:] if isinstance(x, tuple)]
    roots.extend(_event_keys(path.trace))
    for r in roots:
        for k in subkeys(r):
            yield k


def has_handler(path):
    """Does the path run inside / through an exception handler?"""
    def walk(trace):
        for e in trace:
            if e[0] in ('except', 'caught'):
                return True
            if e[0] == 'loop' and any(walk(tr) for tr, o in e[2]):
                return True
            if e[0] == 'loop-part' and walk(e[2]):
                return True
        return False
    return walk(path.trace)


MAX_PATHS = 4096


# second-chance mode of the comparisons: calls to reviewed functions of the
# same module/class are followed too (a body replaced by a call to an existing
# function that does the same, or the reverse).  `self.m()` is followed only
# when the package defines `m` in exactly one class (no override can be meant).
_INLINE_ALL = [False]
METHOD_DEF_COUNT = {}


class inline_all(object):
    def __enter__(self):
        self.saved = _INLINE_ALL[0]
        _INLINE_ALL[0] = True

    def __exit__(self, *exc):
        _INLINE_ALL[0] = self.saved
        return False


def _is_new_function(rel, qualname):
    """A function that has no reviewed counterpart: a helper introduced
    after the review.  Calls to it are followed (summarised in place) so the
    caller's normal form is that of the code before the extraction."""
    from . import reviewed
    return ('%s::%s' % (rel, qualname)) not in reviewed.store()


def _locals_of(func):
    params_ = set(a.arg for a in func.args.args + func.args.kwonlyargs
                  + getattr(func.args, 'posonlyargs', []))
    if func.args.vararg:
        params_.add(func.args.vararg.arg)
    if func.args.kwarg:
        params_.add(func.args.kwarg.arg)
    glob = set()
    stored = set()
    todo = list(func.body)
    while todo:
        x = todo.pop()
        if isinstance(x, (ast.FunctionDef, ast.ClassDef, ast.Lambda)):
            if isinstance(x, (ast.FunctionDef, ast.ClassDef)):
                stored.add(x.name)
            continue
        if isinstance(x, (ast.Global, ast.Nonlocal)):
            glob.update(x.names)
        if isinstance(x, ast.Name) and isinstance(x.ctx, ast.Store):
            stored.add(x.id)
        if isinstance(x, (ast.ListComp, ast.SetComp, ast.DictComp,
                          ast.GeneratorExp)):
            continue    # comprehension targets are their own scope
        if isinstance(x, ast.ExceptHandler) and x.name:
            stored.add(x.name)
        if isinstance(x, (ast.Import, ast.ImportFrom)):
            for a in x.names:
                stored.add((a.asname or a.name).split('.')[0])
        todo.extend(ast.iter_child_nodes(x))
    return stored - params_ - glob, params_


def context_of(func):
    """(rel, module tree, class node or None) of a repository function (or of
    the function a reference stands for: `_ctx_from`)."""
    f = getattr(func, '_ctx_from', func)
    rel = getattr(f, '_rel', None)
    if rel is None:
        return None
    cls = getattr(f, '_parent', None)
    if not isinstance(cls, ast.ClassDef):
        cls = None
    # a method inherited from a helper base class, read as the method of the
    # subclass it was reviewed in (self.CONST / self.helper() resolve there)
    if getattr(f, '_ctx_cls', None) is not None:
        cls = f._ctx_cls
    mod = f
    while getattr(mod, '_parent', None) is not None:
        mod = mod._parent
    if not isinstance(mod, ast.Module):
        return None
    return (rel, mod, cls)


_COMPS = (ast.ListComp, ast.SetComp, ast.DictComp, ast.GeneratorExp,
          ast.Lambda)


def _header_exprs(n):
    """Expressions a statement evaluates exactly once, itself."""
    if isinstance(n, (ast.Expr, ast.Return)):
        return [n.value] if n.value is not None else []
    if isinstance(n, ast.Assign):
        return [n.value] + [t for t in n.targets
                            if not isinstance(t, ast.Name)]
    if isinstance(n, (ast.AugAssign, ast.AnnAssign)):
        return [n.value] if n.value is not None else []
    if isinstance(n, (ast.If, ast.Assert)):
        return [n.test]
    if isinstance(n, ast.For):
        return [n.iter]
    if isinstance(n, ast.With):
        return [i.context_expr for i in n.items]
    if isinstance(n, ast.Raise):
        return [n.exc] if n.exc is not None else []
    return []


def _find_expr(roots, pred):
    """First node (evaluation order, not inside a lambda/comprehension)
    satisfying pred."""
    for r in roots:
        stack = [r]
        while stack:
            x = stack.pop()
            if isinstance(x, _COMPS):
                continue
            if pred(x):
                return x
            stack.extend(reversed(list(ast.iter_child_nodes(x))))
    return None


def _replace_node(node, target, new):
    """Copy of `node` with the sub-node `target` replaced by `new` (only the
    spine is copied; the original tree is never mutated)."""
    if node is target:
        return new
    if not isinstance(node, ast.AST):
        return node
    changed = False
    fields = {}
    for name, val in ast.iter_fields(node):
        if isinstance(val, list):
            nl = [_replace_node(x, target, new) for x in val]
            if any(a is not b for a, b in zip(nl, val)):
                changed = True
            fields[name] = nl
        elif isinstance(val, ast.AST):
            nv = _replace_node(val, target, new)
            if nv is not val:
                changed = True
            fields[name] = nv
        else:
            fields[name] = val
    if not changed:
        return node
    nn = type(node)(**fields)
    return ast.copy_location(nn, node)


INLINE_DEPTH = 3


class Summarizer(Evaluator):
    def __init__(self, inline=True, **kw):
        Evaluator.__init__(self, **kw)
        self.loop_id = 0
        self.inline = inline
        self.ctx = None
        self.inline_stack = []
        self.inlined = []       # qualnames followed (for evidence)
        self.ph = 0
        self.appender_stack = []
        self.loop_assigned = []
        self.local_defs = {}
        self.carried_lists = set()
        self._tables = {}
        self.loaded_names = None

    def summarize(self, func, env=None):
        st = State(env=dict(env or {}))
        # locals: names stored somewhere in the function (not parameters,
        # not declared global)
        self.locals_, self.params_ = _locals_of(func)
        self.loaded_names = set(x.id for x in ast.walk(func)
                                if isinstance(x, ast.Name)
                                and isinstance(x.ctx, ast.Load))
        self.func_node = func
        if self.ctx is None:
            self.ctx = context_of(func)
        self.inline_stack = [getattr(getattr(func, '_ctx_from', func),
                                     '_qual', func.name)]
        outs = self.block(func.body, st)
        paths = []
        for s, o in outs:
            if o is None:
                o = ('return', ('const', None)) if isinstance(
                    func, ast.FunctionDef) else ('fall',)
            if o[0] in ('break', 'continue'):
                raise Unmodelled('%s outside loop' % o[0])
            paths.append(Path(s, o))
        return paths

    # returns list of (state, outcome-or-None)
    def _pop_idiom(self, stmts):
        """`x = L[c]` ... `del L[c]`, where the statements between are
        simple, leave L and x alone and read L only as `L[c]`
        ==  `x = L.pop(c)` with those reads replaced by `x`."""
        import copy
        out = list(stmts)
        i = 0
        while i < len(out):
            a = out[i]
            i += 1
            if not (isinstance(a, ast.Assign) and len(a.targets) == 1
                    and isinstance(a.targets[0], ast.Name)
                    and isinstance(a.value, ast.Subscript)
                    and isinstance(a.value.value, ast.Name)
                    and isinstance(a.value.slice, ast.Constant)):
                continue
            x, L = a.targets[0].id, a.value.value.id
            want = ast.dump(a.value)
            for j in range(i, min(i + 4, len(out))):
                b = out[j]
                if isinstance(b, ast.Delete) and len(b.targets) == 1 \
                        and isinstance(b.targets[0], ast.Subscript) \
                        and ast.dump(_load(b.targets[0])) == want:
                    between = out[i:j]
                    ok = True
                    for m in between:
                        if not isinstance(m, (ast.Expr, ast.Assign)):
                            ok = False
                            break
                        reads = 0
                        for node in ast.walk(m):
                            if isinstance(node, ast.Subscript) and isinstance(
                                    node.ctx, ast.Load) and ast.dump(
                                    node) == want:
                                reads += 1
                        names = sum(1 for node in ast.walk(m) if isinstance(
                            node, ast.Name) and node.id == L)
                        if names != reads or any(
                                isinstance(node, ast.Name) and node.id == x
                                and isinstance(node.ctx, ast.Store)
                                for node in ast.walk(m)):
                            ok = False
                            break
                    if not ok:
                        break

                    class R(ast.NodeTransformer):
                        def visit_Subscript(self, node):
                            if isinstance(node.ctx, ast.Load) and ast.dump(
                                    node) == want:
                                return ast.copy_location(ast.Name(
                                    id=x, ctx=ast.Load()), node)
                            return self.generic_visit(node)
                    pop = ast.Assign(targets=a.targets, value=ast.Call(
                        func=ast.Attribute(value=a.value.value, attr='pop',
                                           ctx=ast.Load()),
                        args=[a.value.slice], keywords=[]))
                    ast.copy_location(pop, a)
                    ast.fix_missing_locations(pop)
                    new_between = []
                    for m in between:
                        m2 = R().visit(ast.parse(ast.unparse(m)).body[0])
                        ast.copy_location(m2, m)
                        ast.fix_missing_locations(m2)
                        new_between.append(m2)
                    out[i - 1:j + 1] = [pop] + new_between
                    break
                if any(isinstance(node, ast.Name) and node.id in (x, L)
                       and isinstance(node.ctx, (ast.Store, ast.Del))
                       for node in ast.walk(b)):
                    break
        return out

    def _peephole(self, stmts):
        """`if k not in d: d[k] = v` followed by `x = d[k]`
        ==  `x = d.setdefault(k, v)`."""
        out = []
        i = 0
        while i < len(stmts):
            a = stmts[i]
            b = stmts[i + 1] if i + 1 < len(stmts) else None
            if isinstance(a, ast.If) and not a.orelse and len(a.body) == 1 \
                    and isinstance(a.test, ast.Compare) \
                    and len(a.test.ops) == 1 and isinstance(
                        a.test.ops[0], ast.NotIn) and isinstance(
                        a.body[0], ast.Assign) and len(
                        a.body[0].targets) == 1 and isinstance(
                        a.body[0].targets[0], ast.Subscript) \
                    and isinstance(b, ast.Assign) and len(b.targets) == 1 \
                    and isinstance(b.targets[0], ast.Name) and isinstance(
                        b.value, ast.Subscript):
                t = a.body[0].targets[0]
                d, k = a.test.comparators[0], a.test.left
                if ast.dump(t.value) == ast.dump(d) and ast.dump(
                        t.slice) == ast.dump(k) and ast.dump(
                        b.value.value) == ast.dump(d) and ast.dump(
                        b.value.slice) == ast.dump(k):
                    call = ast.Call(func=ast.Attribute(
                        value=d, attr='setdefault', ctx=ast.Load()),
                        args=[k, a.body[0].value], keywords=[])
                    new = ast.Assign(targets=b.targets, value=call)
                    ast.copy_location(new, a)
                    ast.fix_missing_locations(new)
                    out.append(new)
                    i += 2
                    continue
            out.append(a)
            i += 1
        return out

    def block(self, stmts, st):
        late = st.heap.pop(_PENDING, None)
        if late:
            self._bump(st, late)
        live = [(st, None)]
        if len(stmts) > 1:
            stmts = self._peephole(self._pop_idiom(stmts))
        for stmt in stmts:
            nxt = []
            for s, o in live:
                if o is not None:
                    nxt.append((s, o))
                else:
                    nxt.extend(self.stmt(stmt, s))
            live = nxt
            if len(live) > MAX_PATHS:
                raise Unmodelled('more than %d paths' % MAX_PATHS)
        return live

    def stmt(self, n, st):
        m = getattr(self, 'st_' + type(n).__name__, None)
        if m is None:
            raise Unmodelled('statement %s at line %s'
                             % (type(n).__name__, n.lineno))
        hdr = _header_exprs(n)
        if hdr:
            # `x = a if c else b`  ==  `if c: x = a  else: x = b`
            ife = _find_expr(hdr, lambda x: isinstance(x, ast.IfExp))
            if ife is not None:
                a = _replace_node(n, ife, ife.body)
                b = _replace_node(n, ife, ife.orelse)
                fake = ast.If(test=ife.test, body=[a], orelse=[b])
                ast.copy_location(fake, n)
                return self.st_If(fake, st)
            bo = self._value_boolop(n)
            if bo is not None:
                return self.block(bo, st)
            tl = _find_expr(hdr, lambda x: isinstance(x, ast.Subscript)
                            and isinstance(x.ctx, ast.Load)
                            and not isinstance(x.slice, ast.Constant)
                            and self._const_table(x.value) is not None)
            if tl is not None:
                # TABLE[x] for a literal table: one case per key (what an
                # elif chain over the same keys spells out), else KeyError
                d = self._const_table(tl.value)
                chain = [ast.copy_location(ast.Raise(
                    exc=ast.Call(func=ast.Name(id='KeyError',
                                               ctx=ast.Load()),
                                 args=[], keywords=[]), cause=None), n)]
                for kk, vv in reversed(list(zip(d.keys, d.values))):
                    test = ast.Compare(left=tl.slice, ops=[ast.Eq()],
                                       comparators=[kk])
                    node_i = ast.If(test=test,
                                    body=[_replace_node(n, tl, vv)],
                                    orelse=chain)
                    ast.copy_location(node_i, n)
                    ast.fix_missing_locations(node_i)
                    chain = [node_i]
                return self.stmt(chain[0], st)
            if self.inline and self.ctx is not None:
                hit = _find_expr(hdr, lambda x: isinstance(x, ast.Call)
                                 and self._resolve(x) is not None)
                if hit is not None:
                    # state-changing calls among the arguments run before
                    # the helper's body
                    pre = self._impure_roots(hdr)
                    if pre:
                        st.heap[_PENDING] = pre
                    r = self._inline(n, hit, st)
                    if r is not None:
                        for s2, o2 in r:
                            late = s2.heap.pop(_PENDING, None)
                            if late:
                                self._bump(s2, late)
                        return r
                    st.heap.pop(_PENDING, None)
        roots = self._impure_roots(hdr) if hdr else ()
        if isinstance(n, (ast.For, ast.While)):
            roots = self._impure_roots([n])
        elif roots and isinstance(n, (ast.If, ast.With)):
            # the test runs before the branches: they start one step later
            st.heap[_PENDING] = roots
            res = m(n, st)
            for s2, o2 in res:
                late = s2.heap.pop(_PENDING, None)
                if late:
                    self._bump(s2, late)
            return res
        res = m(n, st)
        if roots:
            for s2, o2 in res:
                self._bump(s2, roots)
        return res

    @staticmethod
    def _bump(st, roots):
        for r in roots:
            st.heap[(_EPOCH, r)] = st.heap.get((_EPOCH, r), 0) + 1

    def _impure_names(self):
        """(per-class map name -> impure?, module-wide set of method names
        every definition of which changes its receiver)."""
        rel, mod, cls = self.ctx
        ck = (id(mod), 'impure')
        if ck in self._tables:
            return self._tables[ck]
        from .match import MUTATING_METHODS
        classes = [c for c in mod.body if isinstance(c, ast.ClassDef)]
        byname = dict((c.name, c) for c in classes)

        def chain(c):
            seen, out = set(), []
            while c is not None and c.name not in seen:
                seen.add(c.name)
                out.append(c)
                nxt = None
                for b in c.bases:
                    if isinstance(b, ast.Name) and b.id in byname:
                        nxt = byname[b.id]
                        break
                c = nxt
            return out

        def rooted_at_self(t):
            while isinstance(t, (ast.Attribute, ast.Subscript)):
                t = t.value
            return isinstance(t, ast.Name) and t.id == 'self'

        def direct(f):
            for x in ast.walk(f):
                if isinstance(x, (ast.Attribute, ast.Subscript)) \
                        and isinstance(x.ctx, (ast.Store, ast.Del)) \
                        and rooted_at_self(x):
                    return True
                if isinstance(x, ast.Call) and isinstance(
                        x.func, ast.Attribute) \
                        and x.func.attr in MUTATING_METHODS \
                        and isinstance(x.func.value, (ast.Attribute,
                                                      ast.Subscript)) \
                        and rooted_at_self(x.func.value):
                    return True
                if isinstance(x, ast.Call) and isinstance(
                        x.func, ast.Name) and x.func.id == 'setattr' \
                        and x.args and isinstance(x.args[0], ast.Name) \
                        and x.args[0].id == 'self':
                    return True
            return False
        percls = {}
        for c in classes:
            meths = {}
            for cc in reversed(chain(c)):
                for f in cc.body:
                    if isinstance(f, ast.FunctionDef):
                        meths[f.name] = f
            imp = dict((nm, direct(f)) for nm, f in meths.items())
            changed = True
            while changed:
                changed = False
                for nm, f in meths.items():
                    if imp[nm]:
                        continue
                    for x in ast.walk(f):
                        if isinstance(x, ast.Call) and isinstance(
                                x.func, ast.Attribute) and isinstance(
                                x.func.value, ast.Name) \
                                and x.func.value.id == 'self' \
                                and imp.get(x.func.attr):
                            imp[nm] = True
                            changed = True
                            break
            percls[c.name] = imp
        defs = {}
        for imp in percls.values():
            for nm, v in imp.items():
                defs.setdefault(nm, []).append(v)
        everywhere = set(nm for nm, vs in defs.items() if all(vs)
                         and not nm.startswith('__'))
        res = (percls, everywhere)
        self._tables[ck] = res
        return res

    def _impure_roots(self, exprs):
        """Receivers (`self`, or a plain name) on which the expressions
        call a method that changes its receiver's state."""
        if self.ctx is None:
            return ()
        rel, mod, cls = self.ctx
        percls, everywhere = self._impure_names()
        mine = percls.get(cls.name, {}) if cls is not None else {}
        roots = set()
        seen = set()
        work = list(exprs)
        while work:
            e = work.pop()
            for x in ast.walk(e):
                if not (isinstance(x, ast.Call) and isinstance(
                        x.func, ast.Attribute) and isinstance(
                        x.func.value, ast.Name)):
                    continue
                if self.inline:
                    hit = self._resolve(x)
                    if hit is not None:
                        # a helper without a reviewed counterpart is read
                        # as part of this function: what matters is what
                        # its own statements call
                        if id(hit[0]) not in seen:
                            seen.add(id(hit[0]))
                            work.extend(hit[0].body)
                        continue
                r, mname = x.func.value.id, x.func.attr
                if r == 'self' and cls is not None:
                    if mine.get(mname):
                        roots.add(r)
                elif r != 'self' and mname in everywhere:
                    roots.add(r)
        return tuple(sorted(roots))

    _BOOL_CALLS = ('isinstance', 'hasattr', 'callable', 'any', 'all', 'bool',
                   'issubclass', 'startswith', 'endswith', 'isdigit',
                   'isalpha', 'isspace', 'isalnum', 'isupper', 'islower')

    def _boolean_looking(self, e):
        if isinstance(e, ast.Compare):
            return True
        if isinstance(e, ast.UnaryOp) and isinstance(e.op, ast.Not):
            return True
        if isinstance(e, ast.BoolOp):
            return all(self._boolean_looking(v) for v in e.values)
        if isinstance(e, ast.Constant):
            return isinstance(e.value, bool)
        if isinstance(e, ast.Call):
            f = e.func
            name = f.id if isinstance(f, ast.Name) else (
                f.attr if isinstance(f, ast.Attribute) else None)
            return name in self._BOOL_CALLS
        return False

    def _value_boolop(self, n):
        """`x = a or b` / `return a or b` where the operands are values, not
        tests: the statements `x = a; if not x: x = b` (`and`: `if x`)."""
        if isinstance(n, ast.Assign) and len(n.targets) == 1 and isinstance(
                n.targets[0], ast.Name):
            name = n.targets[0].id
        elif isinstance(n, ast.Return) and n.value is not None:
            name = None
        else:
            return None
        v = n.value
        if not isinstance(v, ast.BoolOp) or self._boolean_looking(v):
            return None
        tmp = name or '_boolop_%d' % n.lineno
        rest = v.values[1] if len(v.values) == 2 else ast.BoolOp(
            op=v.op, values=v.values[1:])
        load = ast.Name(id=tmp, ctx=ast.Load())
        test = load if isinstance(v.op, ast.And) else ast.UnaryOp(
            op=ast.Not(), operand=load)
        out = [ast.Assign(targets=[ast.Name(id=tmp, ctx=ast.Store())],
                          value=v.values[0]),
               ast.If(test=test, body=[ast.Assign(
                   targets=[ast.Name(id=tmp, ctx=ast.Store())], value=rest)],
                   orelse=[])]
        if name is None:
            out.append(ast.Return(value=ast.Name(id=tmp, ctx=ast.Load())))
        for o in out:
            ast.copy_location(o, n)
            ast.fix_missing_locations(o)
        return out

    # -- class/module-level literal tables that nothing writes to -----------
    def _const_binding(self, node, kinds):
        """The literal (one of the ast classes `kinds`) bound once to
        `self.NAME` / `cls.NAME` / `Class.NAME` / module-level `NAME`, with
        at most 12 entries, which nothing in the module stores into,
        re-binds or mutates."""
        if self.ctx is None:
            return None
        rel, mod, cls = self.ctx
        owner, name = None, None
        if isinstance(node, ast.Attribute) and isinstance(node.value,
                                                          ast.Name):
            classes = dict((c.name, c) for c in mod.body
                           if isinstance(c, ast.ClassDef))
            if node.value.id in ('self', 'cls') and cls is not None:
                owner = cls
            elif node.value.id in classes:
                owner = classes[node.value.id]
            name = node.attr
        elif isinstance(node, ast.Name) and isinstance(node.ctx, ast.Load) \
                and node.id not in getattr(self, 'locals_', ()) \
                and node.id not in getattr(self, 'params_', ()):
            owner, name = mod, node.id
        if owner is None or name is None:
            return None
        ck = (id(owner), name, kinds)
        if ck in self._tables:
            return self._tables[ck]
        res = None
        from .match import readonly_literal_table
        binds = [x for x in owner.body if isinstance(x, ast.Assign) and any(
            isinstance(t, ast.Name) and t.id == name for t in x.targets)]
        if not binds and isinstance(owner, ast.ClassDef):
            # inherited from a base class of the same module
            byname = dict((c.name, c) for c in mod.body
                          if isinstance(c, ast.ClassDef))
            seen = {owner.name}
            cur = owner
            while not binds:
                nxt = None
                for b in cur.bases:
                    if isinstance(b, ast.Name) and b.id in byname \
                            and b.id not in seen:
                        nxt = byname[b.id]
                        break
                if nxt is None:
                    break
                seen.add(nxt.name)
                cur = nxt
                binds = [x for x in cur.body if isinstance(x, ast.Assign)
                         and any(isinstance(t, ast.Name) and t.id == name
                                 for t in x.targets)]
            if binds:
                owner = cur
        if binds and isinstance(owner, ast.ClassDef) and cls is not None \
                and self._rebound_below(mod, cls, name):
            # a subclass of the class this method is read for binds the
            # name again: which value `self.NAME` has depends on the object
            binds = []
        if len(binds) == 1 and isinstance(binds[0].value, kinds):
            val = binds[0].value
            if isinstance(val, ast.Constant):
                n_entries = 1
            elif isinstance(val, ast.Call):
                inner = val.args[0] if len(val.args) == 1 and isinstance(
                    val.args[0], (ast.Tuple, ast.List, ast.Set)) else None
                n_entries = len(inner.elts) if inner is not None else 0
            else:
                n_entries = len(val.keys if isinstance(val, ast.Dict)
                                else val.elts)
            shadowed = any(
                isinstance(x, ast.Name) and (
                    x.id in getattr(self, 'locals_', ())
                    or x.id in getattr(self, 'params_', ()))
                for x in ast.walk(val))
            if 0 < n_entries <= 12 and not shadowed and (
                    not isinstance(val, ast.Dict) or all(
                        isinstance(k, ast.Constant) for k in val.keys)) \
                    and readonly_literal_table(mod, owner, name,
                                               literal=False):
                res = val
        self._tables[ck] = res
        return res

    def _helper_as_lambda(self, node):
        """A module-level helper without a reviewed counterpart whose body
        is one `return <expr>`, used as a value (key=_first_item): the
        lambda with that body."""
        if self.ctx is None or not getattr(self, 'inline', False) \
                or node.id in getattr(self, 'locals_', ()) \
                or node.id in getattr(self, 'params_', ()):
            return None
        rel, mod, cls = self.ctx
        for stmt in mod.body:
            if isinstance(stmt, ast.FunctionDef) and stmt.name == node.id:
                body = [b for b in stmt.body if not (
                    isinstance(b, ast.Expr) and isinstance(
                        b.value, ast.Constant))]
                a = stmt.args
                if len(body) == 1 and isinstance(body[0], ast.Return) \
                        and body[0].value is not None \
                        and not stmt.decorator_list and not (
                            a.vararg or a.kwarg or a.kwonlyargs or a.defaults
                            or getattr(a, 'posonlyargs', [])) \
                        and _is_new_function(rel, stmt.name):
                    lam = ast.Lambda(args=a, body=body[0].value)
                    ast.copy_location(lam, node)
                    ast.fix_missing_locations(lam)
                    return lam
        return None

    def _sentinels(self):
        """Private module-level sentinels: `_X = object()` bound once, used
        only as `return _X` and as an operand of `is` / `is not`.  Maps the
        name to the names of the module's functions that return it."""
        rel, mod, cls = self.ctx
        ck = (id(mod), 'sentinels')
        if ck in self._tables:
            return self._tables[ck]
        out = {}
        for stmt in mod.body:
            if isinstance(stmt, ast.Assign) and len(stmt.targets) == 1 \
                    and isinstance(stmt.targets[0], ast.Name) \
                    and stmt.targets[0].id.startswith('_') \
                    and isinstance(stmt.value, ast.Call) and isinstance(
                        stmt.value.func, ast.Name) \
                    and stmt.value.func.id == 'object' \
                    and not stmt.value.args and not stmt.value.keywords:
                out[stmt.targets[0].id] = stmt.targets[0]
        res = {}
        for name, bind in out.items():
            ok, returners = True, set()
            for f in ast.walk(mod):
                if isinstance(f, ast.FunctionDef):
                    for x in ast.walk(f):
                        if isinstance(x, ast.Return) and x.value is not None \
                                and any(isinstance(y, ast.Name)
                                        and y.id == name
                                        for y in ast.walk(x.value)):
                            returners.add(f.name)
            for x in ast.walk(mod):
                if isinstance(x, ast.Name) and x.id == name and x is not bind:
                    par = getattr(x, '_parent', None)
                    if isinstance(par, ast.Return) and par.value is x:
                        continue
                    if isinstance(par, ast.Tuple) and isinstance(
                            getattr(par, '_parent', None), ast.Return):
                        continue        # return value, _X
                    if isinstance(par, ast.Compare) and all(isinstance(
                            o, (ast.Is, ast.IsNot)) for o in par.ops):
                        continue
                    ok = False
                    break
            if ok:
                res[name] = returners
        self._tables[ck] = res
        return res

    def _sentinel_fact(self, lnode, lk, rnode, rk):
        """`e is _X` for a private sentinel: True when e is that name,
        False when e is the result of a call that cannot hand it out (not a
        function of this module that returns it), a literal or None."""
        if self.ctx is None:
            return None
        for sn, sk, on, ok_ in ((lnode, lk, rnode, rk),
                                (rnode, rk, lnode, lk)):
            if isinstance(sn, ast.Name) and sk == ('name', sn.id) \
                    and sn.id not in getattr(self, 'locals_', ()) \
                    and sn.id not in getattr(self, 'params_', ()):
                sent = self._sentinels()
                if sn.id not in sent:
                    continue
                if ok_ == sk:
                    return True
                if ok_[0] in ('const', 'num', 'tuple', 'list', 'comp',
                              'strcat', 'fmt', 'poly', 'sub', 'attr',
                              'dict', 'set'):
                    # the sentinel is never stored anywhere (only returned
                    # and compared): no container, attribute or arithmetic
                    # result can be it
                    return False
                if ok_[0] == 'call':
                    fk = ok_[1]
                    callee = fk[1] if fk[0] == 'name' else (
                        fk[2] if fk[0] == 'attr' else None)
                    if callee is not None and callee not in sent[sn.id]:
                        return False
        return None

    def _module_alias(self, node):
        """The attribute chain a private module-level name (`_X = a.b.c`,
        bound once, never re-bound) stands for."""
        if self.ctx is None or not node.id.startswith('_') \
                or node.id in getattr(self, 'locals_', ()) \
                or node.id in getattr(self, 'params_', ()):
            return None
        rel, mod, cls = self.ctx
        ck = (id(mod), node.id, 'alias')
        if ck in self._tables:
            return self._tables[ck]
        res = None
        binds = [x for x in mod.body if isinstance(x, ast.Assign) and any(
            isinstance(t, ast.Name) and t.id == node.id for t in x.targets)]
        if len(binds) == 1 and isinstance(binds[0].value, ast.Attribute) \
                and all(isinstance(x, (ast.Attribute, ast.Name, ast.Load))
                        for x in ast.walk(binds[0].value)):
            from .match import readonly_literal_table
            root = [x for x in ast.walk(binds[0].value)
                    if isinstance(x, ast.Name)]
            if readonly_literal_table(mod, mod, node.id, literal=False) \
                    and not any(r.id in getattr(self, 'locals_', ())
                                or r.id in getattr(self, 'params_', ())
                                for r in root):
                res = binds[0].value
        self._tables[ck] = res
        return res

    @staticmethod
    def _rebound_below(mod, cls, name):
        byname = dict((c.name, c) for c in mod.body
                      if isinstance(c, ast.ClassDef))

        def derives(c, seen=()):
            for b in c.bases:
                if isinstance(b, ast.Name) and b.id in byname \
                        and b.id not in seen:
                    if b.id == cls.name or derives(byname[b.id],
                                                   seen + (b.id,)):
                        return True
            return False
        for c in byname.values():
            if c is not cls and derives(c) and any(
                    isinstance(x, ast.Assign) and any(
                        isinstance(t, ast.Name) and t.id == name
                        for t in x.targets) for x in c.body):
                return True
        return False

    def _class_function_alias(self, node):
        """`self.NAME` where the class (read for: ctx class first, then its
        module-local bases) binds `NAME = staticmethod(f)` or `NAME = f` once
        and no subclass binds it again: the expression `f`."""
        if self.ctx is None or not (isinstance(node, ast.Attribute)
                                    and isinstance(node.value, ast.Name)
                                    and node.value.id in ('self', 'cls')):
            return None
        rel, mod, cls = self.ctx
        if cls is None:
            return None
        byname = dict((c.name, c) for c in mod.body
                      if isinstance(c, ast.ClassDef))
        cur, seen = cls, set()
        while cur is not None and cur.name not in seen:
            seen.add(cur.name)
            binds = [x for x in cur.body if isinstance(x, ast.Assign) and any(
                isinstance(t, ast.Name) and t.id == node.attr
                for t in x.targets)]
            if any(isinstance(f, ast.FunctionDef) and f.name == node.attr
                   for f in cur.body):
                return None
            if binds:
                if len(binds) != 1 or self._rebound_below(mod, cls,
                                                          node.attr):
                    return None
                v = binds[0].value
                if isinstance(v, ast.Call) and isinstance(
                        v.func, ast.Name) and v.func.id == 'staticmethod' \
                        and len(v.args) == 1 and not v.keywords:
                    v = v.args[0]
                elif not isinstance(v, ast.Name):
                    return None
                if isinstance(v, (ast.Name, ast.Attribute)) and all(
                        isinstance(x, (ast.Name, ast.Attribute, ast.Load))
                        for x in ast.walk(v)):
                    from .match import readonly_literal_table
                    if any(isinstance(x, ast.Attribute) and x.attr ==
                           node.attr and isinstance(x.ctx, (ast.Store,
                                                            ast.Del))
                           for x in ast.walk(mod)):
                        return None
                    return v
                return None
            nxt = None
            for b in cur.bases:
                if isinstance(b, ast.Name) and b.id in byname:
                    nxt = byname[b.id]
                    break
            cur = nxt
        return None

    def _const_scalar(self, node):
        """`self.NAME` / `cls.NAME` where NAME is bound once at class level
        (of this class or a base class in the module) to a literal constant,
        nothing stores an attribute of that name, and no subclass binds it
        again: that constant."""
        if not (isinstance(node, ast.Attribute) and isinstance(
                node.value, ast.Name) and node.value.id in ('self', 'cls')):
            return None
        return self._const_binding(node, (ast.Constant,))

    def _const_table(self, node):
        """A read-only literal dict with constant keys (see
        _const_binding)."""
        return self._const_binding(node, (ast.Dict,))

    def _const_seq(self, node):
        """A read-only literal tuple/list (see _const_binding)."""
        return self._const_binding(node, (ast.Tuple, ast.List))

    def _const_members(self, node):
        """Member expressions of a read-only module/class-level collection
        used for membership tests: dict keys, tuple/list/set elements, or the
        literal inside frozenset(...) / set(...) / tuple(...)."""
        tb = self._const_binding(node, (ast.Dict, ast.Tuple, ast.List,
                                        ast.Set, ast.Call))
        if tb is None:
            return None
        if isinstance(tb, ast.Call):
            if isinstance(tb.func, ast.Name) and tb.func.id in (
                    'frozenset', 'set', 'tuple', 'list') \
                    and len(tb.args) == 1 and not tb.keywords \
                    and isinstance(tb.args[0], (ast.Tuple, ast.List,
                                                ast.Set)):
                tb = tb.args[0]
            else:
                return None
        if isinstance(tb, ast.Dict):
            return ('dict', tb.keys)
        return ('seq', tb.elts)

    # -- following helpers that were introduced after the review ---------
    def _resolve(self, call):
        """(FunctionDef, qualname, kind) for a call to a function of the
        same module/class that has no reviewed counterpart."""
        if getattr(call, '_no_inline', False):
            return None
        rel, mod, cls = self.ctx
        f = call.func
        target = None
        kind = 'function'
        owner = None
        if isinstance(f, ast.Name) and f.id in self.local_defs \
                and f.id in self.locals_:
            # a function nested in the one being summarised is part of it
            target = self.local_defs[f.id]
            qual = '<local>.' + f.id
            if qual in self.inline_stack or len(self.inline_stack) \
                    > INLINE_DEPTH or target.decorator_list:
                return None
            return target, qual, 'local'
        if isinstance(f, ast.Name):
            if f.id in self.locals_ or f.id in self.params_:
                return None
            for stmt in mod.body:
                if isinstance(stmt, ast.FunctionDef) and stmt.name == f.id:
                    target = stmt
        elif isinstance(f, ast.Attribute) and isinstance(f.value, ast.Name):
            classes = dict((c.name, c) for c in mod.body
                           if isinstance(c, ast.ClassDef))
            if f.value.id in ('self', 'cls') and cls is not None:
                owner = cls
            elif f.value.id in classes and f.value.id not in self.locals_:
                owner = classes[f.value.id]
                kind = 'unbound'
            seen = set()
            while owner is not None and owner.name not in seen:
                seen.add(owner.name)
                for stmt in owner.body:
                    if isinstance(stmt, ast.FunctionDef) \
                            and stmt.name == f.attr:
                        target = stmt
                if target is not None:
                    break
                nxt = None
                for b in owner.bases:
                    if isinstance(b, ast.Name) and b.id in classes:
                        nxt = classes[b.id]
                        break
                owner = nxt
            if target is not None and kind != 'unbound':
                kind = 'method'
        if target is None:
            return None
        decos = [src(d) for d in target.decorator_list]
        if decos == ['staticmethod']:
            kind = 'function'
        elif decos == ['classmethod']:
            kind = 'method' if kind != 'unbound' else 'classbound'
        elif decos:
            return None
        qual = (owner.name + '.' if owner is not None else '') + target.name
        if qual in self.inline_stack or len(self.inline_stack) \
                > INLINE_DEPTH:
            return None
        for x in ast.walk(target):
            if isinstance(x, (ast.YieldFrom, ast.Await)):
                return None
        if not _is_new_function(rel, qual):
            if not _INLINE_ALL[0]:
                return None
            if kind == 'method' and isinstance(f, ast.Attribute) \
                    and isinstance(f.value, ast.Name) \
                    and f.value.id in ('self', 'cls') \
                    and METHOD_DEF_COUNT.get(target.name, 2) != 1:
                return None
            if len(target.body) > 25:
                return None
        return target, qual, kind

    def _bind_args(self, call, target, kind, st):
        """Parameter name -> value for a call, or None if it cannot be
        bound positionally/by keyword in the obvious way."""
        a = target.args
        if a.vararg or a.kwarg or a.kwonlyargs or getattr(
                a, 'posonlyargs', []):
            return None
        if any(isinstance(x, ast.Starred) for x in call.args) or any(
                kw.arg is None for kw in call.keywords):
            return None
        names = [x.arg for x in a.args]
        vals = {}
        pos = []
        if kind in ('method', 'classbound'):
            pos.append(self.ev(call.func.value, st))
        pos.extend(self.ev(x, st) for x in call.args)
        if len(pos) > len(names):
            return None
        for nm, v in zip(names, pos):
            vals[nm] = v
        for kw in call.keywords:
            if kw.arg not in names or kw.arg in vals:
                return None
            vals[kw.arg] = self.ev(kw.value, st)
        nd = len(a.defaults)
        for i, d in enumerate(a.defaults):
            nm = names[len(names) - nd + i]
            if nm not in vals:
                vals[nm] = self.ev(d, State())
        if set(vals) != set(names):
            return None
        return vals

    def _callee_body(self, target):
        """Body to summarise for a followed helper.  A generator function
        whose yields are plain statements is the list of what it yields
        (consumers that only iterate do not tell the difference)."""
        ys = [x for x in ast.walk(target) if isinstance(x, ast.Yield)]
        if not ys:
            return target.body, ()
        stmts = set(id(x.value) for x in ast.walk(target)
                    if isinstance(x, ast.Expr))
        if any(id(y) not in stmts for y in ys):
            raise Unmodelled('yield used as an expression')

        def conv(stmt):
            if isinstance(stmt, ast.Expr) and isinstance(stmt.value,
                                                         ast.Yield):
                v = stmt.value.value or ast.Constant(value=None)
                c = ast.Expr(value=ast.Call(func=ast.Attribute(
                    value=ast.Name(id='__gen', ctx=ast.Load()),
                    attr='append', ctx=ast.Load()), args=[v], keywords=[]))
                return ast.fix_missing_locations(ast.copy_location(c, stmt))
            return stmt

        def walk(node):
            if isinstance(node, ast.stmt) and not isinstance(
                    node, (ast.FunctionDef, ast.ClassDef)):
                node = conv(node)
                changed = {}
                for name, val in ast.iter_fields(node):
                    if isinstance(val, list) and val and isinstance(
                            val[0], ast.stmt):
                        nl = [walk(x) for x in val]
                        if any(a is not b for a, b in zip(nl, val)):
                            changed[name] = nl
                if changed:
                    fields = dict(ast.iter_fields(node))
                    fields.update(changed)
                    node = ast.copy_location(type(node)(**fields), node)
            return node
        first = target.body[0]
        init = ast.fix_missing_locations(ast.copy_location(ast.Assign(
            targets=[ast.Name(id='__gen', ctx=ast.Store())],
            value=ast.List(elts=[], ctx=ast.Load())), first))
        ret = ast.fix_missing_locations(ast.copy_location(ast.Return(
            value=ast.Name(id='__gen', ctx=ast.Load())), target.body[-1]))
        return [init] + [walk(x) for x in target.body] + [ret], ('__gen',)

    def _run_callee(self, call, target, qual, kind, st, closure=None):
        """Summarise the callee from a state that shares `st`'s heap and
        trace; returns the list of (state, outcome) or None."""
        vals = self._bind_args(call, target, kind, st)
        if vals is None:
            return None
        env = dict(closure or {})
        env.update(vals)
        saved = (self.locals_, self.params_)
        callee_st = State(env, st.heap, st.trace)
        try:
            body, extra = self._callee_body(target)
        except Unmodelled:
            call._no_inline = True
            return None
        loc, par = _locals_of(target)
        self.locals_, self.params_ = loc | set(extra), par
        saved_loaded = self.loaded_names
        self.loaded_names = set(x.id for x in ast.walk(target)
                                if isinstance(x, ast.Name)
                                and isinstance(x.ctx, ast.Load)) | (
            (saved_loaded or set()) if closure is not None else set())
        if closure is not None:
            # a nested function sees its caller's locals
            self.locals_ = self.locals_ | (set(saved[0]) - par)
        self.inline_stack.append(qual)
        try:
            try:
                outs = self.block(body, callee_st)
            except Unmodelled:
                call._no_inline = True
                return None
        finally:
            self.inline_stack.pop()
            self.locals_, self.params_ = saved
            self.loaded_names = saved_loaded
        if qual not in self.inlined:
            self.inlined.append(qual)
        fixed = []
        for s2, o in outs:
            if o is None:
                o = ('return', ('const', None))
            if o[0] in ('break', 'continue'):
                raise Unmodelled('%s outside loop in %s' % (o[0], qual))
            fixed.append((s2, o))
        return fixed

    def _inline(self, n, call, st):
        target, qual, kind = self._resolve(call)
        probe = st.copy()
        probe.trace = list(st.trace)
        closure = st.env if kind == 'local' else None
        outs = self._run_callee(call, target, qual, kind, probe, closure)
        if outs is None:
            return None
        caller_env = st.env
        results = []
        for s, o in outs:
            back = State(dict(caller_env), s.heap, s.trace)
            if kind == 'local':
                # a nested function rebinds nothing of its caller (no
                # nonlocal), but the objects it changes in place are the
                # caller's: carry the new values of closure variables back
                loc, par = _locals_of(target)
                nonl = set()
                for x in ast.walk(target):
                    if isinstance(x, ast.Nonlocal):
                        nonl.update(x.names)
                for name, v in s.env.items():
                    if name in caller_env and (name in nonl or (
                            name not in loc and name not in par)):
                        back.env[name] = v
            if o[0] == 'raise':
                results.append((back, o))
                continue
            self.ph += 1
            ph = '__inl%d' % self.ph
            back.env[ph] = poly_of_key(o[1])
            n2 = _replace_node(n, call, ast.copy_location(
                ast.Name(id=ph, ctx=ast.Load()), call))
            results.extend(self.stmt(n2, back))
        return results

    def _inline_expr(self, call, st):
        """A followed helper inside an expression that is not evaluated once
        per statement (loop test, comprehension, lambda): only helpers that
        merely compute a value (no effect, no raise) are followed; several
        paths become a conditional expression."""
        r = self._resolve(call)
        if r is None:
            return None
        target, qual, kind = r
        probe = State(dict(st.env), dict(st.heap), [])
        closure = st.env if kind == 'local' else None
        before = list(self.inlined)
        outs = self._run_callee(call, target, qual, kind, probe, closure)
        if outs is None:
            return None
        vals = []

        def pure_loop(e):
            # a loop that only searches (its result is in the conditions /
            # values): no store, call statement or deletion inside
            if e[0] == 'loop-part':
                return all(x[0] in ('cond', 'call', 'unbound')
                           for x in e[2])
            if e[0] != 'loop':
                return False
            from . import refcmp as _rc
            try:
                return _rc._loop_sig(e[2], False) is None
            except Exception:
                return False
        for s, o in outs:
            if o[0] != 'return' or any(
                    e[0] not in ('cond', 'call', 'unbound')
                    and not pure_loop(e)
                    for e in s.trace):
                self.inlined[:] = before
                call._no_inline = True
                return None
            lits = set()
            for e in s.trace:
                if e[0] == 'cond':
                    lits |= lits_of(e[1], e[2])
            vals.append((tuple(sorted(lits, key=_sk)), o[1]))
        if len(vals) == 1:
            return poly_of_key(vals[0][1])
        if len(vals) == 2 and len(vals[0][0]) == 1 and len(vals[1][0]) == 1 \
                and vals[0][0][0] == b_not(vals[1][0][0]):
            return ifexp(vals[0][0][0], vals[0][1], vals[1][1])
        vals.sort(key=_sk)
        out = vals[-1][1]
        for lits, v in reversed(vals[:-1]):
            c = lits[0] if len(lits) == 1 else ('and', lits)
            out = ifexp(c, v, out)
        return out

    def st_Pass(self, n, st):
        return [(st, None)]

    st_Global = st_Pass
    st_Nonlocal = st_Pass

    def st_Import(self, n, st):
        for a in n.names:
            st.env[(a.asname or a.name).split('.')[0]] = (
                'import', a.name if a.asname else a.name.split('.')[0])
        return [(st, None)]

    def st_ImportFrom(self, n, st):
        for a in n.names:
            local = a.asname or a.name
            val = ('importfrom', '.' * n.level + (n.module or ''), a.name)
            if self.ctx is not None:
                # the same import at module level (or no module-level
                # binding of that name at all): the plain global name
                mod = self.ctx[1]
                same, other = False, False
                for stmt in mod.body:
                    if isinstance(stmt, ast.ImportFrom):
                        for b in stmt.names:
                            if (b.asname or b.name) == local:
                                if stmt.module == n.module and stmt.level \
                                        == n.level and b.name == a.name:
                                    same = True
                                else:
                                    other = True
                    else:
                        for x in ast.walk(stmt) if isinstance(
                                stmt, (ast.Assign, ast.Import)) else ():
                            if isinstance(x, ast.Name) and x.id == local \
                                    and isinstance(x.ctx, ast.Store):
                                other = True
                            if isinstance(x, ast.alias) and (
                                    x.asname or x.name) == local:
                                other = True
                        if isinstance(stmt, (ast.FunctionDef, ast.ClassDef)) \
                                and stmt.name == local:
                            other = True
                if not other:
                    val = ('name', local)
            st.env[local] = val
        return [(st, None)]

    def st_FunctionDef(self, n, st):
        st.env[n.name] = ('localfunc', n.name)
        if isinstance(n, ast.FunctionDef):
            self.local_defs[n.name] = n
        return [(st, None)]

    st_ClassDef = st_FunctionDef

    def st_Expr(self, n, st):
        if isinstance(n.value, ast.Constant):
            return [(st, None)]
        if isinstance(n.value, ast.Name) and n.value.id.startswith('__inl'):
            return [(st, None)]     # the value of a followed helper, unused
        if self.appender_stack and self.appender_stack[-1] and isinstance(
                n.value, ast.Call) and isinstance(
                n.value.func, ast.Attribute) and n.value.func.attr == 'append' \
                and isinstance(n.value.func.value, ast.Name) \
                and n.value.func.value.id in self.appender_stack[-1] \
                and len(n.value.args) == 1:
            st.trace.append(('append', n.value.func.value.id,
                             self.k(n.value.args[0], st), n.lineno))
            return [(st, None)]
        c = n.value
        if isinstance(c, ast.Call) and isinstance(c.func, ast.Attribute) \
                and isinstance(c.func.value, ast.Name) and c.func.attr in (
                    'append', 'extend') and len(c.args) == 1 \
                and not c.keywords:
            name = c.func.value.id
            cur = st.env.get(name)
            if name in getattr(self, 'locals_', ()) and cur is not None \
                    and (listlike(key(cur))
                         or key(cur) in self.carried_lists):
                arg = self.k(c.args[0], st)
                if True:
                    # a list local to this function (or to this iteration)
                    # built piece by piece: keep its value, not the calls
                    if c.func.attr == 'append':
                        add = ('list', (arg,))
                    elif arg[0] == 'comp' and arg[1] in ('gen', 'list'):
                        add = ('comp', 'list') + arg[2:]
                    elif listlike(arg):
                        add = arg
                    else:
                        add = None
                    if add is not None:
                        st.env[name] = strcat(key(cur), add)
                        return [(st, None)]
                # changed in a way that is not modelled: its value is no
                # longer the value it was bound to
                st.trace.append(('expr', ('call', ('attr', key(cur),
                                                   c.func.attr), (arg,), ()),
                                 n.lineno))
                st.env[name] = ('changed', key(cur), c.func.attr, arg)
                return [(st, None)]
        v = self.k(n.value, st)
        st.trace.append(('expr', v, n.lineno))
        # `obj.method(...)` whose value is thrown away is there for what it
        # does to obj: a local that holds a value computed from obj before
        # this point holds a snapshot, not what the same expression would
        # give now
        if isinstance(c, ast.Call) and isinstance(c.func, ast.Attribute) \
                and v[0] == 'call' and v[1][0] == 'attr':
            rk = v[1][1]
            root = rk
            while root[0] in ('attr', 'sub'):
                root = root[1]
            local_root = root[0] == 'name' and (
                root[1] in getattr(self, 'locals_', ())
                or root[1] in getattr(self, 'params_', ()))
            if rk[0] in ('name', 'attr', 'sub') and rk != ('name', 'self') \
                    and local_root:
                for name, val in list(st.env.items()):
                    kv = key(val)
                    if kv != rk and isinstance(kv, tuple) and kv and kv[0] \
                            not in ('snapshot', 'import', 'importfrom',
                                    'localfunc') and mentions_any(kv, [rk]):
                        st.env[name] = ('snapshot', kv)
        return [(st, None)]

    def st_Return(self, n, st):
        v = ('const', None) if n.value is None else self.k(n.value, st)
        return [(st, ('return', v))]

    def st_Raise(self, n, st):
        if n.exc is None:
            return [(st, ('raise', '<reraise>', ()))]
        if isinstance(n.exc, ast.Name) and n.cause is None:
            cur = st.env.get(n.exc.id)
            if isinstance(cur, tuple) and cur[:1] == ('exc',) and isinstance(
                    cur[1], tuple):
                # `except E as exc: raise exc` lets the caught exception go
                return [(st, ('raise', '<reraise>', ()))]
        if isinstance(n.exc, ast.Call):
            cls = src(n.exc.func)
            args = tuple(self.k(a, st) for a in n.exc.args)
        else:
            cls = src(n.exc)
            args = ()
            if isinstance(n.exc, ast.Name) and n.exc.id in st.env:
                # `err = SomeError(...)` (or a helper that builds it, read
                # in place) ... `raise err`
                vk = key(st.env[n.exc.id])
                if vk[0] == 'call' and vk[1][0] == 'name' and not vk[3] \
                        and vk[1][1][:1].isupper():
                    cls, args = vk[1][1], tuple(vk[2])
        return [(st, ('raise', cls, args))]

    def st_Assert(self, n, st):
        t = as_bool(self.k(n.test, st))
        ok = st.copy()
        ok.trace.append(('cond', t, True, n.lineno))
        bad = st
        bad.trace.append(('cond', t, False, n.lineno))
        return [(ok, None), (bad, ('raise', 'AssertionError', ()))]

    def st_Delete(self, n, st):
        for t in n.targets:
            st.trace.append(('del', self._target_key(t, st), n.lineno))
            if isinstance(t, ast.Name):
                st.env.pop(t.id, None)
        return [(st, None)]

    def _target_key(self, t, st):
        if isinstance(t, ast.Name):
            return ('name', t.id)
        if isinstance(t, ast.Attribute):
            return ('attr', self.k(t.value, st), t.attr)
        if isinstance(t, ast.Subscript):
            return ('sub', self.k(t.value, st), self.k(t.slice, st))
        if isinstance(t, (ast.Tuple, ast.List)):
            return ('tuple', tuple(self._target_key(e, st) for e in t.elts))
        if isinstance(t, ast.Starred):
            return ('star', self._target_key(t.value, st))
        raise Unmodelled('assignment target %s' % src(t))

    def assign(self, target, val, st, lineno):
        vk = key(val)
        if isinstance(target, ast.Name):
            st.env[target.id] = val
            st.heap.pop((_ALIAS, target.id), None)
        elif isinstance(target, ast.Attribute):
            base = self.k(target.value, st)
            tk = ('attr', base, target.attr)
            self._note_increment(tk, val, st, lineno)
            st.heap[(base, target.attr)] = val
            st.trace.append(('store', tk, vk, lineno))
        elif isinstance(target, ast.Subscript):
            base = self.k(target.value, st)
            idx = self.k(target.slice, st)
            tk = ('sub', base, idx)
            self._note_increment(tk, val, st, lineno)
            st.heap[(base, ('idx', idx))] = val
            st.trace.append(('store', tk, vk, lineno))
        elif isinstance(target, (ast.Tuple, ast.List)):
            if vk[0] == 'call' and vk[1] in (('name', 'list'),
                                             ('name', 'tuple')) \
                    and len(vk[2]) == 1 and not vk[3]:
                vk = vk[2][0]       # a, b = list(x)  ==  a, b = x
            for i, e in enumerate(target.elts):
                if vk[0] in ('tuple', 'list') and len(vk[1]) == len(
                        target.elts):
                    self.assign(e, poly_of_key(vk[1][i]), st, lineno)
                else:
                    self.assign(e, ('sub', vk, ('num', Fraction(i))), st,
                                lineno)
        else:
            raise Unmodelled('assignment target %s' % src(target))

    def _note_increment(self, tk, val, st, lineno):
        """`t += d`, `t -= d` and `t = t + d` all become one event
        ('aug', t, 'Add', d) with a signed delta."""
        if not isinstance(val, Poly):
            return
        mono = ((tk, 1),)
        if val.terms.get(mono) == 1:
            rest = Poly(dict((m, c) for m, c in val.terms.items()
                             if m != mono))
            if tk not in rest.atoms():
                st.trace.append(('aug', tk, 'Add', rest.key(), lineno))

    def st_Assign(self, n, st):
        if self.appender_stack and self.appender_stack[-1] \
                and len(n.targets) == 1 and isinstance(
                    n.targets[0], ast.Subscript) and isinstance(
                    n.targets[0].value, ast.Name) \
                and n.targets[0].value.id in self.appender_stack[-1]:
            st.trace.append(('append', n.targets[0].value.id,
                             ('pair', self.k(n.targets[0].slice, st),
                              self.k(n.value, st)), n.lineno))
            return [(st, None)]
        val = self.ev(n.value, st)
        vk = key(val)
        if vk[0] == 'call' and isinstance(n.value, ast.Call):
            names = []
            plain = True
            for t in n.targets:
                for x in ast.walk(t):
                    if isinstance(x, ast.Name):
                        names.append(x.id)
                    elif not isinstance(x, (ast.Tuple, ast.List, ast.Store,
                                            ast.Starred)):
                        plain = False
            if plain and names and self.loaded_names is not None \
                    and not any(nm in self.loaded_names for nm in names):
                # the names are never read anywhere in the function: the
                # call is there for its effect, like the same call written
                # as an expression statement
                st.trace.append(('expr', vk, n.lineno))
        for t in n.targets:
            self.assign(t, val, st, n.lineno)
        return [(st, None)]

    def st_AnnAssign(self, n, st):
        if n.value is not None:
            self.assign(n.target, self.ev(n.value, st), st, n.lineno)
        return [(st, None)]

    def st_AugAssign(self, n, st):
        alias = None
        if isinstance(n.target, ast.Name) and n.target.id in st.env:
            cur = key(st.env[n.target.id])
            ref = cur
            if ref[0] == 'carried':
                ref = ref[2]
            if ref[0] == 'snapshot':
                ref = ref[1]
            # after `x op= y` the name still denotes the object it aliased
            ref = st.heap.get((_ALIAS, n.target.id), ref)
            if ref[0] in ('name', 'attr', 'sub', 'bv') and not (
                    ref[0] == 'name' and ref[1] in getattr(
                        self, 'locals_', ())):
                # `x op= y` where x is (an alias of) an object that exists
                # outside this statement: for arrays and lists the object
                # itself changes -- not the same as `x = x op y`
                alias = ref
                v = self.k(n.value, st)
                prev = None
                if isinstance(n.op, ast.Add) and stringy(v):
                    # x += 'a'; x += 'b'  ==  x += 'ab' (for a text and for
                    # a list extended by characters alike); a test between
                    # the two has no effect of its own
                    for i in range(len(st.trace) - 1, -1, -1):
                        if st.trace[i][0] != 'cond':
                            prev = i
                            break
                if prev is not None and st.trace[prev][:3] == (
                        'inplace', ref, 'Add') and stringy(st.trace[prev][3]):
                    st.trace[prev] = ('inplace', ref, 'Add',
                                      strcat(st.trace[prev][3], v),
                                      st.trace[prev][4])
                else:
                    st.trace.append(('inplace', ref, type(n.op).__name__,
                                     v, n.lineno))
        fake = ast.BinOp(left=_load(n.target), op=n.op, right=n.value)
        ast.copy_location(fake, n)
        val = self.ev(fake, st)
        self.assign(n.target, val, st, n.lineno)
        if alias is not None:
            st.heap[(_ALIAS, n.target.id)] = alias
        return [(st, None)]

    def st_If(self, n, st):
        if not n.orelse and len(n.body) == 1 and isinstance(
                n.test, ast.Compare) and len(n.test.ops) == 1 and isinstance(
                n.test.ops[0], ast.In) and isinstance(n.body[0], ast.Expr) \
                and isinstance(n.body[0].value, ast.Call):
            c = n.body[0].value
            if isinstance(c.func, ast.Attribute) and c.func.attr == 'remove' \
                    and len(c.args) == 1 and not c.keywords \
                    and ast.dump(c.func.value) == ast.dump(
                        n.test.comparators[0]) \
                    and ast.dump(c.args[0]) == ast.dump(n.test.left):
                # if x in s: s.remove(x)   ==   s.discard(x)
                fake = ast.Expr(value=ast.Call(func=ast.Attribute(
                    value=c.func.value, attr='discard', ctx=ast.Load()),
                    args=c.args, keywords=[]))
                ast.copy_location(fake, n)
                ast.fix_missing_locations(fake)
                return self.stmt(fake, st)
        t = as_bool(self.k(n.test, st))
        if t[0] == 'const':
            return self.block(n.body if t[1] else n.orelse, st)
        if t[0] == 'or' and len(t[1]) <= 3:
            nones = [x for x in t[1] if x[0] == 'cmp' and x[1] == 'is'
                     and x[3] == ('const', None)]
            if len(nones) == 1:
                # `x is None or B`: the two ways into the body are two
                # paths (on the first, x is None is a fact of the path)
                N = nones[0]
                rest = tuple(x for x in t[1] if x != N)
                R = rest[0] if len(rest) == 1 else ('or', rest)
                a1 = st.copy()
                a1.trace.append(('cond', N, True, n.lineno))
                a2 = st.copy()
                a2.trace.append(('cond', N, False, n.lineno))
                a2.trace.append(('cond', R, True, n.lineno))
                b = st
                b.trace.append(('cond', t, False, n.lineno))
                return self.block(n.body, a1) + self.block(n.body, a2) \
                    + self.block(n.orelse, b)
        a = st.copy()
        a.trace.append(('cond', t, True, n.lineno))
        b = st
        b.trace.append(('cond', t, False, n.lineno))
        return self.block(n.body, a) + self.block(n.orelse, b)

    def st_With(self, n, st):
        for item in n.items:
            v = self.ev(item.context_expr, st)
            if item.optional_vars is not None:
                self.assign(item.optional_vars, v, st, n.lineno)
        return self.block(n.body, st)

    # loops -----------------------------------------------------------
    def _appenders(self, body, pre):
        """Names bound to an empty list before the loop whose only use in the
        loop body is one `name.append(E)` statement (the explicit form of a
        list comprehension)."""
        out = {}
        uses = {}
        for node in ast.walk(ast.Module(body=body, type_ignores=[])):
            if isinstance(node, ast.Name):
                uses[node.id] = uses.get(node.id, 0) + 1
            if isinstance(node, ast.Expr) and isinstance(node.value, ast.Call):
                f = node.value.func
                if isinstance(f, ast.Attribute) and f.attr == 'append' \
                        and isinstance(f.value, ast.Name) \
                        and len(node.value.args) == 1 \
                        and not node.value.keywords:
                    out.setdefault(f.value.id, []).append(node)
        names = set()
        for name, nodes in out.items():
            pv = pre.env.get(name)
            if len(nodes) == 1 and uses.get(name) == 1 and pv is not None \
                    and (listlike(key(pv)) or key(pv) in self.carried_lists):
                names.add(name)
        return names

    def _assigned_names(self, body):
        out = set()
        for node in ast.walk(ast.Module(body=body, type_ignores=[])):
            if isinstance(node, ast.Name) and isinstance(node.ctx,
                                                         ast.Store):
                out.add(node.id)
        return out

    def _dict_builders(self, body, pre):
        """Names bound to an empty dict before the loop whose only use in
        the loop body is one `name[K] = V` statement (the explicit form of a
        dict comprehension)."""
        uses = {}
        sets = {}
        for node in ast.walk(ast.Module(body=body, type_ignores=[])):
            if isinstance(node, ast.Name):
                uses[node.id] = uses.get(node.id, 0) + 1
            if isinstance(node, ast.Assign) and len(node.targets) == 1 \
                    and isinstance(node.targets[0], ast.Subscript) \
                    and isinstance(node.targets[0].value, ast.Name):
                sets.setdefault(node.targets[0].value.id, []).append(node)
        names = set()
        for name, nodes in sets.items():
            pv = pre.env.get(name)
            if len(nodes) == 1 and uses.get(name) == 1 and pv is not None \
                    and key(pv) == ('dict', ()):
                names.add(name)
        return names

    def _havoc(self, body, body_st):
        """Loop-carried state is unknown at the start of an iteration.

        * A local that the body re-binds reads as an opaque
          ('carried', depth, n) inside the body.
        * A local whose *object* the body changes in place (method call
          statement, item/attribute store, del) keeps its identity, but a
          value computed from it before the loop is a snapshot: another
          local holding such a value reads as ('snapshot', value) inside the
          body -- `known = a + b` hoisted out of a loop that appends to b
          is not `a + b` evaluated inside it.
        * Heap facts about attributes the body stores are dropped."""
        first = {}
        mutated = set()
        attrs = set()
        sub_store = False
        sub_bases = []
        list_names = set()

        def note(name, node):
            pos = (getattr(node, 'lineno', 0), getattr(node, 'col_offset', 0))
            if name not in first or pos < first[name]:
                first[name] = pos

        def root(e):
            while isinstance(e, (ast.Attribute, ast.Subscript)):
                e = e.value
            return e.id if isinstance(e, ast.Name) else None

        # the body, and the bodies of the nested functions it calls (what
        # they change through their closure is changed by the loop body);
        # their effects are placed at the call site
        scan = []
        seen_defs = set()

        def collect(nodes, site, hidden):
            for node in nodes:
                scan.append((node, site or node, hidden))
                if isinstance(node, ast.Call) and isinstance(
                        node.func, ast.Name) and node.func.id in \
                        self.local_defs and node.func.id not in seen_defs:
                    seen_defs.add(node.func.id)
                    d = self.local_defs[node.func.id]
                    loc, par = _locals_of(d)
                    collect(list(ast.walk(ast.Module(
                        body=d.body, type_ignores=[]))), site or node,
                        hidden | loc | par)
        collect(list(ast.walk(ast.Module(body=body, type_ignores=[]))),
                None, frozenset())
        for node, site, hidden in scan:
            if isinstance(node, ast.Name) and isinstance(
                    node.ctx, (ast.Store, ast.Del)):
                if node.id not in hidden:
                    note(node.id, site)
            elif isinstance(node, (ast.Attribute, ast.Subscript)) \
                    and isinstance(node.ctx, (ast.Store, ast.Del)):
                r = root(node)
                if r is not None and r not in hidden:
                    mutated.add(r)
                if isinstance(node, ast.Attribute):
                    attrs.add(node.attr)
                else:
                    sub_store = True
                    sub_bases.append(node.value)
            elif isinstance(node, ast.Expr) and isinstance(
                    node.value, ast.Call) and isinstance(
                    node.value.func, ast.Attribute):
                # obj.method(...) as a statement: obj may change
                r = root(node.value.func.value)
                fv = node.value.func.value
                if isinstance(fv, ast.Name) and node.value.func.attr in (
                        'append', 'extend') and fv.id in getattr(
                        self, 'locals_', ()) and fv.id in body_st.env \
                        and (listlike(key(body_st.env[fv.id])) or key(
                            body_st.env[fv.id]) in self.carried_lists):
                    # a list local to the function built piece by piece:
                    # its value is carried from iteration to iteration
                    if fv.id not in hidden:
                        note(fv.id, site)
                        list_names.add(fv.id)
                elif r is not None and r not in hidden:
                    mutated.add(r)
                f = node.value.func.value
                if isinstance(f, ast.Attribute):
                    attrs.add(f.attr)
        # a call (anywhere in the body, not only as a statement) of a method
        # that changes its receiver changes that object
        try:
            for r in self._impure_roots(body):
                if r not in ('self', 'cls'):
                    mutated.add(r)
        except Exception:
            pass
        depth = self.depth
        # snapshots of objects changed in place
        mkeys = set()
        for r in mutated - set(first):
            if r in ('self', 'cls'):
                continue
            v = body_st.env.get(r)
            mkeys.add(('name', r) if v is None else key(v))
        mkeys = set(k for k in mkeys if isinstance(k, tuple) and k[0] in (
            'name', 'list', 'dict', 'set', 'call', 'comp', 'attr', 'sub'))
        if mkeys:
            for name, v in list(body_st.env.items()):
                if name in mutated or name in first or name in getattr(
                        self, '_loop_bound', ()):
                    continue
                kv = key(v)
                if isinstance(kv, tuple) and kv and kv[0] in (
                        'import', 'importfrom', 'localfunc', 'bv'):
                    continue
                if kv not in mkeys and mentions_any(kv, mkeys):
                    body_st.env[name] = ('snapshot', kv)
        # a carried variable is identified by the value it enters the loop
        # with (and, among variables entering with equal values, by the
        # order in which the body first touches them), so that reordering
        # independent statements of the body does not rename them
        per_value = {}
        for name in sorted(first, key=lambda x: first[x]):
            v = body_st.env.get(name)
            if v is None or name in ('self', 'cls'):
                continue
            if name in getattr(self, '_loop_bound', ()):
                # bound afresh by the loop header at every iteration: what
                # the body assigns to it does not reach the next one
                continue
            if isinstance(v, tuple) and v and v[0] in (
                    'import', 'importfrom', 'localfunc', 'bv'):
                continue
            vk = key(v)
            k = per_value.get(vk, 0)
            per_value[vk] = k + 1
            ck = ('carried', depth, vk, k)
            body_st.env[name] = ck
            if name in list_names:
                self.carried_lists.add(ck)
        # items stored in the body: forget what is known about the items of
        # those containers (of every container, if one cannot be named)
        base_keys = set()
        if sub_store:
            probe = State(dict(body_st.env), dict(body_st.heap), [])
            try:
                saved = self.record_calls
                self.record_calls = False
                for b in sub_bases:
                    base_keys.add(self.k(b, probe))
                self.record_calls = saved
            except AnalysisError:
                self.record_calls = saved
                base_keys = None
        for hk in list(body_st.heap):
            if hk[1] in attrs:
                del body_st.heap[hk]
            elif sub_store and isinstance(hk[1], tuple) \
                    and hk[1][0] == 'idx' and (base_keys is None
                                               or hk[0] in base_keys):
                del body_st.heap[hk]
        return list_names

    def _seq_accumulate(self, name, pre, start_env, fall_states, gens_key,
                        path_lits):
        """`acc = acc + [e]` / `acc += (e,)` / `text += piece` on one path
        of the body, nothing on the others: the list / tuple / string built
        by the equivalent comprehension or join."""
        start = start_env.get(name)
        if start is None:
            return None
        sk, prek = key(start), key(pre.env[name])
        changing = []
        for s, o in fall_states:
            post = s.env.get(name)
            if post is None:
                return None
            pk = key(post)
            if pk == sk:
                continue
            if stringy(prek) and pk[0] == 'poly':
                # text += piece, written where the engine could not yet
                # know the accumulator is a text
                delta = to_poly(post) - to_poly(start)
                dk = delta.key()
                if dk[0] != 'poly' and not mentions_any(dk, [sk]):
                    changing.append((s, dk))
                    continue
                return None
            parts = []
            x = pk
            while x[0] == 'strcat':         # left-associated chain
                parts.append(x[2])
                x = x[1]
            parts.append(x)
            parts.reverse()
            if len(parts) >= 2 and parts[0] == sk and not any(
                    mentions_any(q, [sk]) for q in parts[1:]):
                piece = parts[1]
                for q in parts[2:]:
                    piece = strcat(piece, q)
                changing.append((s, piece))
            else:
                return None
        if len(changing) == len(fall_states) and len(changing) > 1 \
                and len(set(p_ for s_, p_ in changing)) == 1:
            # every way through the body adds the same piece
            changing = changing[:1]
            fall_states = changing
        extra_conds = None
        if len(changing) == 2 and len(fall_states) == 2:
            # two complementary ways through the body, each adding a piece:
            # one conditional piece
            l1 = set(path_lits(changing[0][0]))
            l2 = set(path_lits(changing[1][0]))
            d1, d2 = l1 - l2, l2 - l1
            if len(d1) == 1 and len(d2) == 1 and b_not(
                    next(iter(d1))) == next(iter(d2)):
                c = next(iter(d1))
                piece = ifexp(c, changing[0][1], changing[1][1])
                extra_conds = tuple(sorted(l1 & l2, key=_sk))
                changing = [(changing[0][0], piece)]
        if len(changing) != 1:
            return None
        s, piece = changing[0]
        conds = path_lits(s) if len(fall_states) > 1 else ()
        if extra_conds is not None:
            conds = extra_conds
        base, it, _ = gens_key[0]
        gens = ((base, it, conds),)
        if piece[0] == 'list' and len(piece[1]) == 1 and listlike(prek):
            return strcat(prek, ('comp', 'list', piece[1][0], gens))
        if piece[0] == 'comp' and piece[1] == 'list' and listlike(prek):
            # a comprehension appended per iteration: one nested comprehension
            return strcat(prek, ('comp', 'list', piece[2], gens + piece[3]))
        if piece[0] == 'tuple' and len(piece[1]) == 1 and prek[0] == 'tuple':
            return strcat(prek, ('call', ('name', 'tuple'), ((
                'comp', 'gen', piece[1][0], gens),), ()))
        if stringy(prek):
            return strcat(prek, ('call', ('attr', ('const', ''), 'join'), ((
                'comp', 'gen', piece, gens),), ()))
        return None

    def _flags(self, body, pre):
        """Names holding a boolean constant before the loop that the body
        only ever sets to the opposite constant (flag-and-break == any())."""
        cand = {}
        bad = set()
        for node in ast.walk(ast.Module(body=body, type_ignores=[])):
            if isinstance(node, ast.Assign):
                for t in node.targets:
                    if isinstance(t, ast.Name):
                        if isinstance(node.value, ast.Constant) and \
                                isinstance(node.value.value, (bool, int)) \
                                and len(node.targets) == 1:
                            cand.setdefault(t.id, []).append(
                                node.value.value)
                        else:
                            bad.add(t.id)
                    else:
                        for x in ast.walk(t):
                            if isinstance(x, ast.Name) and isinstance(
                                    x.ctx, ast.Store):
                                bad.add(x.id)
            elif isinstance(node, (ast.AugAssign, ast.AnnAssign, ast.For,
                                   ast.With, ast.NamedExpr)):
                tg = [node.target] if not isinstance(node, ast.With) else [
                    i.optional_vars for i in node.items
                    if i.optional_vars is not None]
                for t in tg:
                    for x in ast.walk(t):
                        if isinstance(x, ast.Name):
                            bad.add(x.id)
        out = {}
        for name, vals in cand.items():
            pv = pre.env.get(name)
            if name in bad or not vals or pv is None:
                continue
            pk = key(pv)
            if pk[0] == 'const' and isinstance(pk[1], bool) and all(
                    isinstance(v, bool) and v == (not pk[1]) for v in vals):
                out[name] = pk[1]
            elif pk[0] == 'num' and pk[1] in (0, 1) and all(
                    not isinstance(v, bool) and v == 1 - pk[1]
                    for v in vals):
                out[name] = int(pk[1])      # 0/1 used as a flag
        return out

    def _loop(self, n, st, gens_key, bind, body=None, extra_assigned=(),
              is_for=True):
        """Generic loop summary.  Body is walked once with the loop variable
        bound to an alpha-renamed bound variable.  Results:
        * for every body path that returns/raises: one overall path
          'exists an iteration satisfying <conds>' -> that outcome;
        * one fall-through path where each variable assigned in the body
          becomes pre + SUM(delta) when the body adds a loop-invariant-free
          delta to it (accumulate idiom), a comprehension when the body
          appends to a fresh list, an existential when it raises a flag,
          else an opaque loop value; the body's events are kept as one
          ('loop', ...) event."""
        if body is None:
            body = n.body
        self.loop_id += 1
        lid = self.loop_id
        pre = st
        body_st = State(dict(pre.env), dict(pre.heap), [])
        bind(body_st)
        # names the loop header itself binds (element, index): fresh each
        # iteration, never a stale snapshot
        self._loop_bound = set(
            k for k, v in body_st.env.items()
            if k not in pre.env or pre.env[k] is not v)
        appenders = self._appenders(body, pre) if is_for else set()
        dictb = self._dict_builders(body, pre) if is_for else set()
        flags = self._flags(body, pre)
        list_names = self._havoc(body, body_st)
        body_st0 = dict(body_st.env)
        self.appender_stack.append(appenders | dictb)
        self.loop_assigned.append(self._assigned_names(body))
        appenders = appenders | dictb
        self.depth += 1
        try:
            saved_counters = (self.ph, self.loop_id)
            heap0 = dict(body_st.heap)
            outs = self.block(body, body_st)
            # a local that enters the loop as <expr> and is re-bound to the
            # same <expr> at the end of every iteration (`nxt = self.peek()`
            # before the loop and last in its body) is that expression
            # evaluated afresh, not a carried unknown: evaluate the body
            # again with it bound so
            stable = {}
            for name, cv in body_st0.items():
                if not (isinstance(cv, tuple) and cv and cv[0] == 'carried'):
                    continue
                pv = pre.env.get(name)
                if pv is None or key(pv)[0] != 'call':
                    continue
                posts = [s.env.get(name) for s, o in outs
                         if o is None or o[0] == 'continue']
                if posts and all(q is not None and key(q) == key(pv)
                                 for q in posts):
                    stable[name] = pv
            if stable:
                self.ph, self.loop_id = saved_counters
                body_st = State(dict(body_st0), dict(heap0), [])
                for name, pv in stable.items():
                    body_st.env[name] = pv
                    body_st0[name] = pv
                outs = self.block(body, body_st)
        finally:
            self.depth -= 1
            self.appender_stack.pop()
            self.loop_assigned.pop()
        results = []
        fall_states = []
        for s, o in outs:
            if o is not None and o[0] in ('return', 'raise'):
                ex = pre.copy()
                lits = set()
                for e in s.trace:
                    if e[0] == 'cond':
                        lits |= lits_of(e[1], e[2])
                ex.trace.append(('cond', exists_key(gens_key, lits), True,
                                 n.lineno))
                ex.trace.append(('loop-part', gens_key, tuple(s.trace), lid))
                results.append((ex, o))
            else:
                if o is not None and o[0] == 'continue':
                    o = None        # next iteration either way
                fall_states.append((s, o))
        has_break = any(o is not None for s, o in fall_states)
        # fall-through
        ft = pre.copy()
        ex_conds = []
        for ex, o in results:
            ex_conds.append(ex.trace[-2][1])
        for c in ex_conds:
            ft.trace.append(('cond', c, False, n.lineno))

        def path_lits(s):
            lits = set()
            for e in s.trace:
                if e[0] == 'cond':
                    lits |= lits_of(e[1], e[2])
            return tuple(sorted(lits, key=_sk))

        # variables
        assigned = set(extra_assigned)
        for node in ast.walk(ast.Module(body=body, type_ignores=[])):
            if isinstance(node, (ast.Assign, ast.AugAssign, ast.AnnAssign,
                                 ast.For, ast.With, ast.NamedExpr)):
                tg = []
                if isinstance(node, ast.Assign):
                    tg = node.targets
                elif isinstance(node, ast.For):
                    tg = [node.target]
                elif isinstance(node, ast.With):
                    tg = [i.optional_vars for i in node.items
                          if i.optional_vars is not None]
                else:
                    tg = [node.target]
                for t in tg:
                    for x in ast.walk(t):
                        if isinstance(x, ast.Name) and isinstance(
                                x.ctx, ast.Store):
                            assigned.add(x.id)
        assigned |= set(list_names)
        newvals = {}
        # explicit comprehension: fresh list + one append
        done_app = set()
        had_events = set()
        for name in sorted(appenders):
            hits = []
            for s, o in fall_states:
                evs = [e for e in s.trace if e[0] == 'append'
                       and e[1] == name]
                if evs:
                    hits.append((s, evs))
                    had_events.add(name)
            prek = key(pre.env[name])
            startk = key(body_st0.get(name, pre.env[name]))
            changed = [(s, s.env.get(name)) for s, o in fall_states
                       if s.env.get(name) is not None
                       and key(s.env[name]) != startk]
            if has_break:
                continue
            if len(hits) == 2 and all(len(h[1]) == 1 for h in hits) \
                    and not changed and len(fall_states) == 2:
                la, lb = path_lits(hits[0][0]), path_lits(hits[1][0])
                da = [x for x in la if x not in lb]
                db = [x for x in lb if x not in la]
                if len(da) == 1 and len(db) == 1 and da[0] == b_not(db[0]):
                    common = tuple(x for x in la if x in lb)
                    elt = ifexp(da[0], hits[0][1][0][2], hits[1][1][0][2])
                    base, it, _ = gens_key[0]
                    cv = ('comp', 'dict' if name in dictb else 'list', elt,
                          ((base, it, common),))
                    newvals[name] = cv if name in dictb else strcat(prek, cv)
                    done_app.add(name)
                    continue
            if len(hits) == 1 and len(hits[0][1]) == 1 and not changed:
                s, evs = hits[0]
                conds = path_lits(s) if len(fall_states) > 1 else ()
                base, it, _ = gens_key[0]
                cv = ('comp', 'dict' if name in dictb else 'list',
                      evs[0][2], ((base, it, conds),))
                newvals[name] = cv if name in dictb else strcat(prek, cv)
                done_app.add(name)
            elif not hits and len(changed) == 1 and name not in dictb \
                    and prek == ('list', ()) and key(
                        changed[0][1])[0] == 'comp' and key(
                        changed[0][1])[1] == 'list':
                s, v = changed[0]
                v = key(v)
                conds = path_lits(s) if len(fall_states) > 1 else ()
                base, it, _ = gens_key[0]
                newvals[name] = ('comp', 'list', v[2],
                                 ((base, it, conds),) + v[3])
                done_app.add(name)
        # appends that are not the comprehension idiom stay ordinary effects
        for s, o in fall_states:
            for i, e in enumerate(s.trace):
                if e[0] == 'append' and e[1] not in done_app:
                    if e[1] in dictb:
                        s.trace[i] = ('store', ('sub', ('dict', ()),
                                                e[2][1]), e[2][2], e[3])
                    else:
                        s.trace[i] = ('expr', ('call', (
                            'attr', key(pre.env[e[1]]), 'append'),
                            (e[2],), ()), e[3])
        for s, o in fall_states:
            s.trace[:] = [e for e in s.trace if e[0] != 'append']
        for name in sorted(had_events - done_app):
            if name not in dictb:
                # appended to in a way that is not a comprehension
                newvals[name] = ('changed', key(pre.env[name]), 'loop',
                                 gens_key)
        body_events = []
        for s, o in fall_states:
            body_events.append((tuple(s.trace), o[0] if o else None))
        ft.trace.append(('loop', gens_key, tuple(body_events), lid, n.lineno))
        # flag raised in the loop
        for name, prev in sorted(flags.items()):
            setters = []
            numeric = not isinstance(prev, bool)
            other = ('num', Fraction(1 - prev)) if numeric else (
                'const', not prev)
            for s, o in fall_states:
                pv = s.env.get(name)
                if pv is not None and key(pv) == other:
                    setters.append(exists_key(gens_key, path_lits(s)))
            if not setters:
                newvals[name] = pre.env[name]
            elif numeric:
                e = self._bool('or', setters)
                newvals[name] = ('ifexp', e, other, ('num', Fraction(prev)))
            else:
                e = self._bool('or', setters)
                newvals[name] = e if not prev else b_not(e)
        for name in sorted(assigned | set(newvals)):
            newv = newvals.get(name)
            if newv is None and name in pre.env and not has_break \
                    and name not in extra_assigned and is_for:
                newv = self._seq_accumulate(name, pre, body_st0, fall_states,
                                            gens_key, path_lits)
            if newv is None and name in pre.env and not has_break \
                    and name not in extra_assigned:
                pre_p = to_poly(pre.env[name])
                start = body_st0.get(name)
                in_p = to_poly(start) if start is not None else pre_p
                pre_atoms = in_p.atoms() | set(
                    a for a in pre_p.atoms() if not pre_p.is_const())
                terms = []
                ok = True
                for s, o in fall_states:
                    post = s.env.get(name)
                    if post is None:
                        ok = False
                        break
                    delta = to_poly(post) - in_p
                    if delta.is_const() and delta.const_value() == 0:
                        continue
                    if mentions_any(delta, pre_atoms):
                        ok = False
                        break
                    if isinstance(post, tuple) and not isinstance(
                            pre.env[name], Poly) and key(post)[0] in (
                            'comp', 'strcat', 'list', 'tuple', 'dict'):
                        ok = False
                        break
                    base, it, _ = gens_key[0]
                    conds = path_lits(s) if len(fall_states) > 1 else ()
                    dk = delta.key()
                    if dk[0] == 'sum':
                        # a sum of sums is one sum over both generators
                        terms.append(Poly.atom(('sum', dk[1], (
                            (base, it, conds),) + tuple(dk[2]))))
                    else:
                        terms.append(Poly.atom(('sum', dk,
                                                ((base, it, conds),))))
                if ok:
                    newv = pre_p
                    for t in terms:
                        newv = newv + t
                    if not terms:
                        newv = pre.env[name]
            if newv is None:
                # opaque, but a function of what each iteration does to it
                posts = set()
                for s, o in fall_states:
                    pv = s.env.get(name)
                    posts.add((path_lits(s) if len(fall_states) > 1 else (),
                               None if pv is None else key(pv),
                               o[0] if o else None))
                # (as a decision table: which update under which condition)
                try:
                    from . import bdd as _bdd
                    table = _bdd.canon([(frozenset(l), pv, o)
                                        for l, pv, o in posts])
                    newv = ('loopvar', gens_key,
                            tuple(sorted(table, key=_sk)))
                except (RecursionError, Exception) as exc:
                    if isinstance(exc, AnalysisError):
                        raise
                    newv = ('loopvar', gens_key,
                            tuple(sorted(posts, key=_sk)))
            ft.env[name] = newv
        # heap entries written in the body are unknown afterwards
        for s, o in fall_states:
            for e in s.trace:
                if e[0] == 'store':
                    tk = e[1]
                    if tk[0] == 'attr':
                        ft.heap.pop((tk[1], tk[2]), None)
                    elif tk[0] == 'sub':
                        ft.heap.pop((tk[1], ('idx', tk[2])), None)
        if n.orelse:
            if has_break:
                # the else suite runs iff no iteration took a break
                brk = self._bool('or', [exists_key(gens_key, path_lits(s))
                                        for s, o in fall_states
                                        if o is not None])
                a = ft.copy()
                a.trace.append(('cond', brk, False, n.lineno))
                results.extend(self.block(n.orelse, a))
                ft.trace.append(('cond', brk, True, n.lineno))
                results.append((ft, None))
            else:
                results.extend(self.block(n.orelse, ft))
        else:
            results.append((ft, None))
        return results

    def _search_then_act(self, n):
        """`for x in it: if c: <act>; break` where <act> does not use x and x
        is not read after the loop  ==  `if any(c for x in it): <act>`."""
        if n.orelse or len(n.body) != 1 or not isinstance(n.body[0], ast.If):
            return None
        iff = n.body[0]
        if iff.orelse or len(iff.body) < 2 or not isinstance(
                iff.body[-1], ast.Break):
            return None
        act = iff.body[:-1]
        if not all(isinstance(a, (ast.Expr, ast.Assign, ast.AugAssign,
                                  ast.Delete)) for a in act):
            return None
        targets = set(x.id for x in ast.walk(n.target)
                      if isinstance(x, ast.Name))
        for a in act:
            if any(isinstance(x, ast.Name) and x.id in targets
                   for x in ast.walk(a)):
                return None
        fn = getattr(self, 'func_node', None)
        if fn is None:
            return None
        inside = set(id(x) for x in ast.walk(n))
        parents = getattr(self, '_parent_map', None)
        if parents is None or parents[0] is not fn:
            pm = {}
            for node in ast.walk(fn):
                for ch in ast.iter_child_nodes(node):
                    pm[id(ch)] = node
            parents = self._parent_map = (fn, pm)
        pm = parents[1]
        for x in ast.walk(fn):
            if isinstance(x, ast.Name) and x.id in targets \
                    and id(x) not in inside:
                if not isinstance(x.ctx, ast.Load):
                    continue        # bound again elsewhere
                # a read inside another loop / comprehension that binds the
                # name itself is that loop's variable
                q, own = pm.get(id(x)), False
                while q is not None:
                    tg = None
                    if isinstance(q, (ast.For, ast.comprehension)):
                        tg = q.target
                    elif isinstance(q, (ast.ListComp, ast.SetComp,
                                        ast.GeneratorExp, ast.DictComp)):
                        for g in q.generators:
                            if any(isinstance(y, ast.Name) and y.id == x.id
                                   for y in ast.walk(g.target)):
                                own = True
                    if tg is not None and any(
                            isinstance(y, ast.Name) and y.id == x.id
                            for y in ast.walk(tg)):
                        own = True
                    q = pm.get(id(q))
                if not own:
                    return None
        gen = ast.GeneratorExp(elt=iff.test, generators=[ast.comprehension(
            target=n.target, iter=n.iter, ifs=[], is_async=0)])
        fake = ast.If(test=ast.Call(func=ast.Name(id='any', ctx=ast.Load()),
                                    args=[gen], keywords=[]),
                      body=act, orelse=[])
        ast.copy_location(fake, n)
        ast.fix_missing_locations(fake)
        return fake

    def _reverse_delete_filter(self, n):
        """`for i in range(len(L)-1, -1, -1): if P(L[i]): del L[i]` on a list
        local to the function  ==  `L = [x for x in L if not P(x)]`."""
        import copy
        if n.orelse or len(n.body) != 1 or not isinstance(
                n.target, ast.Name):
            return None
        it = n.iter
        if not (isinstance(it, ast.Call) and isinstance(it.func, ast.Name)
                and it.func.id == 'range' and len(it.args) == 3
                and not it.keywords):
            return None
        a0, a1, a2 = it.args
        if src(a1).replace(' ', '') != '-1' or src(a2).replace(' ', '') \
                != '-1':
            return None
        if not (isinstance(a0, ast.BinOp) and isinstance(a0.op, ast.Sub)
                and isinstance(a0.right, ast.Constant) and a0.right.value == 1
                and isinstance(a0.left, ast.Call) and isinstance(
                    a0.left.func, ast.Name) and a0.left.func.id == 'len'
                and len(a0.left.args) == 1 and isinstance(
                    a0.left.args[0], ast.Name)):
            return None
        L, i = a0.left.args[0].id, n.target.id
        if L not in getattr(self, 'locals_', ()):
            return None
        inner = n.body[0]
        if isinstance(inner, ast.For):
            inner = self._search_then_act(inner)
        if not (isinstance(inner, ast.If) and not inner.orelse
                and len(inner.body) == 1 and isinstance(
                    inner.body[0], ast.Delete)
                and len(inner.body[0].targets) == 1):
            return None
        tgt = inner.body[0].targets[0]
        if not (isinstance(tgt, ast.Subscript) and isinstance(
                tgt.value, ast.Name) and tgt.value.id == L and isinstance(
                tgt.slice, ast.Name) and tgt.slice.id == i):
            return None
        elt = '_elt_%d' % n.lineno
        want = ast.dump(ast.Subscript(value=ast.Name(id=L, ctx=ast.Load()),
                                      slice=ast.Name(id=i, ctx=ast.Load()),
                                      ctx=ast.Load()))

        class R(ast.NodeTransformer):
            def visit_Subscript(self, node):
                if ast.dump(node) == want:
                    return ast.copy_location(ast.Name(id=elt, ctx=ast.Load()),
                                             node)
                return self.generic_visit(node)
        test = R().visit(ast.parse(ast.unparse(inner.test), mode='eval').body)
        if any(isinstance(x, ast.Name) and x.id in (L, i)
               for x in ast.walk(test)):
            return None
        fn = getattr(self, 'func_node', None)
        if fn is not None:
            inside = set(id(x) for x in ast.walk(n))
            if any(isinstance(x, ast.Name) and x.id == i
                   and id(x) not in inside and isinstance(x.ctx, ast.Load)
                   and x.lineno > n.lineno for x in ast.walk(fn)) and False:
                return None
        comp = ast.ListComp(
            elt=ast.Name(id=elt, ctx=ast.Load()),
            generators=[ast.comprehension(
                target=ast.Name(id=elt, ctx=ast.Store()),
                iter=ast.Name(id=L, ctx=ast.Load()),
                ifs=[ast.UnaryOp(op=ast.Not(), operand=test)], is_async=0)])
        fake = ast.Assign(targets=[ast.Name(id=L, ctx=ast.Store())],
                          value=comp)
        ast.copy_location(fake, n)
        ast.fix_missing_locations(fake)
        return fake

    def st_For(self, n, st):
        fake = self._search_then_act(n)
        if fake is None:
            fake = self._reverse_delete_filter(n)
        if fake is not None:
            return self.stmt(fake, st)
        elts = self._enumerable(n.iter, st) if isinstance(
            n.iter, (ast.Tuple, ast.List, ast.Constant)) else None
        if elts is None and isinstance(n.iter, ast.Call):
            # range(<constant up to 4>): its body that many times
            r = self._enumerable(n.iter, st)
            if r is not None and len(r) <= 4:
                elts = r
        if elts is not None and elts:
            return self._unrolled(n, elts, st)
        seq = self._const_seq(n.iter) if isinstance(
            n.iter, (ast.Name, ast.Attribute)) else None
        if seq is not None:
            # a class- or module-level tuple nothing writes to: spelled out
            return self._unrolled(n, list(seq.elts), st)
        if isinstance(n.iter, ast.Name) and n.iter.id in st.env:
            # a local bound to a spelled-out tuple/list
            vk = key(st.env[n.iter.id])
            if vk[0] in ('tuple', 'list') and 0 < len(vk[1]) <= 12:
                return self._unrolled(n, [('key', x) for x in vk[1]], st)
        it_node, target, body = n.iter, n.target, n.body
        idx_name, start = None, None
        cnt = self._counting_loop(n, st)
        if cnt is not None:
            return cnt
        items = self._items_iter(it_node, target)
        if items is not None:
            mp, kt, vt = items
            it = self.k(mp, st)
            base = ('bv', self.depth)
            gens_key = ((base, it, ()),)

            def bind_items(body_st):
                self._bind_target_value(kt, base, body_st)
                self._bind_target_value(vt, ('sub', it, base), body_st)
            return self._loop(n, st, gens_key, bind_items, body=body)
        if isinstance(it_node, ast.Call) and isinstance(
                it_node.func, ast.Name) and it_node.func.id == 'enumerate' \
                and 'enumerate' not in st.env and not it_node.keywords \
                and 1 <= len(it_node.args) <= 2 and isinstance(
                    target, (ast.Tuple, ast.List)) and len(target.elts) == 2 \
                and isinstance(target.elts[0], ast.Name):
            idx_name = target.elts[0].id
            start = self.ev(it_node.args[1], st) if len(
                it_node.args) == 2 else Poly.const(0)
            target = target.elts[1]
            it_node = it_node.args[0]
        elif isinstance(it_node, ast.Call) and isinstance(
                it_node.func, ast.Name) and it_node.func.id == 'range' \
                and 'range' not in st.env and not it_node.keywords \
                and isinstance(target, ast.Name) and (
                    (len(it_node.args) == 1 and self._is_len(it_node.args[0]))
                    or (len(it_node.args) == 2 and isinstance(
                        it_node.args[0], ast.Constant)
                        and it_node.args[0].value == 0
                        and self._is_len(it_node.args[1]))):
            # for i in range(len(xs))  ==  for i, _ in enumerate(xs)
            idx_name = target.id
            start = Poly.const(0)
            it_node = it_node.args[-1].args[0]
            target = None
        else:
            # manual counter: `i = c` before, `i += 1` last in the body
            last = body[-1] if body else None
            nm = None
            if isinstance(last, ast.AugAssign) and isinstance(
                    last.op, ast.Add) and isinstance(last.target, ast.Name) \
                    and isinstance(last.value, ast.Constant) \
                    and last.value.value == 1:
                nm = last.target.id
            elif isinstance(last, ast.Assign) and len(last.targets) == 1 \
                    and isinstance(last.targets[0], ast.Name) and src(
                        last.value) in ('%s + 1' % last.targets[0].id,
                                        '1 + %s' % last.targets[0].id):
                nm = last.targets[0].id
            if nm is not None and nm in st.env and isinstance(
                    st.env[nm], Poly) and st.env[nm].is_const():
                rest = ast.Module(body=body[:-1], type_ignores=[])
                clean = True
                for x in ast.walk(rest):
                    if isinstance(x, ast.Name) and x.id == nm and isinstance(
                            x.ctx, (ast.Store, ast.Del)):
                        clean = False
                    if isinstance(x, ast.Continue):
                        clean = False
                if clean and len(body) > 1:
                    idx_name, start, body = nm, st.env[nm], body[:-1]
        it = self.k(it_node, st)
        base = ('bv', self.depth)
        gens_key = ((base, it, ()),)
        depth = self.depth

        def bind(body_st):
            if idx_name is not None:
                # indexed forms: the element is xs[<position>]
                pos = ('bv', depth, 'idx')
                body_st.env[idx_name] = Poly.atom(pos) + to_poly(start)
                if target is not None:
                    self._bind_target_value(target, ('sub', it, pos),
                                            body_st)
            else:
                self._bind_target(target, base, body_st)
        return self._loop(n, st, gens_key, bind, body=body,
                          extra_assigned=(idx_name,) if idx_name else ())

    def _counting_loop(self, n, st):
        """`for x in xs: d[k(x)] += 1` on a defaultdict(int), or
        `d[k] = d.get(k, 0) + 1` on a dict: d becomes the tally of k over
        xs -- one form for both spellings."""
        if n.orelse or len(n.body) != 1:
            return None
        b = n.body[0]
        tgt = None
        form = None
        if isinstance(b, ast.AugAssign) and isinstance(b.op, ast.Add) \
                and isinstance(b.value, ast.Constant) and b.value.value == 1 \
                and isinstance(b.target, ast.Subscript):
            tgt, form = b.target, 'default'
        elif isinstance(b, ast.Assign) and len(b.targets) == 1 and isinstance(
                b.targets[0], ast.Subscript) and isinstance(
                b.value, ast.BinOp) and isinstance(b.value.op, ast.Add):
            l, r = b.value.left, b.value.right
            if isinstance(l, ast.Constant) and l.value == 1:
                l, r = r, l
            if isinstance(r, ast.Constant) and r.value == 1:
                t = b.targets[0]
                if isinstance(l, ast.Subscript) and ast.dump(
                        l.value) == ast.dump(t.value) and ast.dump(
                        l.slice) == ast.dump(t.slice):
                    tgt, form = t, 'default'
                elif isinstance(l, ast.Call) and isinstance(
                        l.func, ast.Attribute) and l.func.attr == 'get' \
                        and ast.dump(l.func.value) == ast.dump(t.value) \
                        and len(l.args) == 2 and ast.dump(
                            l.args[0]) == ast.dump(t.slice) and isinstance(
                            l.args[1], ast.Constant) \
                        and l.args[1].value == 0:
                    tgt, form = t, 'plain'
        if tgt is None or not isinstance(tgt.value, ast.Name):
            return None
        name = tgt.value.id
        pv = st.env.get(name)
        if pv is None or name not in self.locals_:
            return None
        pk = key(pv)
        is_default = pk[0] == 'call' and self._call_name(pk[1]) in (
            'defaultdict', 'collections.defaultdict') and pk[2] == (
            ('name', 'int'),) and not pk[3]
        if not ((form == 'default' and is_default)
                or (form == 'plain' and (pk == ('dict', ()) or is_default))):
            return None
        uses = sum(1 for x in ast.walk(n) if isinstance(x, ast.Name)
                   and x.id == name)
        if uses != (1 if form == 'default' and isinstance(
                b, ast.AugAssign) else 2):
            return None
        it = self.k(n.iter, st)
        base = ('bv', self.depth)
        body_st = State(dict(st.env), dict(st.heap), [])
        self._bind_target(n.target, base, body_st)
        self.depth += 1
        try:
            kk = self.k(tgt.slice, body_st)
        finally:
            self.depth -= 1
        st.env[name] = ('tally', kk, ((base, it, ()),))
        return [(st, None)]

    def _is_len(self, node):
        return isinstance(node, ast.Call) and isinstance(
            node.func, ast.Name) and node.func.id == 'len' \
            and len(node.args) == 1 and not node.keywords

    def _unrolled(self, n, elts, st):
        """`for x in (a, b, c): body` -- the iterable is spelled out, so the
        loop is its body once per element."""
        live = [(st, None)]
        for e in elts:
            nxt = []
            for s, o in live:
                if o is not None:
                    nxt.append((s, o))
                    continue
                if isinstance(e, tuple) and e[0] == 'key':
                    self.assign(n.target, poly_of_key(e[1]), s, n.lineno)
                else:
                    fake = ast.Assign(targets=[n.target], value=e)
                    ast.copy_location(fake, n)
                    ast.fix_missing_locations(fake)
                    self.st_Assign(fake, s)
                for s2, o2 in self.block(n.body, s):
                    if o2 is not None and o2[0] == 'continue':
                        o2 = None
                    nxt.append((s2, o2))
            live = nxt
            if len(live) > MAX_PATHS:
                raise Unmodelled('more than %d paths' % MAX_PATHS)
        out = []
        for s, o in live:
            if o is not None and o[0] == 'break':
                out.append((s, None))
            elif o is None and n.orelse:
                out.extend(self.block(n.orelse, s))
            else:
                out.append((s, o))
        return out

    def st_While(self, n, st):
        # `while True: if c: break ...`  ==  `while not c: ...`
        test, body = n.test, list(n.body)
        while body and isinstance(body[0], ast.If) and not n.orelse \
                and len(body[0].body) == 1 and isinstance(body[0].body[0],
                                                          ast.Break):
            neg = ast.UnaryOp(op=ast.Not(), operand=body[0].test)
            ast.copy_location(neg, body[0].test)
            if isinstance(test, ast.Constant) and test.value in (True, 1):
                test = neg
            else:
                test = ast.BoolOp(op=ast.And(), values=[test, neg])
                ast.copy_location(test, n.test)
            body = list(body[0].orelse) + body[1:]
            if not body:
                body = [ast.copy_location(ast.Pass(), n)]
        body_probe = State(dict(st.env), dict(st.heap), [])
        # a local read by the test, not re-bound by the body, whose value
        # was computed from an object the body changes (a state-changing
        # method is called on it): the test sees the old value every time
        try:
            roots = set(('name', r) for r in self._impure_roots(body)
                        if r not in ('self', 'cls'))
        except Exception:
            roots = set()
        if roots:
            stored = self._assigned_names(body)
            for x in ast.walk(test):
                if isinstance(x, ast.Name) and x.id in body_probe.env \
                        and x.id not in stored:
                    kv = key(body_probe.env[x.id])
                    if kv not in roots and kv[0] != 'snapshot' \
                            and mentions_any(kv, roots):
                        body_probe.env[x.id] = ('snapshot', kv)
        t = as_bool(self.k(test, body_probe))
        gens_key = ((('bv', self.depth), ('while', t), ()),)
        return self._loop(n, st, gens_key, lambda s: None, body=body,
                          is_for=False)

    def st_Break(self, n, st):
        return [(st, ('break',))]

    def st_Continue(self, n, st):
        return [(st, ('continue',))]

    _TRIVIAL = (ast.Assign, ast.Name, ast.Constant, ast.Pass, ast.Tuple,
                ast.Load, ast.Store, ast.Expr, ast.Return, ast.Break,
                ast.Continue)

    def _may_raise_into(self, stmt, names, idx):
        """Can an exception that a handler catches come out of `stmt` other
        than by an explicit `raise` statement (which has its own path)?
        Every statement that does more than bind names to names/constants
        may.  (Which *package* exception a call can raise was tried on a
        name-resolved call graph and given up: without receiver types every
        operator reaches every dunder method of the package.)"""
        return not all(isinstance(x, self._TRIVIAL) for x in ast.walk(stmt))

    def _keyerror_lookup(self, n):
        """`try: <one simple statement reading X[k]> except KeyError: H`
        (no else/finally, nothing else in the statement that can raise
        KeyError: no call, one subscript)  ==  `if k in X: stmt else: H` --
        the handler around a subscript says X is a mapping."""
        if n.orelse or n.finalbody or len(n.handlers) != 1 \
                or len(n.body) != 1:
            return None
        h = n.handlers[0]
        if h.name or not isinstance(h.type, ast.Name) \
                or h.type.id != 'KeyError':
            return None
        stmt = n.body[0]
        if not isinstance(stmt, (ast.Assign, ast.Return, ast.Expr)):
            return None
        subs = [x for x in ast.walk(stmt) if isinstance(x, ast.Subscript)
                and isinstance(x.ctx, ast.Load)]
        if len(subs) != 1 or any(isinstance(x, (ast.Call, ast.BinOp))
                                 for x in ast.walk(stmt)):
            return None
        sub = subs[0]
        if isinstance(sub.slice, (ast.Slice, ast.Constant)):
            return None
        test = ast.Compare(left=sub.slice, ops=[ast.In()],
                           comparators=[sub.value])
        fake = ast.If(test=test, body=[stmt], orelse=list(h.body))
        ast.copy_location(fake, n)
        ast.fix_missing_locations(fake)
        return fake

    def st_Try(self, n, st):
        fake = self._keyerror_lookup(n)
        if fake is not None:
            return self.stmt(fake, st)
        handler_names = []
        for h in n.handlers:
            if h.type is None:
                handler_names.append(('<bare>',))
            elif isinstance(h.type, ast.Tuple):
                handler_names.append(tuple(src(e) for e in h.type.elts))
            else:
                handler_names.append((src(h.type),))
        idx = None
        # the try body, statement by statement; before each statement that
        # may raise into a handler, an edge from the state reached so far
        live = [(st, None)]
        edges = []
        for stmt in n.body:
            nxt = []
            simple = not isinstance(stmt, (ast.If, ast.For, ast.While,
                                           ast.With, ast.Try))
            hits = [hi for hi, names in enumerate(handler_names)
                    if self._may_raise_into(stmt, names, idx)]
            for s, o in live:
                if o is not None:
                    nxt.append((s, o))
                    continue
                for hi in hits:
                    e = s.copy()
                    if not simple:
                        # somewhere inside a compound statement: what it
                        # assigns is unknown in the handler
                        for node in ast.walk(stmt):
                            if isinstance(node, ast.Name) and isinstance(
                                    node.ctx, ast.Store):
                                e.env[node.id] = ('maybe', node.id)
                    edges.append((e, hi))
                nxt.extend(self.stmt(stmt, s))
            live = nxt
            if len(live) > MAX_PATHS:
                raise Unmodelled('more than %d paths' % MAX_PATHS)
        body = live
        results = []
        for s, o in body:
            if o is not None and o[0] == 'raise':
                caught = False
                for h, names in zip(n.handlers, handler_names):
                    hit = o[1] in names or names == ('<bare>',) or \
                        'Exception' in names or 'BaseException' in names
                    if not hit and idx is not None and o[1] in \
                            idx.exc_classes:
                        hit = idx.catches(names, o[1])
                    if hit:
                        s.trace.append(('caught', o[1], names, h.lineno))
                        if h.name:
                            s.env[h.name] = ('exc', o[1])
                        results.extend(self.block(h.body, s))
                        caught = True
                        break
                if not caught:
                    results.append((s, o))
            else:
                if o is None and n.orelse:
                    results.extend(self.block(n.orelse, s))
                else:
                    results.append((s, o))
        for e, hi in edges:
            h, names = n.handlers[hi], handler_names[hi]
            mark = len(e.trace)
            e.trace.append(('except', names, h.lineno))
            if h.name:
                e.env[h.name] = ('exc', names)
            for s2, o2 in self.block(h.body, e):
                if o2 is not None and o2[0] == 'raise' \
                        and o2[1] == '<reraise>' and all(
                            ev[0] in ('except', 'cond', 'call')
                            for ev in s2.trace[mark:]) and not any(
                            ev[0] == 'cond' and ev[1][0] != 'const'
                            for ev in s2.trace[mark:]):
                    # the handler does nothing but let the exception go:
                    # the same as no handler on this path
                    continue
                results.append((s2, o2))
        if n.finalbody:
            fin = []
            for s, o in results:
                for s2, o2 in self.block(n.finalbody, s):
                    fin.append((s2, o2 if o2 is not None else o))
            results = fin
        return results


def _load(target):
    t = ast.parse(src(target), mode='eval').body
    return t


def summarize(func, **kw):
    return Summarizer(**kw).summarize(func)


def expr_key(text, env=None):
    """Normal form of an oracle expression written as Python text."""
    node = ast.parse(text, mode='eval').body
    ev = Evaluator(record_calls=False)
    return key(ev.ev(node, State(env=dict(env or {}))))


def decision_table(paths, atoms=None, implications=()):
    """Enumerate assignments of the predicate atoms and map each to the set
    of outcomes of the feasible paths.  implications: list of (a, b) meaning
    a => b (excluded assignments)."""
    if atoms is None:
        atoms = []
        for p in paths:
            for k, pol in p.conds():
                for a in bool_atoms(k):
                    if a not in atoms:
                        atoms.append(a)
    if len(atoms) > 12:
        raise Unmodelled('decision table over %d atoms' % len(atoms))
    table = []
    n = len(atoms)
    for bits in range(1 << n):
        assign = dict((a, bool(bits >> i & 1)) for i, a in enumerate(atoms))
        if any(assign.get(a) and not assign.get(b, True)
               for a, b in implications):
            continue
        outs = []
        for p in paths:
            if p.feasible(assign):
                outs.append(p)
        table.append((assign, outs))
    return atoms, table

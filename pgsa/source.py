"""Source model: parse the repository under analysis (never import it).

Every checker goes through `Repo`: it parses all package modules (tests
excluded), attaches parent links and qualified names, records a digest per
*consulted* file, and turns a vanished anchor into `AnalysisError` (exit 2,
fail-closed) instead of a silent pass.
"""
import ast
import hashlib
import os

REPO_ROOT = os.environ.get('VERIF_REPO', '/repo')
PKG = 'pgradd'


class AnalysisError(Exception):
    """The analysis itself cannot stand (anchor gone, unmodelled syntax)."""


class Module(object):
    def __init__(self, rel, path, text=None, sha=None):
        self.rel = rel
        self.path = path
        if text is None:
            with open(path, 'rb') as f:
                raw = f.read()
            self.sha = hashlib.sha256(raw).hexdigest()
            self.src = raw.decode('utf-8')
        else:
            # canonicalised text (see Repo._canonicalise); the digest stays
            # that of the file on disk
            self.sha = sha
            self.src = text
        try:
            self.tree = ast.parse(self.src, filename=path)
            compile(self.src, path, 'exec', dont_inherit=True)
        except SyntaxError as exc:
            raise AnalysisError('syntax error in %s: %s' % (rel, exc))
        self.lines = self.src.splitlines()
        _annotate(self.tree, rel)


def _annotate(tree, rel):
    tree._parent = None
    tree._qual = ''
    tree._rel = rel
    for node in ast.walk(tree):
        for child in ast.iter_child_nodes(node):
            child._parent = node
            child._rel = rel
    # qualified names
    def visit(node, prefix):
        for child in ast.iter_child_nodes(node):
            if isinstance(child, (ast.FunctionDef, ast.AsyncFunctionDef,
                                  ast.ClassDef)):
                q = (prefix + '.' if prefix else '') + child.name
                child._qual = q
                visit(child, q)
            else:
                child._qual = prefix
                visit(child, prefix)
    visit(tree, '')


def dump_code(fn):
    """ast.dump of a function without its docstrings (re-indenting a stored
    text changes the white space inside multi-line docstrings)."""
    saved = []
    for x in ast.walk(fn):
        # docstrings and bare string statements used as comments
        if isinstance(x, ast.Expr) and isinstance(
                x.value, ast.Constant) and isinstance(x.value.value, str):
            saved.append((x.value, x.value.value))
            x.value.value = ''
    try:
        return ast.dump(fn)
    finally:
        for c, v in saved:
            c.value = v


def qual(node):
    return getattr(node, '_qual', '') or '<module>'


def enclosing_function(node):
    n = getattr(node, '_parent', None)
    while n is not None and not isinstance(
            n, (ast.FunctionDef, ast.AsyncFunctionDef)):
        n = getattr(n, '_parent', None)
    return n


def enclosing_class(node):
    n = getattr(node, '_parent', None)
    while n is not None and not isinstance(n, ast.ClassDef):
        n = getattr(n, '_parent', None)
    return n


def src(node):
    try:
        return ast.unparse(node)
    except Exception:
        return '<%s>' % type(node).__name__


def dotted(node):
    """'a.b.c' for Name/Attribute chains, else None."""
    parts = []
    while isinstance(node, ast.Attribute):
        parts.append(node.attr)
        node = node.value
    if isinstance(node, ast.Name):
        parts.append(node.id)
        return '.'.join(reversed(parts))
    return None


class Repo(object):
    def __init__(self, root=None, canonical=True):
        self.root = root or REPO_ROOT
        self.pkgdir = os.path.join(self.root, PKG)
        if not os.path.isdir(self.pkgdir):
            raise AnalysisError('package directory %s missing' % self.pkgdir)
        self.mods = {}
        self.consulted = set()
        for dirpath, dirnames, filenames in os.walk(self.pkgdir):
            dirnames[:] = sorted(d for d in dirnames
                                 if d not in ('tests', '__pycache__', 'data'))
            for fn in sorted(filenames):
                if fn.endswith('.py'):
                    path = os.path.join(dirpath, fn)
                    rel = os.path.relpath(path, self.root)
                    self.mods[rel] = Module(rel, path)
        self.canonicalised = []
        for m in self.mods.values():
            m.tree._repo = self
        # in how many classes of the package is each method name defined
        # (a name defined once cannot be an override)
        from . import sym as _sym
        counts = {}
        for m in self.mods.values():
            for c in ast.walk(m.tree):
                if isinstance(c, ast.ClassDef):
                    for f in c.body:
                        if isinstance(f, ast.FunctionDef):
                            counts[f.name] = counts.get(f.name, 0) + 1
        _sym.METHOD_DEF_COUNT.clear()
        _sym.METHOD_DEF_COUNT.update(counts)
        if canonical and os.environ.get('PGSA_NO_CANONICAL') != '1':
            self._canonicalise()
        for m in self.mods.values():
            m.tree._repo = self

    def _canonicalise(self):
        """Analysis modulo normal-form equivalence: a function whose text
        differs from its reviewed text but which is the same function in
        strict normal form (refcmp.strict_equivalent) is analysed through
        its reviewed text -- the representative of its equivalence class.
        Rules that look at syntax (names of locals, statement shapes, counts
        of loops) are thereby insensitive to behaviour-preserving rewrites,
        while any rewrite that is not proved equivalent is analysed as
        written."""
        import textwrap
        from . import reviewed, refcmp
        store = reviewed.store()
        for rel in sorted(self.mods):
            m = self.mods[rel]
            subs = []
            cands = []
            for node in m.tree.body:
                if isinstance(node, ast.FunctionDef):
                    cands.append(node)
                elif isinstance(node, ast.ClassDef):
                    last = {}
                    for x in node.body:
                        if isinstance(x, ast.FunctionDef):
                            last[x.name] = x
                    cands.extend(last.values())
            for node in cands:
                ent = store.get('%s::%s' % (rel, node._qual))
                if ent is None:
                    continue
                try:
                    ref = ast.parse(textwrap.dedent(ent['source'])).body[0]
                except SyntaxError:
                    continue
                if not isinstance(ref, ast.FunctionDef):
                    continue
                # decorators are not part of the stored text
                ref.decorator_list = node.decorator_list
                if dump_code(ref) == dump_code(node):
                    continue
                if refcmp.strict_equivalent(node, ref):
                    subs.append((node, ent['source']))
            if not subs:
                continue
            lines = m.src.splitlines()
            for node, text in sorted(subs, key=lambda x: -x[0].lineno):
                new = textwrap.indent(textwrap.dedent(text).rstrip('\n'),
                                      ' ' * node.col_offset).splitlines()
                lines[node.lineno - 1:node.end_lineno] = new
                self.canonicalised.append('%s::%s' % (rel, node._qual))
            self.mods[rel] = Module(rel, m.path, text='\n'.join(lines) + '\n',
                                    sha=m.sha)

    # -- access with anchor checking ------------------------------------
    def mod(self, rel):
        if rel not in self.mods:
            raise AnalysisError('anchor module %s not found' % rel)
        self.consulted.add(rel)
        return self.mods[rel]

    def all_mods(self):
        for rel in sorted(self.mods):
            self.consulted.add(rel)
            yield self.mods[rel]

    def cls(self, rel, name):
        for node in self.mod(rel).tree.body:
            if isinstance(node, ast.ClassDef) and node.name == name:
                return node
        raise AnalysisError('anchor class %s not found in %s' % (name, rel))

    def has_func(self, rel, qualname):
        try:
            self.func(rel, qualname)
            return True
        except AnalysisError:
            return False

    def func(self, rel, qualname):
        """Function by qualified name ('f' or 'Cls.m'), *as finally bound*:
        a class-body alias `a = b` resolves to b's definition; of several
        definitions with one name the last wins (Python semantics)."""
        parts = qualname.split('.')
        body = self.mod(rel).tree.body
        node = None
        for i, part in enumerate(parts):
            found = None
            for stmt in body:
                if isinstance(stmt, (ast.FunctionDef, ast.ClassDef)) \
                        and stmt.name == part:
                    found = stmt
                elif isinstance(stmt, ast.Assign) and len(stmt.targets) == 1 \
                        and isinstance(stmt.targets[0], ast.Name) \
                        and stmt.targets[0].id == part \
                        and isinstance(stmt.value, ast.Name):
                    # alias: resolve to the definition visible so far
                    alias = stmt.value.id
                    for prev in body:
                        if prev is stmt:
                            break
                        if isinstance(prev, ast.FunctionDef) \
                                and prev.name == alias:
                            found = prev
            if found is None and isinstance(node, ast.ClassDef):
                found = self._inherited(rel, node, part)
            if found is None:
                raise AnalysisError('anchor %s not found in %s'
                                    % (qualname, rel))
            node = found
            body = getattr(found, 'body', [])
        if not isinstance(node, ast.FunctionDef):
            raise AnalysisError('anchor %s in %s is not a function'
                                % (qualname, rel))
        return node

    def _inherited(self, rel, cls, name):
        """A method that `cls` inherits from a helper base class of the same
        module which has no reviewed counterpart (introduced by a later
        refactoring): a copy of it that is read *as the method of cls*
        (`_ctx_cls`), so that self.CONST / self.helper() resolve in cls
        first.  None otherwise."""
        from . import reviewed
        store = reviewed.store()
        classes = dict((c.name, c) for c in self.mod(rel).tree.body
                       if isinstance(c, ast.ClassDef))
        cache = self.__dict__.setdefault('_inh_cache', {})
        ck = (rel, cls.name, name)
        if ck in cache:
            return cache[ck]
        cur, seen, res = cls, {cls.name}, None
        while res is None:
            nxt = None
            for b in cur.bases:
                if isinstance(b, ast.Name) and b.id in classes \
                        and b.id not in seen:
                    nxt = classes[b.id]
                    break
            if nxt is None:
                break
            seen.add(nxt.name)
            cur = nxt
            if any(k.startswith('%s::%s.' % (rel, cur.name)) for k in store):
                break       # a reviewed base class: inheritance as reviewed
            for f in cur.body:
                if isinstance(f, ast.FunctionDef) and f.name == name:
                    cp = ast.parse(ast.unparse(f)).body[0]
                    ast.increment_lineno(cp, f.lineno - 1)
                    for x in ast.walk(cp):
                        for ch in ast.iter_child_nodes(x):
                            ch._parent = x
                    cp._parent = f._parent
                    cp._rel = rel
                    cp._qual = '%s.%s' % (cls.name, name)
                    cp._ctx_cls = cls
                    res = cp
        cache[ck] = res
        return res

    def methods(self, rel, clsname):
        """name -> FunctionDef as finally bound in the class body."""
        c = self.cls(rel, clsname)
        out = {}
        # inherited from helper base classes introduced after the review
        from . import reviewed
        prefix = '%s::%s.' % (rel, clsname)
        for k in reviewed.store():
            if k.startswith(prefix) and '.' not in k[len(prefix):]:
                nm = k[len(prefix):]
                if not any(isinstance(x, ast.FunctionDef) and x.name == nm
                           for x in c.body):
                    inh = self._inherited(rel, c, nm)
                    if inh is not None:
                        out[nm] = inh
        for stmt in c.body:
            if isinstance(stmt, ast.FunctionDef):
                out[stmt.name] = stmt
            elif isinstance(stmt, ast.Assign) and len(stmt.targets) == 1 \
                    and isinstance(stmt.targets[0], ast.Name) \
                    and isinstance(stmt.value, ast.Name) \
                    and stmt.value.id in out:
                out[stmt.targets[0].id] = out[stmt.value.id]
        return out

    def module_assign(self, rel, name):
        """Value node of the last module-level `name = ...`."""
        val = None
        for stmt in self.mod(rel).tree.body:
            if isinstance(stmt, ast.Assign):
                for t in stmt.targets:
                    if isinstance(t, ast.Name) and t.id == name:
                        val = stmt.value
        if val is None:
            raise AnalysisError('anchor %s not assigned in %s' % (name, rel))
        return val

    def class_assign(self, rel, clsname, name):
        val = None
        for stmt in self.cls(rel, clsname).body:
            if isinstance(stmt, ast.Assign):
                for t in stmt.targets:
                    if isinstance(t, ast.Name) and t.id == name:
                        val = stmt.value
        if val is None:
            raise AnalysisError('anchor %s.%s not assigned in %s'
                                % (clsname, name, rel))
        return self.fold_text(rel, val, self.cls(rel, clsname))

    # -- constant text ------------------------------------------------------
    def _bound_once(self, rel, name, cls=None):
        """The value expression of a module-level (or class-level) name that
        is bound exactly once, by a plain assignment, and never declared
        global in a function; None otherwise."""
        tree = self.mod(rel).tree
        found = []
        scopes = [tree.body] + ([cls.body] if cls is not None else [])
        for body in scopes:
            for stmt in body:
                for node in ast.walk(stmt) if not isinstance(
                        stmt, (ast.FunctionDef, ast.ClassDef)) else [stmt]:
                    if isinstance(node, ast.Assign):
                        for t in node.targets:
                            if isinstance(t, ast.Name) and t.id == name:
                                found.append(node.value)
                    elif isinstance(node, (ast.AugAssign, ast.AnnAssign)):
                        t = node.target
                        if isinstance(t, ast.Name) and t.id == name:
                            found.append(None)
                    elif isinstance(node, (ast.FunctionDef, ast.ClassDef,
                                           ast.Import, ast.ImportFrom)):
                        names = ([node.name] if hasattr(node, 'name') else
                                 [(a.asname or a.name).split('.')[0]
                                  for a in node.names])
                        if name in names:
                            found.append(None)
        for node in ast.walk(tree):
            if isinstance(node, ast.Global) and name in node.names:
                return None
        if len(found) == 1 and found[0] is not None:
            return found[0]
        return None

    def _const_value(self, rel, node, cls, depth=0):
        """Python value of an expression built only from literals and names
        bound once to such expressions; raises ValueError otherwise."""
        if depth > 6:
            raise ValueError('too deep')
        if isinstance(node, ast.Constant):
            return node.value
        if isinstance(node, ast.Name):
            v = self._bound_once(rel, node.id, cls)
            if v is None:
                raise ValueError(node.id)
            return self._const_value(rel, v, cls, depth + 1)
        if isinstance(node, ast.Tuple):
            return tuple(self._const_value(rel, e, cls, depth + 1)
                         for e in node.elts)
        if isinstance(node, ast.Dict):
            if any(k is None for k in node.keys):
                raise ValueError('**')
            return dict((self._const_value(rel, k, cls, depth + 1),
                         self._const_value(rel, v, cls, depth + 1))
                        for k, v in zip(node.keys, node.values))
        if isinstance(node, ast.UnaryOp) and isinstance(node.op, ast.USub):
            v = self._const_value(rel, node.operand, cls, depth + 1)
            if isinstance(v, (int, float)) and not isinstance(v, bool):
                return -v
            raise ValueError('neg')
        if isinstance(node, ast.BinOp) and isinstance(node.op,
                                                      (ast.Add, ast.Mod)):
            a = self._const_value(rel, node.left, cls, depth + 1)
            b = self._const_value(rel, node.right, cls, depth + 1)
            if not isinstance(a, str):
                raise ValueError('not text')
            if isinstance(node.op, ast.Add):
                if not isinstance(b, str):
                    raise ValueError('not text')
                return a + b
            return a % b
        if isinstance(node, ast.JoinedStr):
            out = []
            for part in node.values:
                if isinstance(part, ast.Constant):
                    out.append(part.value)
                    continue
                v = self._const_value(rel, part.value, cls, depth + 1)
                spec = ''
                if part.format_spec is not None:
                    spec = self._const_value(rel, part.format_spec, cls,
                                             depth + 1)
                if part.conversion == ord('r'):
                    v = repr(v)
                elif part.conversion == ord('s'):
                    v = str(v)
                elif part.conversion == ord('a'):
                    v = ascii(v)
                out.append(format(v, spec))
            return ''.join(out)
        if (isinstance(node, ast.Call) and isinstance(node.func, ast.Attribute)
                and node.func.attr == 'format'):
            a = self._const_value(rel, node.func.value, cls, depth + 1)
            if not isinstance(a, str):
                raise ValueError('not text')
            if any(isinstance(x, ast.Starred) for x in node.args) or any(
                    k.arg is None for k in node.keywords):
                raise ValueError('*')
            args = [self._const_value(rel, x, cls, depth + 1)
                    for x in node.args]
            kw = dict((k.arg, self._const_value(rel, k.value, cls, depth + 1))
                      for k in node.keywords)
            return a.format(*args, **kw)
        raise ValueError(type(node).__name__)

    def fold_text(self, rel, node, cls=None):
        """A text assembled from literals (`'..' % {'k': CONST}`, `+`,
        `.format`, f-string over names bound once to literals) is the text: the
        string constant it evaluates to, at the position of the expression.
        Anything else is returned unchanged (the caller decides whether a
        non-constant anchor is an analysis error)."""
        if isinstance(node, ast.Constant) or not isinstance(
                node, (ast.BinOp, ast.JoinedStr, ast.Call, ast.Name)):
            return node
        try:
            v = self._const_value(rel, node, cls)
        except (ValueError, TypeError, KeyError, IndexError):
            return node
        if not isinstance(v, str):
            return node
        new = ast.copy_location(ast.Constant(value=v), node)
        for a in ('parent', 'rel'):
            if hasattr(node, a):
                setattr(new, a, getattr(node, a))
        return new

    def classes(self):
        for m in self.all_mods():
            for node in ast.walk(m.tree):
                if isinstance(node, ast.ClassDef):
                    yield m.rel, node

    def functions(self, rels=None):
        for m in (self.all_mods() if rels is None
                  else [self.mod(r) for r in rels]):
            for node in ast.walk(m.tree):
                if isinstance(node, ast.FunctionDef):
                    yield m.rel, node

    def digests(self):
        return dict((rel, self.mods[rel].sha) for rel in sorted(self.consulted))

    def excerpt(self, rel, node, ctx=0):
        m = self.mods[rel]
        lo = max(1, node.lineno - ctx)
        hi = min(len(m.lines), getattr(node, 'end_lineno', node.lineno) + ctx)
        return '\n'.join(m.lines[lo - 1:hi])


def literal(node):
    """ast.literal_eval that raises AnalysisError."""
    try:
        return ast.literal_eval(node)
    except Exception:
        raise AnalysisError('expected a literal, got %s' % src(node)[:80])

"""Thorough-tier sweeps: the same rule families run over the whole package.

Most of what they produce is *information* for a reader to triage (a
path-insensitive candidate is not a verdict); the few obligations they add
are named in each function."""
import ast
import re

from . import sym
from .effects import FuncEffects, describe
from .source import dotted, src

PY2_ONLY = {'__cmp__': '__eq__/__lt__', '__nonzero__': '__bool__',
            '__div__': '__truediv__', '__rdiv__': '__rtruediv__',
            '__unicode__': '__str__', '__getslice__': '__getitem__',
            '__neq__': '__ne__ (derived from __eq__ in Python 3)'}


def definite_assignment(chk, repo, rule='SWEEP.unbound'):
    """Every function of the package: locals read on some enumerated path
    before being bound.  Information only, except that the count of
    functions the summariser could model is recorded."""
    n = nmodel = 0
    cands = []
    for rel, fn in repo.functions():
        n += 1
        try:
            paths = sym.Summarizer(record_calls=False).summarize(fn)
        except sym.Unmodelled as exc:
            chk.info('unmodelled (%s): %s:%s' % (exc, rel, fn.name))
            continue
        except RecursionError:
            continue
        nmodel += 1
        names = set()
        for p in paths:
            for e in p.trace:
                if e[0] == 'unbound':
                    names.add('%s@%s' % (e[1], e[2]))
        if names:
            cands.append('%s:%s: %s' % (rel, fn.name, ', '.join(
                sorted(names)[:4])))
    chk.extra['functions_total'] = n
    chk.extra['functions_summarised'] = nmodel
    for c in cands[:40]:
        chk.info('possibly-unbound candidate: ' + c)
    chk.ob(rule, nmodel >= n * 0.9, None, None, key='summariser-coverage',
           qualname='<package>',
           what='the path summariser models at least 90%% of the package\'s '
                'functions (%d of %d)' % (nmodel, n))


def py2_dunders(chk, repo, rule='SWEEP.py2'):
    """Python-2-only special methods without a Python-3 counterpart in the
    same class are dead code (e.g. __cmp__)."""
    for rel, c in repo.classes():
        names = set(s.name for s in c.body if isinstance(s, ast.FunctionDef))
        names |= set(t.id for s in c.body if isinstance(s, ast.Assign)
                     for t in s.targets if isinstance(t, ast.Name))
        for old, new in PY2_ONLY.items():
            if old in names:
                first = new.split('/')[0].split(' ')[0]
                has = first in names
                chk.info('%s:%s defines %s (Python 2 only); Python 3 '
                         'counterpart %s %s' % (rel, c.name, old, new,
                                                'present' if has
                                                else 'ABSENT'))


PY2_ONLY_API = {('sys', 'exc_traceback'), ('sys', 'exc_type'),
                ('sys', 'exc_value'), ('sys', 'maxint'),
                ('string', 'letters'), ('string', 'maketrans'),
                ('os', 'getcwdu'), ('itertools', 'izip'),
                ('itertools', 'imap'), ('itertools', 'ifilter')}
PY2_ONLY_NAMES = {'unicode', 'basestring', 'xrange', 'raw_input', 'unichr',
                  'reduce', 'long', 'cmp', 'execfile', 'file'}


def class_ancestors(repo, known):
    """'<rel>::<Class>' -> ancestors in depth-first, left-to-right order of
    the bases (names as written for classes outside the package).  With
    `known` (the reviewed table) private helper classes that the table does
    not know (`_Base` introduced by a refactoring) are looked through."""
    classes = {}
    for m in repo.all_mods():
        for c in m.tree.body:
            if isinstance(c, ast.ClassDef):
                classes.setdefault(c.name, (m.rel, c))
    known_names = None if known is None else set(
        k.split('::')[1] for k in known)

    def walk(c, out, seen):
        for b in c.bases:
            name = ast.unparse(b)
            tgt = classes.get(name)
            hidden = known_names is not None and name.startswith('_') \
                and name not in known_names and tgt is not None
            if not hidden and name not in out:
                out.append(name)
            if tgt is not None and name not in seen:
                seen.add(name)
                walk(tgt[1], out, seen)
    res = {}
    for name, (rel, c) in classes.items():
        out = []
        walk(c, out, set())
        res['%s::%s' % (rel, name)] = out
    return res


def import_closure(repo, prefixes):
    """Modules of the package reachable through import statements from the
    modules under `prefixes` (relative and absolute `pgradd...` imports,
    `from .. import name` where name is a module or sub-package, `import
    pgradd.x.y`; an imported package contributes its __init__ and, through
    it, what that imports)."""
    import posixpath
    rels = set(m.rel for m in repo.all_mods())

    def as_modules(dotted_path):
        out = []
        base = dotted_path.replace('.', '/')
        if base + '.py' in rels:
            out.append(base + '.py')
        if base + '/__init__.py' in rels:
            out.append(base + '/__init__.py')
        return out
    scope = set(r for r in rels if any(r.startswith(p) for p in prefixes))
    work = list(scope)
    while work:
        rel = work.pop()
        tree = repo.mod(rel).tree
        pkg = posixpath.dirname(rel).replace('/', '.')
        for node in ast.walk(tree):
            targets = []
            if isinstance(node, ast.ImportFrom):
                if node.level:
                    parts = pkg.split('.')
                    parts = parts[:len(parts) - (node.level - 1)]
                    base = '.'.join(parts + ([node.module]
                                             if node.module else []))
                else:
                    base = node.module or ''
                targets.append(base)
                for a in node.names:
                    targets.append(base + '.' + a.name)
            elif isinstance(node, ast.Import):
                for a in node.names:
                    targets.append(a.name)
            for t in targets:
                for r in as_modules(t):
                    if r not in scope:
                        scope.add(r)
                        work.append(r)
    return scope


#: properties whose code is a self-contained part of the package: the
#: binding precondition R00.1 is evaluated on the import closure of these
#: directories only (a decorator added to a thermochemistry method cannot
#: change what the RING reader or the units algebra compute).  Every other
#: property is evaluated on the whole package.
BINDING_SCOPE = {
    'C08': ('pgradd/RINGParser/', 'pgradd/RDkitWrapper/'),
    'C09': ('pgradd/RINGParser/', 'pgradd/RDkitWrapper/'),
    'C16': ('pgradd/RINGParser/', 'pgradd/RDkitWrapper/'),
    'C17': ('pgradd/RINGParser/', 'pgradd/RDkitWrapper/'),
    'C10': ('pgradd/Units/',),
    'C11': ('pgradd/Units/',),
}


def static_binding(chk, repo, rule='R00.1', scope=None):
    if scope is not None:
        scope = import_closure(repo, scope)
        chk.extra['binding_scope'] = sorted(scope)
        if len(scope) < 5:
            from .source import AnalysisError
            raise AnalysisError('binding scope has %d modules' % len(scope))
    _static_binding(chk, repo, rule, scope)


class _Scoped(object):
    """The repository restricted to the modules of a scope."""
    def __init__(self, repo, scope):
        self._repo, self._scope = repo, scope

    def all_mods(self):
        for m in self._repo.all_mods():
            if self._scope is None or m.rel in self._scope:
                yield m

    def __getattr__(self, name):
        return getattr(self._repo, name)


def _static_binding(chk, full_repo, rule, scope):
    repo = _Scoped(full_repo, scope)
    in_scope = (lambda rel: True) if scope is None else (
        lambda rel: rel in scope)
    wide = scope is None
    """Precondition of every rule: the functions that were analysed are the
    ones that run.  A method is what the class body binds last under its
    name; nothing outside a class body may attach or replace an attribute of
    a package class (`setattr(Class, name, f)`, `Class.name = f`), and no
    module may rebind a function it defines.  One obligation per module."""
    classes = set()
    for m in repo.all_mods():
        for c in ast.walk(m.tree):
            if isinstance(c, ast.ClassDef):
                classes.add(c.name)
    n = 0
    for m in repo.all_mods():
        n += 1
        bad = []
        funcs = set(f.name for f in m.tree.body
                    if isinstance(f, ast.FunctionDef))
        for node in ast.walk(m.tree):
            # inside a class body `name = ...` is the binding itself
            if isinstance(node, ast.Call) and isinstance(
                    node.func, ast.Name) and node.func.id == 'setattr' \
                    and node.args and isinstance(node.args[0], ast.Name) \
                    and node.args[0].id in classes:
                bad.append('setattr(%s, ...) at line %d'
                           % (node.args[0].id, node.lineno))
            if isinstance(node, (ast.Assign, ast.AugAssign)):
                tgts = node.targets if isinstance(node, ast.Assign) \
                    else [node.target]
                for t in tgts:
                    if isinstance(t, ast.Attribute) and isinstance(
                            t.value, ast.Name) and t.value.id in classes \
                            and isinstance(t.ctx, ast.Store):
                        bad.append('%s.%s = ... at line %d'
                                   % (t.value.id, t.attr, node.lineno))
        for stmt in m.tree.body:
            if isinstance(stmt, ast.Assign):
                for t in stmt.targets:
                    if isinstance(t, ast.Name) and t.id in funcs:
                        bad.append('%s rebound at line %d'
                                   % (t.id, stmt.lineno))
        chk.ob(rule, not bad, m.rel, m.tree.body[0] if m.tree.body else None,
               key='static-binding', qualname='<module>',
               what='no attribute of a package class is attached or replaced '
                    'from outside its class body, and no module-level '
                    'function is rebound (the analysed functions are the '
                    'ones that run)', found='; '.join(bad))
    chk.need(rule, n, 20 if wide else 5, 'modules')
    # how a reviewed function is bound (classmethod / staticmethod /
    # property / plain) is part of what was reviewed
    import json
    import os
    from . import reviewed
    from .source import qual
    path = os.path.join(os.path.dirname(reviewed.STORE), 'decorators.json')
    if not os.path.exists(path):
        from .source import AnalysisError
        raise AnalysisError('reviewed/decorators.json missing')
    want = json.load(open(path))
    store = reviewed.store()
    nfun = 0
    for m in repo.all_mods():
        seen = {}
        for node in ast.walk(m.tree):
            if isinstance(node, ast.FunctionDef):
                seen[qual(node)] = node
        for q, node in sorted(seen.items()):
            k = '%s::%s' % (m.rel, q)
            if k not in store:
                continue
            nfun += 1
            have = [ast.unparse(d) for d in node.decorator_list]
            if have != want.get(k, []):
                chk.ob(rule, False, m.rel, node, key='decorators:' + q,
                       what='%s is bound as reviewed (decorators)' % q,
                       found=str(have), required=str(want.get(k, [])))
    chk.ob(rule, True, None, None, key='decorators-checked',
           qualname='<package>',
           what='decorator lists of %d reviewed functions compared with '
                'reviewed/decorators.json' % nfun)
    chk.need(rule, nfun, 300 if wide else 40, 'reviewed functions present')
    # a reviewed method that its class no longer defines itself but inherits
    # from a helper base class introduced later (same module, no reviewed
    # counterpart): compared with its reviewed text *as the method of that
    # subclass* (self.CONST and self.helper() resolve in the subclass first)
    moved = 0
    for m in repo.all_mods():
        classes = dict((c.name, c) for c in m.tree.body
                       if isinstance(c, ast.ClassDef))
        for k in sorted(store):
            rel, q = k.split('::')
            if rel != m.rel or '.' not in q:
                continue
            cname, mname = q.split('.', 1)
            c = classes.get(cname)
            if c is None or '.' in mname:
                continue
            if any(isinstance(f, ast.FunctionDef) and f.name == mname
                   or (isinstance(f, ast.Assign) and any(
                       isinstance(t, ast.Name) and t.id == mname
                       for t in f.targets)) for f in c.body):
                continue
            # inherited now: find it in the module-local ancestors
            found, seen, cur = None, {cname}, c
            while found is None:
                nxt = None
                for b in cur.bases:
                    if isinstance(b, ast.Name) and b.id in classes \
                            and b.id not in seen:
                        nxt = classes[b.id]
                        break
                if nxt is None:
                    break
                seen.add(nxt.name)
                cur = nxt
                for f in cur.body:
                    if isinstance(f, ast.FunctionDef) and f.name == mname:
                        found = f
            moved += 1
            if found is None:
                chk.ob(rule, False, rel, c, key='moved-method:' + q,
                       qualname=q,
                       what='%s, a reviewed method, is still defined by its '
                            'class or a base class of the module' % q)
                continue
            found._ctx_cls = c
            try:
                ok, oa, ob = reviewed.compare(found, rel, q)
            finally:
                found._ctx_cls = None
            chk.ob(rule, ok, rel, found, key='moved-method:' + q, qualname=q,
                   what='%s, now inherited from %s, is the reviewed method '
                        'when read for %s' % (q, cur.name, cname),
                   found=' || '.join(oa)[:600] if oa else None,
                   required=' || '.join(ob)[:600] if ob else None)
    chk.extra['reviewed_methods_now_inherited'] = moved
    # class hierarchy (which inherited methods an object has)
    cpath = os.path.join(os.path.dirname(reviewed.STORE), 'classes.json')
    if not os.path.exists(cpath):
        from .source import AnalysisError
        raise AnalysisError('reviewed/classes.json missing')
    cwant = json.load(open(cpath))
    chave = class_ancestors(repo, known=cwant)
    ncls = 0
    for k, anc in sorted(cwant.items()):
        if k not in chave:
            continue        # a vanished class is an anchor error elsewhere
        if not in_scope(k.split('::')[0]):
            continue
        ncls += 1
        if chave[k] != anc:
            rel, cname = k.split('::')
            chk.ob(rule, False, rel, repo.cls(rel, cname),
                   key='ancestors:' + cname, qualname=cname,
                   what='%s has the reviewed ancestors, in the reviewed '
                        'order' % cname, found=str(chave[k]),
                   required=str(anc))
    chk.ob(rule, True, None, None, key='ancestors-checked',
           qualname='<package>',
           what='ancestor lists of %d classes compared with '
                'reviewed/classes.json' % ncls)
    chk.need(rule, ncls, 80 if wide else 8, 'reviewed classes present')


def py2_api(chk, repo, rule='SWEEP.py2api'):
    """Names that exist only in Python 2 (`from sys import exc_traceback`
    raises ImportError when the line runs, typically inside an error
    path).  Information only."""
    for m in repo.all_mods():
        bound = set()
        for node in ast.walk(m.tree):
            if isinstance(node, ast.Name) and isinstance(node.ctx,
                                                         ast.Store):
                bound.add(node.id)
            elif isinstance(node, (ast.FunctionDef, ast.ClassDef)):
                bound.add(node.name)
            elif isinstance(node, ast.arg):
                bound.add(node.arg)
            elif isinstance(node, (ast.Import, ast.ImportFrom)):
                for a in node.names:
                    bound.add((a.asname or a.name).split('.')[0])
        for node in ast.walk(m.tree):
            if isinstance(node, ast.ImportFrom):
                for a in node.names:
                    if (node.module, a.name) in PY2_ONLY_API:
                        chk.info('%s:%d `from %s import %s` is Python 2 only '
                                 '(ImportError when reached)' % (
                                     m.rel, node.lineno, node.module, a.name))
            elif isinstance(node, ast.Attribute) and isinstance(
                    node.value, ast.Name) and (node.value.id,
                                               node.attr) in PY2_ONLY_API:
                chk.info('%s:%d %s.%s is Python 2 only' % (
                    m.rel, node.lineno, node.value.id, node.attr))
            elif isinstance(node, ast.Name) and isinstance(
                    node.ctx, ast.Load) and node.id in PY2_ONLY_NAMES \
                    and node.id not in bound:
                chk.info('%s:%d name %s is Python 2 only (NameError when '
                         'reached)' % (m.rel, node.lineno, node.id))


def format_arity(chk, repo, rule='SWEEP.format'):
    """`'...%s...' % (a, b)`: number of conversions equals number of
    operands (a mismatch raises TypeError when the line runs)."""
    n = 0
    bad = []
    for m in repo.all_mods():
        for node in ast.walk(m.tree):
            if isinstance(node, ast.BinOp) and isinstance(node.op, ast.Mod) \
                    and isinstance(node.left, ast.Constant) \
                    and isinstance(node.left.value, str):
                specs = re.findall(
                    r'%(?:\([^)]*\))?[-#0 +]*(?:\d+|\*)?(?:\.(?:\d+|\*))?'
                    r'([a-zA-Z%])', node.left.value)
                k = len([s for s in specs if s != '%'])
                if '%(' in node.left.value:
                    continue
                if isinstance(node.right, ast.Tuple):
                    n += 1
                    if len(node.right.elts) != k:
                        bad.append('%s:%d %d conversions, %d operands' % (
                            m.rel, node.lineno, k, len(node.right.elts)))
                elif k > 1 and not isinstance(node.right, (ast.Name,
                                                           ast.Call,
                                                           ast.Attribute)):
                    n += 1
                    bad.append('%s:%d %d conversions, 1 operand' % (
                        m.rel, node.lineno, k))
    chk.extra['format_expressions'] = n
    for b in bad:
        chk.info('format arity mismatch: ' + b)


def purity_inventory(chk, repo):
    """Every function of the package with the persistent state it can
    write (information)."""
    rows = []
    for rel, fn in repo.functions():
        muts = FuncEffects(fn).persistent_mutations()
        kinds = set()
        for m in muts:
            for r in m[3]:
                kinds.add(r.split(':')[0])
        if kinds - {'param', 'elem', 'enclosing'}:
            rows.append('%s:%s writes %s' % (rel, fn.name, sorted(kinds)))
    chk.extra['functions_writing_persistent_state'] = len(rows)
    for r in rows[:60]:
        chk.info('effect: ' + r)


def data_shapes_covered(chk, repo, grammar, interp, rule):
    """Every (rule, child sequence) occurring in the syntax trees of the
    shipped patterns was one of the shapes the reader interpretation
    analysed."""
    from .grammar_ir import Recognizer, Fail
    from .datafiles import libraries
    from . import shapes as S
    rec = Recognizer(grammar)
    analysed = {}
    for (cname, mname, r, shape) in interp.analysed:
        analysed.setdefault(r, set()).add(shape)
    lit_rules = {}
    seen = set()
    missing = set()
    guarded = set()
    ntrees = 0

    def shape_of(node):
        rule_ = node[0]
        g = grammar.rules.get(rule_)
        out = []
        # which children come from Literals (concrete) vs String (abstract)
        cands = S.literal_shapes(grammar, rule_)
        kids = []
        for c in node[1:]:
            if isinstance(c, list):
                kids.append(('node', c[0]))
            elif isinstance(c, int):
                kids.append(('int',))
            else:
                kids.append(('str', c))
        # match against an enumerated shape: literal positions must agree,
        # string positions are abstract
        for cand in cands:
            if len(cand) != len(kids):
                continue
            ok = True
            for a, b in zip(cand, kids):
                if a[0] != b[0]:
                    ok = False
                elif a[0] == 'node' and a[1] != b[1]:
                    ok = False
                elif a[0] == 'str' and a[1] is not None and a[1] != b[1]:
                    ok = False
                if not ok:
                    break
            if ok:
                return cand
        return None

    def walk(node):
        sh = shape_of(node)
        key = (node[0], sh)
        if key not in seen:
            seen.add(key)
            # a shape the enumeration cannot produce was never analysed;
            # a shape excluded by a caller's guard (e.g. the empty Prefix)
            # legitimately never reaches the reader
            if sh is None:
                missing.add('%s %s' % (node[0], node[1:3]))
            elif node[0] in analysed and sh not in analysed[node[0]]:
                guarded.add('%s %s' % (node[0], S.show_shape(sh)))
        for c in node[1:]:
            if isinstance(c, list):
                walk(c)
    for lib in libraries(repo.root):
        for sec, i, name, text in lib.patterns():
            try:
                tree, j = rec.parse(text)
            except Fail:
                continue
            ntrees += 1
            walk(tree)
    chk.extra['data_trees'] = ntrees
    chk.extra['distinct_data_shapes'] = len(seen)
    chk.info('data shapes that never reach their reader because of a '
             'caller guard: %s' % sorted(guarded))
    chk.ob(rule, not missing and ntrees >= 700, None, None,
           key='data-shapes-covered', qualname='<data>',
           what='every (rule, child sequence) in the %d shipped pattern '
                'trees (%d distinct) is among the shapes the reader '
                'interpretation analysed' % (ntrees, len(seen)),
           found='; '.join(sorted(missing)[:6]))


def override_compat(chk, repo, rule, rels=None, minimum=1):
    """Sibling agreement on signatures: when a method of class C calls
    `self.m(a, b, kw=c)`, every class derived from C (C included) must bind
    `m` to a definition that accepts those positional arguments and keyword
    names -- otherwise the inherited method raises TypeError on instances of
    that subclass.  Classes are resolved by name across the package."""
    classes = {}
    for rel, c in repo.classes():
        classes.setdefault(c.name, (rel, c))

    def bases_of(c):
        out = []
        for b in c.bases:
            n = b.attr if isinstance(b, ast.Attribute) else (
                b.id if isinstance(b, ast.Name) else None)
            if n in classes:
                out.append(classes[n][1])
        return out

    def mro(c, seen=None):
        seen = seen or []
        if c in seen:
            return []
        out = [c]
        for b in bases_of(c):
            for x in mro(b, seen + [c]):
                if x not in out:
                    out.append(x)
        return out

    def binding(c, name):
        for k in mro(c):
            found = None
            for s in k.body:
                if isinstance(s, ast.FunctionDef) and s.name == name:
                    found = s
            if found is not None:
                return k, found
        return None, None

    def accepts(f, npos, kwnames, bound=True):
        a = f.args
        decos = [src(d) for d in f.decorator_list]
        names = [x.arg for x in getattr(a, 'posonlyargs', []) + a.args]
        if bound and 'staticmethod' not in decos and names:
            names = names[1:]
        if npos > len(names) and a.vararg is None:
            return 'takes %d positional argument(s), %d given' % (
                len(names), npos)
        kwonly = [x.arg for x in a.kwonlyargs]
        for k in kwnames:
            if k not in names and k not in kwonly and a.kwarg is None:
                return 'has no parameter %r' % k
            if k in names[:npos]:
                return 'gets %r twice' % k
        ndef = len(a.defaults)
        required = names[:len(names) - ndef] if ndef else list(names)
        missing = [n for n in required[npos:] if n not in kwnames]
        if missing:
            return 'misses required %s' % missing
        return None

    n = 0
    for cname, (rel, c) in sorted(classes.items()):
        if rels is not None and rel not in rels:
            continue
        derived = [d for dn, (dr, d) in classes.items() if c in mro(d)]
        for m in c.body:
            if not isinstance(m, ast.FunctionDef):
                continue
            for call in ast.walk(m):
                if not (isinstance(call, ast.Call) and isinstance(
                        call.func, ast.Attribute) and isinstance(
                        call.func.value, ast.Name)
                        and call.func.value.id == 'self'):
                    continue
                if any(isinstance(x, ast.Starred) for x in call.args) or any(
                        kw.arg is None for kw in call.keywords):
                    continue
                name = call.func.attr
                npos = len(call.args)
                kwn = [kw.arg for kw in call.keywords]
                for d in derived:
                    owner, f = binding(d, name)
                    if f is None:
                        continue
                    n += 1
                    why = accepts(f, npos, kwn)
                    chk.ob(rule, why is None, rel, m,
                           key='override-accepts:%s.%s->%s.%s(%s)' % (
                               cname, m.name, d.name, name, ','.join(
                                   [str(npos)] + kwn)),
                           qualname='%s.%s' % (cname, m.name),
                           what='%s.%s calls self.%s(%s) and %s binds %s to '
                                '%s.%s, which must accept that call' % (
                                    cname, m.name, name, ', '.join(
                                        ['_'] * npos + [k + '=' for k in
                                                        kwn]),
                                    d.name, name, owner.name, name),
                           found=why)
    chk.need(rule, n, minimum, 'self-calls resolved against overrides')


def reviewed_audit(chk, repo, rule='SWEEP.reviewed'):
    """Every function of the package against its reviewed text (decision
    tables over path summaries): how many are textually the same, how many
    were proved the same function and analysed through the reviewed text,
    which differ, which are new.  Information only."""
    import textwrap
    from . import reviewed
    store = reviewed.store()
    n = same = equiv = 0
    differ, new, unmod = [], [], []
    seen = set()
    for rel, fn in repo.functions():
        q = getattr(fn, '_qual', fn.name)
        k = '%s::%s' % (rel, q)
        if k in seen:
            continue
        seen.add(k)
        n += 1
        ent = store.get(k)
        if ent is None:
            new.append(k)
            continue
        try:
            ref = ast.parse(textwrap.dedent(ent['source'])).body[0]
            ref.decorator_list = fn.decorator_list
            from .source import dump_code
            if dump_code(ref) == dump_code(fn):
                same += 1
                continue
            ok, oa, ob = reviewed.compare(fn, rel, q)
        except Exception as exc:        # Unmodelled and the like
            unmod.append('%s (%s)' % (k, type(exc).__name__))
            continue
        if ok:
            equiv += 1
        else:
            differ.append(k)
    gone = sorted(k for k in store if k not in seen)
    chk.extra['reviewed_audit'] = {
        'functions': n, 'textually_as_reviewed': same,
        'equivalent_in_normal_form': equiv,
        'analysed_through_reviewed_text': len(getattr(repo, 'canonicalised',
                                                       [])),
        'different': differ[:40], 'new': new[:40], 'gone': gone[:40],
        'not_compared': unmod[:20]}
    chk.info('reviewed audit: %d functions, %d as reviewed, %d equivalent, '
             '%d different, %d new, %d gone' % (n, same, equiv, len(differ),
                                                len(new), len(gone)))

"""Semantic references (normal-form compared) for the RING parser
combinators, the parse state and the syntax-error merge."""

PARSER = 'pgradd/RINGParser/Parser.py'
ERROR = 'pgradd/Error.py'

COMBINATORS = {
    'EOS.__call__': """
def f(self, stream, output):
    if stream.peek() != '':
        stream.error('x')
""",
    'Digit.__init__': "def f(self, n=1):\n    self.n = n\n",
    'Digit.__call__': """
def f(self, stream, output):
    out = ''
    for i in range(self.n):
        c = stream.peek()
        if not c.isdecimal():
            stream.error('x')
        out += stream.take()
    output.append(int(out))
""",
    'Number.__call__': """
def f(self, stream, output):
    out = stream.peek()
    if not out.isdecimal():
        stream.error('x')
    stream.take()
    while stream.peek().isdecimal():
        out += stream.take()
    output.append(int(out))
""",
    'String.__call__': """
def f(self, stream, output):
    if not (stream.peek().isalpha() or stream.peek().isdigit()
            or stream.peek() in string_okay):
        stream.error('x')
    nn = 2
    while (stream.peek(nn)[nn-1:nn].isalpha()
           or stream.peek(nn)[nn-1:nn].isdigit()
           or stream.peek(nn)[nn-1:nn] in string_okay):
        nn += 1
    out = stream.take(n=nn-1)
    output.append(out)
""",
    'Literal.__init__': "def f(self, tok, no_error=False):\n"
                        "    self.tok = tok\n    self.no_error = no_error\n",
    'Literal.__call__': """
def f(self, stream, output):
    if stream.peek(len(self.tok)) != self.tok:
        if self.no_error:
            stream.error(None)
        else:
            stream.error('%r' % self.tok)
    else:
        stream.take(len(self.tok))
        output.append(self.tok)
""",
    'Filler.__init__': "def f(self, tok, no_error=False):\n"
                       "    self.tok = tok\n    self.no_error = no_error\n",
    'Filler.__call__': """
def f(self, stream, output):
    if stream.peek(len(self.tok)) != self.tok:
        if self.no_error:
            stream.error(None)
        else:
            stream.error('%r' % self.tok)
    else:
        stream.take(len(self.tok))
""",
    'Optional.__init__': "def f(self, opt):\n    self.opt = opt\n",
    'Optional.__call__': """
def f(self, stream, output):
    with stream:
        stream.parse(self.opt, output)
""",
    'All.__init__': "def f(self, *reqs):\n    self.reqs = reqs\n",
    'All.__call__': """
def f(self, stream, output):
    for req in self.reqs:
        stream.parse(req, output)
""",
    'Either.__init__': "def f(self, *alts):\n    self.alts = alts\n",
    'Either.__call__': """
def f(self, stream, output):
    for alt in self.alts:
        with stream:
            stream.parse(alt, output)
            return
    raise stream.current_error
""",
    'ZeroOrMore.__call__': """
def f(self, stream, output):
    with stream:
        stream.parse(self.what, output)
    while not stream.has_error:
        with stream:
            stream.parse(self.what, output)
""",
    'Literals.__init__': """
def f(self, literal_strings):
    sorted_strings = sorted(literal_strings, key=lambda s: len(s),
                            reverse=True)
    Either.__init__(self, *(Literal(s, no_error=True)
                            for s in sorted_strings))
""",
    'Literals.__call__': """
def f(self, stream, output):
    try:
        return Either.__call__(self, stream, output)
    except RINGSyntaxError:
        if hasattr(self, 'name'):
            stream.error('<' + self.name + '>')
        else:
            raise
""",
    'Parser.set_name': "def f(self, name):\n    self.name = name\n",
    'RINGToken.__init__': "def f(self, name):\n    self.name = name\n",
    'RINGToken.__eq__': """
def f(self, other):
    if isinstance(other, RINGToken):
        return eq(self.name, other.name)
    else:
        return eq(self.name, other)
""",
    'RINGToken.__ne__': "def f(self, other):\n    return not self == other\n",
    'RINGToken.__hash__': "def f(self):\n    return hash(self.name)\n",
}

PARSESTATE = {
    '__init__': """
def f(self, grammar, stream, debug=False):
    self.root, self.rules = grammar
    self.stream = stream
    self.debug = debug
    self.stack = []
    self.has_error = False
    self.current_error = None
    self.sidx = 0
    self.lineno = 1
    self.colno = 1
    self.skip_filler()
    if self.debug:
        self.depth = 0
""",
    'error': """
def f(self, mesg):
    raise RINGSyntaxError(mesg, self.lineno, self.colno, self.stream)
""",
    'peek': """
def f(self, n=1):
    return self.stream[self.sidx:self.sidx + n]
""",
    'take': """
def f(self, n=1):
    s = self.stream[self.sidx:self.sidx + n]
    for chr in s:
        if chr == '\\n':
            self.lineno += 1
            self.colno = 1
        else:
            self.colno += 1
    self.sidx += n
    self.skip_filler()
    return s
""",
    'skip_filler': """
def f(self):
    while self.peek() in filler:
        if self.peek() == '\\n':
            self.lineno += 1
            self.colno = 1
            self.sidx += 1
        else:
            self.colno += 1
            self.sidx += 1
""",
    '__enter__': """
def f(self):
    self.stack.append((self.sidx, self.lineno, self.colno))
    return self
""",
    '__exit__': """
def f(self, exc_type, exc_value, traceback):
    if exc_type is not None:
        (self.sidx, self.lineno, self.colno) = self.stack.pop()
        if exc_type is RINGSyntaxError:
            if self.current_error is not None:
                exc_value.update(self.current_error)
            self.current_error = exc_value
            self.has_error = True
            return True
    else:
        self.stack.pop()
        self.has_error = False
    return False
""",
    'parse': """
def f(self, what=None, output=None):
    if what is None:
        output = []
        self.parse(self.root, output)
        return output[0]
    if isinstance(what, Parser):
        inside_output = output[:]
        what(self, inside_output)
        output[:] = inside_output
    elif isinstance(what, str):
        inside_output = [RINGToken(what)]
        if self.debug:
            print('x')
            self.depth += 1
        try:
            self.parse(self.rules[what], inside_output)
        except RINGSyntaxError as exc:
            if self.debug:
                print('x')
            raise
        else:
            output.append(inside_output)
            if self.debug:
                print('x')
        finally:
            if self.debug:
                self.depth -= 1
                print('x')
    else:
        raise TypeError('x')
""",
}

MODULE_PARSE = """
def f(stream, strict=False):
    if strict:
        from .Grammar import strict_grammar as grammar
    else:
        from .Grammar import enhanced_grammar as grammar
    return ParseState(grammar, stream).parse()
"""

SYNTAX_ERROR = {
    '__init__': """
def f(self, tok, lineno, colno, stream):
    self.toks = set([tok])
    self.lineno = lineno
    self.colno = colno
    self.stream = stream
""",
    'update': """
def f(self, other):
    if (self.lineno < other.lineno or
            (self.lineno == other.lineno and self.colno < other.colno)):
        self.lineno = other.lineno
        self.colno = other.colno
        self.toks = other.toks.copy()
    elif (self.lineno == other.lineno and self.colno == other.colno):
        self.toks |= other.toks
""",
}

READER = {
    'Reader.__init__': "def f(self, ast):\n    self.ast = ast\n",
    'Reader.Read': """
def f(self):
    assert self.ast[0].name == "RINGInput"
    return self.ReadRINGInput(self.ast[1:])
""",
    'Read': """
def f(text, strict=False):
    from . import Parser
    try:
        return Reader(Parser.parse(text)).Read()
    except RINGError as exc:
        raise exc
""",
}

"""RING grammar lifted from the AST of RINGParser/Grammar.py (read, never
imported) into a small IR, plus the analyses the rules need.

IR nodes (tuples):
  ('ref', name) ('all', [n..]) ('either', [n..]) ('opt', n) ('star', n)
  ('lits', [str..]) ('lit', str) ('filler', str) ('string',) ('digit', k)
  ('number',) ('eos',)
"""
import ast

from .source import AnalysisError, src

GRAMMAR = 'pgradd/RINGParser/Grammar.py'


def _node(n):
    if isinstance(n, ast.Constant) and isinstance(n.value, str):
        return ('ref', n.value)
    if isinstance(n, ast.Call) and isinstance(n.func, ast.Name):
        f = n.func.id
        if f == 'All':
            return ('all', [_node(a) for a in n.args])
        if f == 'Either':
            return ('either', [_node(a) for a in n.args])
        if f == 'Optional' and len(n.args) == 1:
            return ('opt', _node(n.args[0]))
        if f == 'ZeroOrMore' and len(n.args) == 1:
            return ('star', _node(n.args[0]))
        if f == 'Literals' and len(n.args) == 1:
            try:
                lits = ast.literal_eval(n.args[0])
            except Exception:
                raise AnalysisError('Literals(...) argument is not a '
                                    'literal list: %s' % src(n))
            return ('lits', list(lits))
        if f in ('Literal', 'DeprecatedLiteral') and n.args:
            return ('lit', ast.literal_eval(n.args[0]))
        if f == 'Filler' and n.args:
            return ('filler', ast.literal_eval(n.args[0]))
        if f == 'String':
            return ('string',)
        if f == 'Digit':
            k = ast.literal_eval(n.args[0]) if n.args else 1
            return ('digit', k)
        if f == 'Number':
            return ('number',)
        if f == 'EOS':
            return ('eos',)
    raise AnalysisError('grammar item outside the combinator vocabulary: %s'
                        % src(n)[:80])


class Grammar(object):
    def __init__(self, root, rules, lines):
        self.root = root
        self.rules = rules
        self.lines = lines      # rule -> lineno

    # -- analyses -------------------------------------------------------
    def refs(self, node=None, acc=None):
        if acc is None:
            acc = set()
            for r in self.rules.values():
                self.refs(r, acc)
            acc.add(self.root)
            return acc
        t = node[0]
        if t == 'ref':
            acc.add(node[1])
        elif t in ('all', 'either'):
            for c in node[1]:
                self.refs(c, acc)
        elif t in ('opt', 'star'):
            self.refs(node[1], acc)
        return acc

    def undefined(self):
        return sorted(self.refs() - set(self.rules))

    def reachable(self):
        seen = set()
        todo = [self.root]
        while todo:
            r = todo.pop()
            if r in seen or r not in self.rules:
                continue
            seen.add(r)
            acc = set()
            self.refs(self.rules[r], acc)
            todo.extend(acc)
        return seen

    def nullable(self):
        nul = set()

        def is_null(n):
            t = n[0]
            if t == 'ref':
                return n[1] in nul
            if t == 'all':
                return all(is_null(c) for c in n[1])
            if t == 'either':
                return any(is_null(c) for c in n[1])
            if t in ('opt', 'star', 'eos'):
                return True
            if t == 'lits':
                return any(s == '' for s in n[1])
            if t in ('lit', 'filler'):
                return n[1] == ''
            return False
        changed = True
        while changed:
            changed = False
            for name, r in self.rules.items():
                if name not in nul and is_null(r):
                    nul.add(name)
                    changed = True
        self._is_null = is_null
        return nul

    def first_calls(self):
        """rule -> set of rules that can be entered before the rule has
        consumed a character."""
        self.nullable()
        is_null = self._is_null
        out = {}

        def firsts(n, acc):
            t = n[0]
            if t == 'ref':
                acc.add(n[1])
            elif t == 'all':
                for c in n[1]:
                    firsts(c, acc)
                    if not is_null(c):
                        break
            elif t == 'either':
                for c in n[1]:
                    firsts(c, acc)
            elif t in ('opt', 'star'):
                firsts(n[1], acc)
        for name, r in self.rules.items():
            acc = set()
            firsts(r, acc)
            out[name] = acc
        return out

    def left_recursive(self):
        fc = self.first_calls()
        bad = []
        for start in fc:
            seen = set()
            todo = list(fc[start])
            while todo:
                x = todo.pop()
                if x == start:
                    bad.append(start)
                    break
                if x in seen:
                    continue
                seen.add(x)
                todo.extend(fc.get(x, ()))
        return sorted(bad)

    def star_over_nullable(self):
        self.nullable()
        bad = []

        def walk(name, n):
            if n[0] == 'star' and self._is_null(n[1]):
                bad.append(name)
            if n[0] in ('all', 'either'):
                for c in n[1]:
                    walk(name, c)
            elif n[0] in ('opt', 'star'):
                walk(name, n[1])
        for name, r in self.rules.items():
            walk(name, r)
        return sorted(set(bad))

    def root_ends_in_eos(self):
        def ends(n):
            t = n[0]
            if t == 'eos':
                return True
            if t == 'all':
                return bool(n[1]) and ends(n[1][-1])
            if t == 'either':
                return bool(n[1]) and all(ends(c) for c in n[1])
            if t == 'ref':
                return n[1] in self.rules and ends(self.rules[n[1]])
            return False
        return self.root in self.rules and ends(self.rules[self.root])

    def self_recursive(self):
        """Rules that mention themselves (list-like productions: parse depth
        grows with the number of elements)."""
        out = []
        for name, r in self.rules.items():
            acc = set()
            self.refs(r, acc)
            if name in acc:
                out.append(name)
        return sorted(out)

    def literal_sets(self, name):
        """All Literals([...]) lists directly inside rule `name`."""
        out = []

        def walk(n):
            if n[0] == 'lits':
                out.append(list(n[1]))
            elif n[0] in ('all', 'either'):
                for c in n[1]:
                    walk(c)
            elif n[0] in ('opt', 'star'):
                walk(n[1])
        if name in self.rules:
            walk(self.rules[name])
        return out

    def alternatives(self, name):
        r = self.rules.get(name)
        if r is None:
            return None
        if r[0] == 'either':
            return [c[1] if c[0] == 'ref' else c for c in r[1]]
        return None

    # -- child shapes -----------------------------------------------------
    def shapes(self, name, limit=400):
        """All sequences of children an AST node for `name` can have.  A
        child is ('node', rulename) for a nested rule, ('str',) for a
        captured literal/string, ('int',) for a captured number.  Fillers
        capture nothing.  Star contributes 0, 1 or 2 repetitions (enough to
        exercise index arithmetic)."""
        def seqs(n):
            t = n[0]
            if t == 'ref':
                return [[('node', n[1])]]
            if t in ('lits', 'lit', 'string'):
                return [[('str',)]]
            if t in ('digit', 'number'):
                return [[('int',)]]
            if t in ('filler', 'eos'):
                return [[]]
            if t == 'opt':
                return [[]] + seqs(n[1])
            if t == 'star':
                one = seqs(n[1])
                out = [[]] + one
                for a in one:
                    for b in one:
                        out.append(a + b)
                return out
            if t == 'either':
                out = []
                for c in n[1]:
                    out.extend(seqs(c))
                return out
            if t == 'all':
                out = [[]]
                for c in n[1]:
                    nxt = []
                    for pre in out:
                        for s in seqs(c):
                            nxt.append(pre + s)
                    out = nxt
                    if len(out) > limit:
                        raise AnalysisError('too many shapes for %s' % name)
                return out
            raise AnalysisError('shape of %r' % (n,))
        uniq = []
        for s in seqs(self.rules[name]):
            if s not in uniq:
                uniq.append(s)
        return uniq


def _reads_only(stmt):
    """The statement only reads the grammar objects (e.g. passes them to a
    function that names the rules, or binds another name to them)."""
    if isinstance(stmt, ast.Expr) and isinstance(stmt.value, ast.Call) \
            and isinstance(stmt.value.func, ast.Name):
        return True         # update_names(grammar[1]) and the like
    if isinstance(stmt, ast.Assign) and all(
            isinstance(t, ast.Name) and t.id not in (
                'strict_grammar', 'enhanced_grammar')
            for t in stmt.targets):
        return True
    return False


def _fold(repo):
    """Interpret the module-level statements that build the two grammars."""
    tree = repo.mod(GRAMMAR).tree
    strict = None
    enhanced = None
    lines_s, lines_e = {}, {}
    for stmt in tree.body:
        if isinstance(stmt, ast.Assign) and len(stmt.targets) == 1:
            t = stmt.targets[0]
            v = stmt.value
            if isinstance(t, ast.Name) and t.id == 'strict_grammar':
                if not (isinstance(v, ast.Tuple) and len(v.elts) == 2
                        and isinstance(v.elts[1], ast.Dict)):
                    raise AnalysisError('strict_grammar is not (root, {..})')
                root = ast.literal_eval(v.elts[0])
                rules = {}
                for k, val in zip(v.elts[1].keys, v.elts[1].values):
                    name = ast.literal_eval(k)
                    if name in rules:
                        raise AnalysisError('rule %s defined twice in the '
                                            'dict literal' % name)
                    rules[name] = _node(val)
                    lines_s[name] = k.lineno
                strict = (root, rules)
            elif isinstance(t, ast.Name) and t.id == 'enhanced_grammar':
                if strict is None:
                    raise AnalysisError('enhanced_grammar before strict')
                ok = (isinstance(v, ast.Tuple) and len(v.elts) == 2
                      and src(v.elts[1]) == 'strict_grammar[1].copy()')
                if not ok:
                    raise AnalysisError('enhanced_grammar is not (root, '
                                        'strict_grammar[1].copy())')
                enhanced = (ast.literal_eval(v.elts[0]), dict(strict[1]))
                lines_e = dict(lines_s)
            elif isinstance(t, ast.Subscript) \
                    and src(t.value) == 'enhanced_grammar[1]':
                if enhanced is None:
                    raise AnalysisError('enhanced rule before the copy')
                name = ast.literal_eval(t.slice)
                enhanced[1][name] = _node(v)
                lines_e[name] = stmt.lineno
            elif isinstance(t, ast.Subscript) \
                    and src(t.value) == 'strict_grammar[1]':
                name = ast.literal_eval(t.slice)
                strict[1][name] = _node(v)
                lines_s[name] = stmt.lineno
            else:
                if any(isinstance(x, ast.Name) and x.id in (
                        'strict_grammar', 'enhanced_grammar')
                        for x in ast.walk(stmt)) and not _reads_only(stmt):
                    raise AnalysisError('unmodelled assignment touching the '
                                        'grammar: %s' % src(stmt)[:80])
            continue
        # rules added in bulk: <grammar>[1].update({name: rule, ...});
        # rules removed: del <grammar>[1][name] / <grammar>[1].pop(name)
        target = None
        if isinstance(stmt, ast.Expr) and isinstance(stmt.value, ast.Call) \
                and isinstance(stmt.value.func, ast.Attribute) \
                and src(stmt.value.func.value) in ('enhanced_grammar[1]',
                                                   'strict_grammar[1]'):
            which = src(stmt.value.func.value)
            g_, l_ = (enhanced, lines_e) if which.startswith('enh') else (
                strict, lines_s)
            if g_ is None:
                raise AnalysisError('%s used before it is built' % which)
            c = stmt.value
            if c.func.attr == 'update' and len(c.args) == 1 \
                    and not c.keywords and isinstance(c.args[0], ast.Dict):
                for k, val in zip(c.args[0].keys, c.args[0].values):
                    name = ast.literal_eval(k)
                    g_[1][name] = _node(val)
                    l_[name] = k.lineno
                continue
            if c.func.attr == 'pop' and len(c.args) >= 1:
                g_[1].pop(ast.literal_eval(c.args[0]), None)
                continue
            raise AnalysisError('unmodelled change of %s: %s' % (
                which, src(stmt)[:80]))
        if isinstance(stmt, ast.Delete):
            done = True
            for t in stmt.targets:
                if isinstance(t, ast.Subscript) and src(t.value) in (
                        'enhanced_grammar[1]', 'strict_grammar[1]'):
                    g_ = enhanced if src(t.value).startswith('enh') \
                        else strict
                    g_[1].pop(ast.literal_eval(t.slice), None)
                elif 'grammar' in src(t):
                    done = False
            if done:
                continue
        # anything else that touches the grammars is not understood: fail
        # closed rather than analyse a grammar that is not the one in use
        if any(isinstance(x, ast.Name) and x.id in (
                'strict_grammar', 'enhanced_grammar') and isinstance(
                x.ctx, (ast.Store, ast.Del)) for x in ast.walk(stmt)) or (
                not isinstance(stmt, (ast.FunctionDef, ast.ClassDef,
                                      ast.Import, ast.ImportFrom))
                and any(isinstance(x, ast.Name) and x.id in (
                    'strict_grammar', 'enhanced_grammar')
                    for x in ast.walk(stmt))
                and not _reads_only(stmt)):
            raise AnalysisError('unmodelled statement touching the grammar: '
                                '%s' % src(stmt)[:80])
    if strict is None or enhanced is None:
        raise AnalysisError('grammars not found in ' + GRAMMAR)
    return (Grammar(strict[0], strict[1], lines_s),
            Grammar(enhanced[0], enhanced[1], lines_e))


def load(repo):
    return _fold(repo)


# ----------------------------------------------------------------------
# PEG recogniser over the IR (for the data audit): mirrors the documented
# behaviour of the combinators -- ordered choice, Literals longest first,
# filler (space, newline, tab) skipped after every consumed token and at the
# start, String = maximal run of alnum/underscore.
# ----------------------------------------------------------------------

FILLER = ' \n\t'


class Fail(Exception):
    pass


class Recognizer(object):
    def __init__(self, grammar, string_ok=('_',)):
        self.g = grammar
        self.string_ok = tuple(string_ok)
        self.depth = 0

    def skip(self, text, i):
        while i < len(text) and text[i] in FILLER:
            i += 1
        return i

    def parse(self, text):
        """Returns the tree (nested lists like the repo's AST) or raises
        Fail."""
        i = self.skip(text, 0)
        out = []
        j = self.node(('ref', self.g.root), text, i, out)
        return out[0], j

    def node(self, n, text, i, out):
        t = n[0]
        if t == 'ref':
            if n[1] not in self.g.rules:
                raise Fail('undefined rule %s' % n[1])
            inner = [n[1]]
            self.depth += 1
            if self.depth > 400:
                raise Fail('recursion depth')
            try:
                j = self.node(self.g.rules[n[1]], text, i, inner)
            finally:
                self.depth -= 1
            out.append(inner)
            return j
        if t == 'all':
            tmp = list(out)
            for c in n[1]:
                i = self.node(c, text, i, tmp)
            out[:] = tmp
            return i
        if t == 'either':
            for c in n[1]:
                tmp = list(out)
                try:
                    j = self.node(c, text, i, tmp)
                    out[:] = tmp
                    return j
                except Fail:
                    continue
            raise Fail('no alternative at %d' % i)
        if t == 'opt':
            tmp = list(out)
            try:
                j = self.node(n[1], text, i, tmp)
                out[:] = tmp
                return j
            except Fail:
                return i
        if t == 'star':
            while True:
                tmp = list(out)
                try:
                    j = self.node(n[1], text, i, tmp)
                except Fail:
                    return i
                if j == i:
                    return i
                out[:] = tmp
                i = j
        if t == 'lits':
            for s in sorted(n[1], key=len, reverse=True):
                if text.startswith(s, i):
                    out.append(s)
                    return self.skip(text, i + len(s))
            raise Fail('literal at %d' % i)
        if t == 'lit':
            if text.startswith(n[1], i):
                out.append(n[1])
                return self.skip(text, i + len(n[1]))
            raise Fail('literal %r at %d' % (n[1], i))
        if t == 'filler':
            if text.startswith(n[1], i):
                return self.skip(text, i + len(n[1]))
            raise Fail('filler %r at %d' % (n[1], i))
        if t == 'string':
            j = i
            while j < len(text) and (text[j].isalpha() or text[j].isdigit()
                                     or text[j] in self.string_ok):
                j += 1
            if j == i:
                raise Fail('string at %d' % i)
            out.append(text[i:j])
            return self.skip(text, j)
        if t == 'digit':
            s = ''
            for _ in range(n[1]):
                if i < len(text) and text[i].isdecimal():
                    s += text[i]
                    i = self.skip(text, i + 1)
                else:
                    raise Fail('digit at %d' % i)
            out.append(int(s))
            return i
        if t == 'number':
            if not (i < len(text) and text[i].isdecimal()):
                raise Fail('number at %d' % i)
            s = ''
            while i < len(text) and text[i].isdecimal():
                s += text[i]
                i = self.skip(text, i + 1)
            out.append(int(s))
            return i
        if t == 'eos':
            if i < len(text):
                raise Fail('trailing text at %d' % i)
            return i
        raise Fail('unknown node %r' % (n,))

"""Reference definitions of the documented unit names (SI brochure 9th ed.,
NIST SP 811 appendix B, CODATA).  name -> (SI magnitude, dimension exponents
over (m, kg, s, A, K, mol, cd), relative tolerance).  Exactly defined units
get 1e-9; units whose definition moved between CODATA vintages get 1e-6."""
from fractions import Fraction as F

EXACT = 1e-9
CODATA = 2e-6

#             m   kg  s   A   K  mol cd
D = {
    'length': (1, 0, 0, 0, 0, 0, 0),
    'mass': (0, 1, 0, 0, 0, 0, 0),
    'time': (0, 0, 1, 0, 0, 0, 0),
    'current': (0, 0, 0, 1, 0, 0, 0),
    'temperature': (0, 0, 0, 0, 1, 0, 0),
    'amount': (0, 0, 0, 0, 0, 1, 0),
    'luminous': (0, 0, 0, 0, 0, 0, 1),
    'force': (1, 1, -2, 0, 0, 0, 0),
    'pressure': (-1, 1, -2, 0, 0, 0, 0),
    'energy': (2, 1, -2, 0, 0, 0, 0),
    'power': (2, 1, -3, 0, 0, 0, 0),
    'charge': (0, 0, 1, 1, 0, 0, 0),
    'potential': (2, 1, -3, -1, 0, 0, 0),
    'capacitance': (-2, -1, 4, 2, 0, 0, 0),
    'resistance': (2, 1, -3, -2, 0, 0, 0),
    'volume': (3, 0, 0, 0, 0, 0, 0),
    'dynvisc': (-1, 1, -1, 0, 0, 0, 0),
    'kinvisc': (2, 0, -1, 0, 0, 0, 0),
}

UNITS = {
    # base
    'm': (F(1), D['length'], EXACT), 'g': (F(1, 1000), D['mass'], EXACT),
    's': (F(1), D['time'], EXACT), 'A': (F(1), D['current'], EXACT),
    'K': (F(1), D['temperature'], EXACT), 'mol': (F(1), D['amount'], EXACT),
    'cd': (F(1), D['luminous'], EXACT),
    # derived SI
    'N': (F(1), D['force'], EXACT), 'Pa': (F(1), D['pressure'], EXACT),
    'J': (F(1), D['energy'], EXACT), 'W': (F(1), D['power'], EXACT),
    'C': (F(1), D['charge'], EXACT), 'V': (F(1), D['potential'], EXACT),
    'F': (F(1), D['capacitance'], EXACT),
    'Ohm': (F(1), D['resistance'], EXACT),
    # count
    'molecule': (1 / F('6.02214076e23'), D['amount'], CODATA),
    # length
    'in': (F('0.0254'), D['length'], EXACT),
    'ft': (F('0.3048'), D['length'], EXACT),
    # volume
    'L': (F(1, 1000), D['volume'], EXACT),
    # time
    'min': (F(60), D['time'], EXACT), 'h': (F(3600), D['time'], EXACT),
    # mass
    'u': (F('1.66053906660e-27'), D['mass'], CODATA),
    'lb': (F('0.45359237'), D['mass'], EXACT),
    't': (F(1000), D['mass'], EXACT),
    # force
    'dyn': (F(1, 100000), D['force'], EXACT),
    'lbf': (F('4.4482216152605'), D['force'], 1e-8),
    # pressure
    'bar': (F(100000), D['pressure'], EXACT),
    'atm': (F(101325), D['pressure'], EXACT),
    'torr': (F(101325, 760), D['pressure'], EXACT),
    'psi': (F('6894.757293168'), D['pressure'], 1e-8),
    # energy
    'cal': (F('4.184'), D['energy'], EXACT),
    'erg': (F(1, 10000000), D['energy'], EXACT),
    'BTU': (F('1054.35026444'), D['energy'], 1e-9),   # thermochemical BTU
    'eV': (F('1.602176634e-19'), D['energy'], CODATA),
    # power
    'hp': (F('745.69987158227022'), D['power'], 1e-8),
    # viscosity
    'P': (F(1, 10), D['dynvisc'], EXACT),
    'St': (F(1, 10000), D['kinvisc'], EXACT),
}

PREFIXES = {'Y': 24, 'Z': 21, 'E': 18, 'P': 15, 'T': 12, 'G': 9, 'M': 6,
            'k': 3, 'h': 2, 'da': 1, 'd': -1, 'c': -2, 'm': -3, 'u': -6,
            'n': -9, 'p': -12, 'f': -15, 'a': -18, 'z': -21, 'y': -24}

CONSTANTS = {
    # name in pgradd/Consts.py -> (value, dims, tolerance)
    'PLANCK_CONSTANT': (F('6.62607015e-34'), (2, 1, -1, 0, 0, 0, 0), 2e-6),
    'BOLTZMANN_CONSTANT': (F('1.380649e-23'), (2, 1, -2, 0, -1, 0, 0), 2e-6),
    'GAS_CONSTANT': (F('8.314462618'), (2, 1, -2, 0, -1, -1, 0), 2e-6),
    'AVOGADRO_NUMBER': (F('6.02214076e23'), (0, 0, 0, 0, 0, -1, 0), 2e-6),
}

"""Reader/grammar shape agreement (rules R09.7, R16.8, R08.5).

An abstract interpreter for the RING reader methods.  For every method that
receives the children of a syntax-tree node, and for every child sequence
("shape") the *current* grammar IR allows for that node (literal values
enumerated from the `Literals([...])` lists, identifiers and numbers
abstract), the method body is walked path by path with a small value domain
(concrete ints/strings, unknown string/int/bool, tree, node, token, opaque).
Obligations discharged per (method, rule, shape):

  * every subscript of the tree or of a node is in range        (IndexError)
  * every `assert` holds                                        (AssertionError)
  * no local is read before it is bound on that path            (UnboundLocalError)
  * a token is never concatenated to a str                      (TypeError)
  * every explicit `raise` that can escape is of an allowed class
  * every child of the tree was examined on each normally returning path
    (a child that is parsed but never read is a dropped constraint/prefix)

Dispatch `self.ReadX(tree[k][1:], ...)` analyses ReadX on the shapes of the
rule of tree[k] (restricted by `len(...)` guards at the call site), so each
method is analysed once per (rule, shape) and recursion through list-like
productions terminates by memoisation.
"""
import ast

from .source import AnalysisError, src, dotted

ALLOWED_RAISES = {'RINGReaderError', 'RINGSyntaxError', 'RINGError',
                  'NotImplementedError'}


class Raised(Exception):
    def __init__(self, kind, node, detail='', ctx=None):
        Exception.__init__(self, kind)
        self.kind, self.node, self.detail, self.ctx = kind, node, detail, ctx


class Fork(Exception):
    """Raised by eval when a condition needs refinement-aware forking."""


OPAQUE = ('opaque',)
USTR = ('ustr',)
UINT = ('uint',)
UBOOL = ('ubool',)
NONE = ('none',)


def child_value(d):
    if d[0] == 'node':
        return ('node', d[1], None)
    if d[0] == 'str':
        return ('str', d[1]) if d[1] is not None else USTR
    if d[0] == 'int':
        return UINT
    return OPAQUE


def literal_shapes(grammar, rule, limit=600):
    """Shapes of `rule` with literal values enumerated."""
    def seqs(n):
        t = n[0]
        if t == 'ref':
            return [[('node', n[1])]]
        if t == 'lits':
            return [[('str', s)] for s in n[1]]
        if t == 'lit':
            return [[('str', n[1])]]
        if t == 'string':
            return [[('str', None)]]
        if t in ('digit', 'number'):
            return [[('int',)]]
        if t in ('filler', 'eos'):
            return [[]]
        if t == 'opt':
            return [[]] + seqs(n[1])
        if t == 'star':
            one = seqs(n[1])
            return [[]] + one + [a + b for a in one for b in one]
        if t == 'either':
            out = []
            for c in n[1]:
                out.extend(seqs(c))
            return out
        if t == 'all':
            out = [[]]
            for c in n[1]:
                out = [p + s for p in out for s in seqs(c)]
                if len(out) > limit:
                    raise AnalysisError('too many shapes for %s' % rule)
            return out
        raise AnalysisError('shape of %r' % (n,))
    if rule not in grammar.rules:
        # an undefined nonterminal produces nothing (reaching it at run time
        # is a KeyError: rule R09.1 of C09 reports the reference itself)
        return []
    out = []
    for s in seqs(grammar.rules[rule]):
        t = tuple(s)
        if t not in out:
            out.append(t)
    return out


class Finding(object):
    def __init__(self, kind, cls, method, rule, shape, node, detail):
        self.kind, self.cls, self.method, self.rule = kind, cls, method, rule
        self.shape, self.node, self.detail = shape, node, detail

    def key(self):
        return '%s:%s.%s:%s:%s' % (self.kind, self.cls, self.method,
                                   self.rule, self.detail)


def show_shape(shape):
    out = []
    for d in shape:
        if d[0] == 'node':
            out.append(d[1])
        elif d[0] == 'str':
            out.append(repr(d[1]) if d[1] is not None else '<str>')
        else:
            out.append('<int>')
    return '[' + ', '.join(out) + ']'


class Interp(object):
    def __init__(self, repo, grammar, classes, allowed=ALLOWED_RAISES):
        """classes: {name: (relpath, ClassDef)}"""
        self.repo = repo
        self.g = grammar
        self.classes = classes
        self.allowed = set(allowed)
        self.findings = []
        self._pending = []
        self.memo = {}
        self.analysed = []      # (cls, method, rule, shape)
        self.unproved = []
        self._shape_cache = {}
        self.module_names = {}
        for cname, (rel, c) in classes.items():
            names = set()
            for s in repo.mod(rel).tree.body:
                if isinstance(s, (ast.Import, ast.ImportFrom)):
                    for a in s.names:
                        names.add((a.asname or a.name).split('.')[0])
                elif isinstance(s, (ast.FunctionDef, ast.ClassDef)):
                    names.add(s.name)
                elif isinstance(s, ast.Assign):
                    for t in s.targets:
                        if isinstance(t, ast.Name):
                            names.add(t.id)
            self.module_names[cname] = names

    def shapes(self, rule):
        if rule not in self._shape_cache:
            self._shape_cache[rule] = literal_shapes(self.g, rule)
        return self._shape_cache[rule]

    def method(self, cname, mname):
        rel, c = self.classes[cname]
        found = None
        for s in c.body:
            if isinstance(s, ast.FunctionDef) and s.name == mname:
                found = s
        return found

    # ------------------------------------------------------------------
    def run_method(self, cname, mname, rule, shapes, self_tree=False):
        """Analyse method on each shape; returns the list of exceptions
        (Raised) that can escape it."""
        escapes = []
        f = self.method(cname, mname)
        if f is None:
            return [Raised('AttributeError', None, '%s.%s does not exist'
                           % (cname, mname), (cname, mname, rule, ()))]
        for shape in shapes:
            key = (cname, mname, rule, shape)
            if key in self.memo:
                if self.memo[key] is not None:
                    escapes.extend(self.memo[key])
                continue
            self.memo[key] = None       # in progress (recursion)
            self.analysed.append(key)
            esc = self._run_shape(cname, f, rule, shape, self_tree)
            self.memo[key] = esc
            escapes.extend(esc)
        uniq = {}
        for e in escapes:
            uniq.setdefault((e.kind, e.detail, e.ctx[:2] if e.ctx else None),
                            e)
        return list(uniq.values())

    def _run_shape(self, cname, f, rule, shape, self_tree):
        tree = ('tree', rule, shape, 0)
        env = {'#refine': {}, '#consumed': frozenset(), '#cls': cname}
        params = [a.arg for a in f.args.args]
        if self_tree:
            env['#selftree'] = tree
        else:
            if len(params) < 2:
                raise AnalysisError('%s.%s takes no tree' % (cname, f.name))
            env[params[1]] = tree
            for p in params[2:]:
                env[p] = OPAQUE
        env['self'] = ('self',)
        ctx = (cname, f.name, rule, shape)
        outs = self.block(f.body, env, ctx)
        escapes = []
        for kind, e, payload in outs:
            if kind == 'raise':
                if payload.ctx is None:
                    payload.ctx = ctx
                escapes.append(payload)
            else:
                missing = [i for i in range(len(shape))
                           if i not in e['#consumed']]
                if missing:
                    self.add('dropped-child', ctx, f,
                             'child %s of %s is never examined on a '
                             'returning path' % (
                                 ', '.join('%d (%s)' % (
                                     i, show_shape([shape[i]]))
                                     for i in missing), show_shape(shape)))
        return escapes

    def add(self, kind, ctx, node, detail):
        cname, mname, rule, shape = ctx
        fd = Finding(kind, cname, mname, rule, shape, node, detail)
        if not any(x.kind == kind and x.cls == cname and x.method == mname
                   and x.detail == detail for x in self.findings):
            self.findings.append(fd)

    # ------------------------------------------------------------------
    # statements: returns list of (kind, env, payload), kind in
    # next / return / raise / break / continue
    def block(self, stmts, env, ctx):
        live = [('next', env, None)]
        for s in stmts:
            nxt = []
            for kind, e, p in live:
                if kind != 'next':
                    nxt.append((kind, e, p))
                else:
                    nxt.extend(self.stmt(s, e, ctx))
            live = nxt
            if len(live) > 3000:
                raise AnalysisError('path explosion in %s.%s' % ctx[:2])
        return live

    def stmt(self, s, env, ctx):
        simple = isinstance(s, (ast.Expr, ast.Assign, ast.AugAssign,
                                ast.Return, ast.Raise, ast.Assert))
        if simple:
            self._pending = []
        try:
            m = getattr(self, 's_' + type(s).__name__, None)
            if m is None:
                self.unproved.append('%s.%s: statement %s' % (
                    ctx[0], ctx[1], type(s).__name__))
                return [('next', env, None)]
            outs = m(s, env, ctx)
        except Raised as exc:
            if exc.ctx is None:
                exc.ctx = ctx
            outs = [('raise', env, exc)]
        if simple and self._pending:
            # exceptions escaping from readers called in this statement
            outs = list(outs) + [('raise', env, exc)
                                 for exc in self._pending]
            self._pending = []
        return outs

    def s_Pass(self, s, env, ctx):
        return [('next', env, None)]

    s_Import = s_ImportFrom = s_Global = s_Pass

    def s_Expr(self, s, env, ctx):
        env = dict(env)
        self.ev(s.value, env, ctx)
        return [('next', env, None)]

    def s_Assign(self, s, env, ctx):
        env = dict(env)
        v = self.ev(s.value, env, ctx)
        for t in s.targets:
            self.bind(t, v, env, ctx)
        return [('next', env, None)]

    def bind(self, t, v, env, ctx):
        if isinstance(t, ast.Name):
            env[t.id] = v
        elif isinstance(t, (ast.Tuple, ast.List)):
            for i, e in enumerate(t.elts):
                if v[0] == 'tuple' and len(v[1]) == len(t.elts):
                    self.bind(e, v[1][i], env, ctx)
                else:
                    self.bind(e, OPAQUE, env, ctx)
        elif isinstance(t, (ast.Attribute, ast.Subscript)):
            self.ev(t.value, env, ctx)
            if isinstance(t, ast.Subscript):
                self.ev(t.slice, env, ctx)

    def s_AugAssign(self, s, env, ctx):
        env = dict(env)
        cur = self.ev(_as_load(s.target), env, ctx)
        v = self.ev(s.value, env, ctx)
        new = self.binop(s.op, cur, v, s, env, ctx)
        self.bind(s.target, new, env, ctx)
        return [('next', env, None)]

    def s_Return(self, s, env, ctx):
        env = dict(env)
        v = NONE if s.value is None else self.ev(s.value, env, ctx)
        return [('return', env, v)]

    def s_Raise(self, s, env, ctx):
        env = dict(env)
        if s.exc is None:
            raise Raised('<reraise>', s)
        cls = s.exc.func if isinstance(s.exc, ast.Call) else s.exc
        if isinstance(s.exc, ast.Call):
            for a in s.exc.args:
                self.ev(a, env, ctx)
        raise Raised(dotted(cls) or src(cls), s)

    def s_Assert(self, s, env, ctx):
        outs = []
        for val, e in self.cond(s.test, env, ctx):
            if val is False:
                outs.append(('raise', e, Raised('AssertionError', s,
                                                src(s.test))))
            elif val is None:
                self.unproved.append('%s.%s: assert %s undecided on %s'
                                     % (ctx[0], ctx[1], src(s.test),
                                        show_shape(ctx[3])))
                outs.append(('next', e, None))
            else:
                outs.append(('next', e, None))
        return outs

    def s_If(self, s, env, ctx):
        outs = []
        self._pending = []
        conds = self.cond(s.test, env, ctx)
        pend, self._pending = self._pending, []
        outs.extend(('raise', env, exc) for exc in pend)
        for val, e in conds:
            if val is True or val is None:
                outs.extend(self.block(s.body, dict(e), ctx))
            if val is False or val is None:
                outs.extend(self.block(s.orelse, dict(e), ctx))
        return outs

    def s_For(self, s, env, ctx):
        env = dict(env)
        it = self.ev(s.iter, env, ctx)
        outs = []
        # zero iterations
        outs.extend(self.block(s.orelse, dict(env), ctx)
                    if s.orelse else [('next', dict(env), None)])
        # one (abstract) iteration
        e1 = dict(env)
        self.bind(s.target, UINT if _is_range(s.iter) else OPAQUE, e1, ctx)
        for kind, e, p in self.block(s.body, e1, ctx):
            if kind in ('break', 'continue', 'next'):
                outs.append(('next', e, None))
            else:
                outs.append((kind, e, p))
        return outs

    def s_While(self, s, env, ctx):
        outs = [('next', dict(env), None)]
        for kind, e, p in self.block(s.body, dict(env), ctx):
            if kind in ('break', 'continue', 'next'):
                outs.append(('next', e, None))
            else:
                outs.append((kind, e, p))
        return outs

    def s_Break(self, s, env, ctx):
        return [('break', env, None)]

    def s_Continue(self, s, env, ctx):
        return [('continue', env, None)]

    def s_With(self, s, env, ctx):
        return self.block(s.body, dict(env), ctx)

    def s_Try(self, s, env, ctx):
        outs = []
        for kind, e, p in self.block(s.body, dict(env), ctx):
            if kind == 'raise':
                handled = False
                for h in s.handlers:
                    names = _handler_names(h)
                    if _catches(names, p.kind):
                        e2 = dict(e)
                        if h.name:
                            e2[h.name] = OPAQUE
                        outs.extend(self.block(h.body, e2, ctx))
                        handled = True
                        break
                if not handled:
                    outs.append((kind, e, p))
            elif kind == 'next' and s.orelse:
                outs.extend(self.block(s.orelse, e, ctx))
            else:
                outs.append((kind, e, p))
        # an opaque call in the body may raise what the handlers catch
        # (list.index -> ValueError etc.): explore each handler once from
        # the entry state with the body's bindings unknown
        for h in s.handlers:
            e2 = dict(env)
            for n in ast.walk(ast.Module(body=s.body, type_ignores=[])):
                if isinstance(n, ast.Name) and isinstance(n.ctx, ast.Store):
                    if n.id not in e2:
                        e2[n.id] = ('maybe-unbound', n.id)
            if h.name:
                e2[h.name] = OPAQUE
            outs.extend(self.block(h.body, e2, ctx))
        if s.finalbody:
            fin = []
            for kind, e, p in outs:
                for k2, e2, p2 in self.block(s.finalbody, dict(e), ctx):
                    fin.append((k2, e2, p2) if k2 != 'next'
                               else (kind, e2, p))
            outs = fin
        return outs

    def s_FunctionDef(self, s, env, ctx):
        env = dict(env)
        env[s.name] = OPAQUE
        return [('next', env, None)]

    def s_Delete(self, s, env, ctx):
        return [('next', env, None)]

    # ------------------------------------------------------------------
    # conditions: list of (True/False/None, env)
    def cond(self, test, env, ctx):
        env = dict(env)
        if isinstance(test, ast.UnaryOp) and isinstance(test.op, ast.Not):
            return [(None if v is None else (not v), e)
                    for v, e in self.cond(test.operand, env, ctx)]
        # len(<node>) compared with a constant: refine
        if isinstance(test, ast.Compare) and len(test.ops) == 1:
            l, r = test.left, test.comparators[0]
            if isinstance(l, ast.Call) and dotted(l.func) == 'len' \
                    and len(l.args) == 1:
                target = self.ev(l.args[0], env, ctx)
                rv = self.ev(r, env, ctx)
                if target[0] in ('node', 'sub') and rv[0] == 'int':
                    rule = target[1]
                    allowed = target[2] if target[2] is not None \
                        else frozenset(self.shapes(rule))
                    add = 1 if target[0] == 'node' else 0
                    yes = frozenset(s for s in allowed if _cmp(
                        test.ops[0], len(s) + add, rv[1]))
                    no = allowed - yes
                    outs = []
                    key = src(l.args[0])
                    if yes:
                        e1 = dict(env)
                        e1['#refine'] = dict(env['#refine'])
                        e1['#refine'][key] = yes
                        outs.append((True, e1))
                    if no:
                        e2 = dict(env)
                        e2['#refine'] = dict(env['#refine'])
                        e2['#refine'][key] = no
                        outs.append((False, e2))
                    return outs
        v = self.ev(test, env, ctx)
        return [(truth(v), env)]

    # ------------------------------------------------------------------
    def ev(self, n, env, ctx):
        m = getattr(self, 'e_' + type(n).__name__, None)
        if m is None:
            return OPAQUE
        v = m(n, env, ctx)
        if v[0] in ('node', 'sub'):
            key = src(n)
            if key in env['#refine']:
                v = (v[0], v[1], env['#refine'][key])
        return v

    def e_Constant(self, n, env, ctx):
        v = n.value
        if isinstance(v, bool):
            return ('bool', v)
        if isinstance(v, int):
            return ('int', v)
        if isinstance(v, str):
            return ('str', v)
        if v is None:
            return NONE
        return OPAQUE

    def e_Name(self, n, env, ctx):
        if n.id in env:
            v = env[n.id]
            if v[0] == 'maybe-unbound':
                raise Raised('UnboundLocalError', n,
                             'local %r may be unbound here' % n.id)
            return v
        import builtins
        if n.id in self.module_names.get(env['#cls'], ()) or hasattr(
                builtins, n.id):
            return OPAQUE
        raise Raised('UnboundLocalError', n,
                     'local %r is read before it is assigned' % n.id)

    def e_Attribute(self, n, env, ctx):
        if isinstance(n.value, ast.Name) and n.value.id == 'self':
            if n.attr == 'tree' and '#selftree' in env:
                return env['#selftree']
            return ('selfattr', n.attr)
        base = self.ev(n.value, env, ctx)
        if base[0] == 'token' and n.attr == 'name':
            return ('str', base[1])
        if base[0] in ('str', 'ustr') or base[0] == 'opaque':
            return ('method', base, n.attr)
        if base[0] in ('tree', 'node', 'sub', 'list'):
            return ('method', base, n.attr)
        return OPAQUE

    def e_List(self, n, env, ctx):
        return ('list', [self.ev(e, env, ctx) for e in n.elts])

    def e_Tuple(self, n, env, ctx):
        return ('tuple', [self.ev(e, env, ctx) for e in n.elts])

    def e_Subscript(self, n, env, ctx):
        base = self.ev(n.value, env, ctx)
        if isinstance(n.slice, ast.Slice):
            lo = self.ev(n.slice.lower, env, ctx) if n.slice.lower else \
                ('int', 0)
            if n.slice.upper is not None or n.slice.step is not None:
                return OPAQUE
            if lo[0] != 'int':
                return OPAQUE
            k = lo[1]
            if base[0] == 'tree':
                return ('tree', base[1], base[2][k:], base[3] + k)
            if base[0] == 'node':
                if k == 1:
                    return ('sub', base[1], base[2])
                return OPAQUE
            if base[0] == 'str':
                return ('str', base[1][k:])
            if base[0] == 'ustr':
                return USTR
            return OPAQUE
        idx = self.ev(n.slice, env, ctx)
        if base[0] == 'tree':
            if idx[0] != 'int':
                # unknown index into the tree: everything may be read
                env['#consumed'] = env['#consumed'] | frozenset(
                    range(base[3], base[3] + len(base[2])))
                return OPAQUE
            k = idx[1]
            L = len(base[2])
            if not (-L <= k < L):
                raise Raised('IndexError', n,
                             '%s with index %d on children %s'
                             % (src(n), k, show_shape(base[2])))
            kk = k if k >= 0 else L + k
            env['#consumed'] = env['#consumed'] | {base[3] + kk}
            return child_value(base[2][kk])
        if base[0] in ('node', 'sub'):
            rule = base[1]
            allowed = base[2] if base[2] is not None else frozenset(
                self.shapes(rule))
            if idx[0] != 'int':
                return OPAQUE
            k = idx[1]
            if base[0] == 'node':
                if k == 0:
                    return ('token', rule)
                k -= 1
            if k < 0:
                return OPAQUE
            short = [s for s in allowed if len(s) <= k]
            if short:
                raise Raised('IndexError', n,
                             '%s: node %s can have children %s'
                             % (src(n), rule, show_shape(short[0])))
            kinds = set(s[k] for s in allowed)
            if len(kinds) == 1:
                return child_value(list(kinds)[0])
            if all(d[0] == 'str' for d in kinds):
                return USTR
            return OPAQUE
        if base[0] == 'str':
            if idx[0] == 'int':
                try:
                    return ('str', base[1][idx[1]])
                except IndexError:
                    raise Raised('IndexError', n,
                                 '%s on %r' % (src(n), base[1]))
            return USTR
        if base[0] == 'ustr':
            return USTR
        if base[0] == 'token':
            raise Raised('TypeError', n, '%s subscripts a token' % src(n))
        if base[0] == 'list' and idx[0] == 'int':
            try:
                return base[1][idx[1]]
            except IndexError:
                raise Raised('IndexError', n, src(n))
        return OPAQUE

    def binop(self, op, a, b, n, env, ctx):
        if isinstance(op, ast.Add):
            if (a[0] == 'token' and b[0] in ('str', 'ustr')) or (
                    b[0] == 'token' and a[0] in ('str', 'ustr')):
                raise Raised('TypeError', n,
                             'a syntax-tree token is concatenated to a '
                             'str: %s' % src(n)[:80])
            if a[0] == 'int' and b[0] == 'int':
                return ('int', a[1] + b[1])
            if a[0] == 'str' and b[0] == 'str':
                return ('str', a[1] + b[1])
            if a[0] in ('str', 'ustr') and b[0] in ('str', 'ustr'):
                return USTR
            if {a[0], b[0]} <= {'int', 'uint'}:
                return UINT
            if (a[0] in ('str', 'ustr') and b[0] in ('uint', 'int')) or (
                    b[0] in ('str', 'ustr') and a[0] in ('uint', 'int')):
                raise Raised('TypeError', n, 'str + int: %s' % src(n)[:80])
            return OPAQUE
        if isinstance(op, ast.Sub):
            if a[0] == 'int' and b[0] == 'int':
                return ('int', a[1] - b[1])
            return UINT if {a[0], b[0]} <= {'int', 'uint'} else OPAQUE
        if isinstance(op, ast.Mult):
            if a[0] == 'int' and b[0] == 'int':
                return ('int', a[1] * b[1])
            return OPAQUE
        if isinstance(op, ast.Mod) and a[0] in ('str', 'ustr'):
            return USTR
        return OPAQUE

    def e_BinOp(self, n, env, ctx):
        a = self.ev(n.left, env, ctx)
        b = self.ev(n.right, env, ctx)
        return self.binop(n.op, a, b, n, env, ctx)

    def e_UnaryOp(self, n, env, ctx):
        v = self.ev(n.operand, env, ctx)
        if isinstance(n.op, ast.Not):
            t = truth(v)
            return UBOOL if t is None else ('bool', not t)
        if isinstance(n.op, ast.USub) and v[0] == 'int':
            return ('int', -v[1])
        return OPAQUE

    def e_BoolOp(self, n, env, ctx):
        is_and = isinstance(n.op, ast.And)
        unknown = False
        for v in n.values:
            t = truth(self.ev(v, env, ctx))
            if t is None:
                unknown = True
            elif is_and and t is False:
                return ('bool', False)
            elif (not is_and) and t is True:
                return ('bool', True)
        if unknown:
            return UBOOL
        return ('bool', is_and)

    def e_Compare(self, n, env, ctx):
        left = self.ev(n.left, env, ctx)
        result = True
        unknown = False
        for op, comp in zip(n.ops, n.comparators):
            right = self.ev(comp, env, ctx)
            r = self.compare(op, left, right)
            if r is None:
                unknown = True
            elif r is False:
                return ('bool', False)
            left = right
        return UBOOL if unknown else ('bool', True)

    def compare(self, op, a, b):
        def conc(v):
            if v[0] in ('int', 'str', 'bool'):
                return (True, v[1])
            if v[0] == 'token':
                return (True, v[1])     # RINGToken.__eq__ compares names
            if v[0] == 'none':
                return (True, None)
            return (False, None)
        if isinstance(op, (ast.In, ast.NotIn)):
            ka, va = conc(a)
            if b[0] in ('list', 'tuple') and ka:
                items = [conc(x) for x in b[1]]
                if all(k for k, _ in items):
                    r = va in [v for _, v in items]
                    return r if isinstance(op, ast.In) else not r
            if b[0] == 'str' and a[0] == 'str':
                r = a[1] in b[1]
                return r if isinstance(op, ast.In) else not r
            return None
        ka, va = conc(a)
        kb, vb = conc(b)
        if isinstance(op, (ast.Is, ast.IsNot)):
            if ka and kb and (va is None or vb is None):
                r = va is vb
                return r if isinstance(op, ast.Is) else not r
            if (a[0] == 'none') != (b[0] == 'none') and (
                    a[0] in ('tree', 'node', 'token', 'str', 'int')
                    or b[0] in ('tree', 'node', 'token', 'str', 'int')):
                return isinstance(op, ast.IsNot)
            return None
        if ka and kb:
            try:
                return _cmp(op, va, vb)
            except TypeError:
                return None
        # a concrete value never equals a value of another kind
        if isinstance(op, (ast.Eq, ast.NotEq)):
            if (a[0] in ('ustr',) and b[0] == 'int') or (
                    b[0] in ('ustr',) and a[0] == 'int'):
                return isinstance(op, ast.NotEq)
        return None

    def e_IfExp(self, n, env, ctx):
        self.ev(n.test, env, ctx)
        self.ev(n.body, env, ctx)
        self.ev(n.orelse, env, ctx)
        return OPAQUE

    def e_Call(self, n, env, ctx):
        fn = dotted(n.func)
        # self.ReadX(...)
        if isinstance(n.func, ast.Attribute) and isinstance(
                n.func.value, ast.Name) and n.func.value.id == 'self':
            args = [self.ev(a, env, ctx) for a in n.args]
            for kw in n.keywords:
                self.ev(kw.value, env, ctx)
            target = self.method(env['#cls'], n.func.attr)
            if target is not None and args and args[0][0] in ('sub', 'tree'):
                return self.dispatch(env['#cls'], n.func.attr, args[0], n,
                                     env, ctx)
            return OPAQUE
        # Reader(tree).Read()
        if isinstance(n.func, ast.Attribute) and n.func.attr == 'Read' \
                and isinstance(n.func.value, ast.Call) \
                and dotted(n.func.value.func) in self.classes:
            cname = dotted(n.func.value.func)
            cargs = [self.ev(a, env, ctx) for a in n.func.value.args]
            if cargs and cargs[0][0] in ('sub', 'tree'):
                return self.dispatch(cname, 'Read', cargs[0], n, env, ctx,
                                     self_tree=True)
            return OPAQUE
        if fn == 'len' and len(n.args) == 1:
            v = self.ev(n.args[0], env, ctx)
            if v[0] == 'tree':
                return ('int', len(v[2]))
            if v[0] == 'str':
                return ('int', len(v[1]))
            if v[0] == 'list':
                return ('int', len(v[1]))
            if v[0] in ('node', 'sub'):
                allowed = v[2] if v[2] is not None else frozenset(
                    self.shapes(v[1]))
                lens = set(len(s) + (1 if v[0] == 'node' else 0)
                           for s in allowed)
                if len(lens) == 1:
                    return ('int', list(lens)[0])
            return UINT
        if fn in ('str', 'repr'):
            for a in n.args:
                self.ev(a, env, ctx)
            return USTR
        if fn == 'int':
            for a in n.args:
                self.ev(a, env, ctx)
            return UINT
        if fn in ('list', 'dict', 'set', 'tuple'):
            for a in n.args:
                self.ev(a, env, ctx)
            return OPAQUE
        # generic: evaluate callee expression and arguments
        fv = self.ev(n.func, env, ctx) if not isinstance(
            n.func, ast.Name) else OPAQUE
        args = [self.ev(a, env, ctx) for a in n.args]
        for kw in n.keywords:
            self.ev(kw.value, env, ctx)
        if fv[0] == 'method':
            base, attr = fv[1], fv[2]
            if base[0] == 'str':
                try:
                    if attr in ('islower', 'isupper', 'isdigit', 'isalpha'):
                        return ('bool', getattr(base[1], attr)())
                    if attr in ('upper', 'lower'):
                        return ('str', getattr(base[1], attr)())
                except Exception:
                    pass
            if attr in ('islower', 'isupper', 'isdigit', 'isalpha',
                        'startswith', 'endswith'):
                return UBOOL
            if attr in ('upper', 'lower', 'strip', '__str__'):
                return USTR
            if attr in ('index', 'count'):
                return UINT
        return OPAQUE

    def dispatch(self, cname, mname, arg, node, env, ctx, self_tree=False):
        if arg[0] == 'tree':
            rule, shapes = arg[1], [arg[2]]
        else:
            rule = arg[1]
            shapes = sorted(arg[2]) if arg[2] is not None else \
                self.shapes(rule)
        esc = self.run_method(cname, mname, rule, shapes,
                              self_tree=self_tree)
        self._pending.extend(esc)
        return OPAQUE


def truth(v):
    if v[0] == 'bool':
        return v[1]
    if v[0] == 'int':
        return v[1] != 0
    if v[0] == 'str':
        return bool(v[1])
    if v[0] == 'none':
        return False
    if v[0] in ('tree',):
        return len(v[2]) > 0
    if v[0] in ('node', 'token'):
        return True
    if v[0] == 'list':
        return len(v[1]) > 0
    return None


def _cmp(op, a, b):
    if isinstance(op, ast.Eq):
        return a == b
    if isinstance(op, ast.NotEq):
        return a != b
    if isinstance(op, ast.Lt):
        return a < b
    if isinstance(op, ast.LtE):
        return a <= b
    if isinstance(op, ast.Gt):
        return a > b
    if isinstance(op, ast.GtE):
        return a >= b
    raise TypeError


def _as_load(t):
    return ast.parse(src(t), mode='eval').body


def _is_range(it):
    return isinstance(it, ast.Call) and dotted(it.func) == 'range'


def _handler_names(h):
    if h.type is None:
        return ('<bare>',)
    if isinstance(h.type, ast.Tuple):
        return tuple(dotted(e) or src(e) for e in h.type.elts)
    return (dotted(h.type) or src(h.type),)


def _catches(names, kind):
    if '<bare>' in names or 'Exception' in names or 'BaseException' in names:
        return True
    if kind in names:
        return True
    if kind in ('RINGReaderError', 'RINGSyntaxError') and 'RINGError' in \
            names:
        return True
    if kind in ('IndexError', 'KeyError') and 'LookupError' in names:
        return True
    return False

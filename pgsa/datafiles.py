"""Shipped databases as data (yaml.safe_load; nothing from the repo runs)."""
import os

import yaml

from .source import AnalysisError


_Base = getattr(yaml, 'CSafeLoader', yaml.SafeLoader)


class _Loader(_Base):
    pass


def _tagged(loader, suffix, node):
    if isinstance(node, yaml.MappingNode):
        v = loader.construct_mapping(node, deep=True)
    elif isinstance(node, yaml.SequenceNode):
        v = loader.construct_sequence(node, deep=True)
    else:
        v = loader.construct_scalar(node)
    return {'__tag__': suffix, 'value': v}


_Loader.add_multi_constructor('!', _tagged)


def load_yaml(path):
    with open(path) as f:
        try:
            return yaml.load(f, Loader=_Loader)
        except yaml.YAMLError as exc:
            raise AnalysisError('cannot parse %s: %s' % (path, exc))


class Library(object):
    """One shipped database directory: scheme + library include closure."""

    def __init__(self, root, name):
        self.name = name
        self.dir = os.path.join(root, 'pgradd', 'data', name)
        self.root = root
        self.scheme_path = os.path.join(self.dir, 'scheme.yaml')
        self.library_path = os.path.join(self.dir, 'library.yaml')
        self.scheme = load_yaml(self.scheme_path)
        self.files = {}         # path -> parsed
        self.edges = []         # (from, to)
        self.missing = []
        self.cycle = None
        self._walk(self.library_path, [])

    def rel(self, path):
        return os.path.relpath(path, self.root)

    def _walk(self, path, stack):
        if path in stack:
            self.cycle = [self.rel(p) for p in stack + [path]]
            return
        if path in self.files:
            return
        if not os.path.exists(path):
            self.missing.append(self.rel(path))
            return
        data = load_yaml(path) or {}
        self.files[path] = data
        for inc in (data.get('include') or []):
            # _Load() takes the directory of the including file as the
            # base path of its own includes
            tgt = os.path.join(os.path.dirname(path), inc)
            self.edges.append((self.rel(path), self.rel(tgt)))
            self._walk(tgt, stack + [path])

    def patterns(self):
        """(section, index, name, text) for every RING string."""
        out = []
        for i, p in enumerate(self.scheme.get('patterns') or []):
            out.append(('patterns', i, '%s/%s' % (p.get('center_name'),
                                                  p.get('periph_name')),
                        p.get('connectivity')))
        for i, p in enumerate(self.scheme.get('other_descriptors') or []):
            out.append(('other_descriptors', i, p.get('name'),
                        p.get('connectivity')))
        return out

    def entries(self):
        """(file, section, name, record) for groups and other descriptors."""
        for path, data in self.files.items():
            for sec in ('groups', 'other_descriptors'):
                for name, rec in (data.get(sec) or {}).items():
                    yield self.rel(path), sec, name, rec

    def uq_blocks(self):
        for path, data in self.files.items():
            if data.get('UQ'):
                yield self.rel(path), data['UQ']


def libraries(root):
    d = os.path.join(root, 'pgradd', 'data')
    if not os.path.isdir(d):
        raise AnalysisError('data directory missing: %s' % d)
    names = sorted(n for n in os.listdir(d)
                   if os.path.isfile(os.path.join(d, n, 'library.yaml')))
    return [Library(root, n) for n in names]


def canonical_group(name):
    """Canonical form of a group name from the documented syntax: centre,
    then (peripheral)count items; peripherals sorted, run-length encoded.
    Independent re-implementation (not imported from the repository)."""
    import re
    parts = re.split(r'[()]', name)
    csg = parts[0]
    psgs = []
    pending = None
    for part in parts[1:]:
        if not part:
            continue
        if part.isdigit():
            if pending is None:
                return None
            psgs += [pending] * int(part)
            pending = None
        else:
            if pending is not None:
                psgs.append(pending)
            pending = part
    if pending is not None:
        psgs.append(pending)
    counts = {}
    for p in psgs:
        counts[p] = counts.get(p, 0) + 1
    out = csg
    for p in sorted(counts):
        out += '(%s)' % p + ('' if counts[p] == 1 else '%d' % counts[p])
    return out

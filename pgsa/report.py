"""Obligations, findings, known-findings matching, evidence and replay files."""
import hashlib
import json
import os
import sys
import time

from .source import qual, AnalysisError

VERIF = os.path.dirname(os.path.dirname(os.path.abspath(__file__)))
KNOWN_FILE = os.path.join(VERIF, 'known_findings.json')


def load_known():
    if not os.path.exists(KNOWN_FILE):
        return {'known': [], 'fixed': []}
    with open(KNOWN_FILE) as f:
        return json.load(f)


class Check(object):
    def __init__(self, pid, tier, repo, explanation, not_decided, assumptions):
        self.pid = pid
        self.tier = tier
        self.repo = repo
        self.explanation = explanation
        self.not_decided = not_decided
        self.assumptions = list(assumptions)
        self.obs = []          # every obligation examined
        self.findings = []     # failed obligations
        self.infos = []
        self.deferred = []
        self.extra = {}
        self.exhaustive = None
        self.t0 = time.time()
        try:
            self.seed = int(os.environ.get('VERIF_SEED', '0'))
        except ValueError:
            self.seed = 0

    # ------------------------------------------------------------------
    def ob(self, rule, ok, rel=None, node=None, key=None, what='',
           found=None, required=None, qualname=None):
        """Record one obligation (rule instance at a site)."""
        q = qualname if qualname is not None else (
            qual(node) if node is not None else '')
        line = getattr(node, 'lineno', None) if node is not None else None
        ident = '%s|%s|%s|%s' % (rule, rel or '', q, key or what)
        rec = {'rule': rule, 'file': rel, 'function': q, 'line': line,
               'key': key or what, 'what': what, 'ok': bool(ok), 'id': ident}
        if found is not None:
            rec['found'] = str(found)[:600]
        if required is not None:
            rec['required'] = str(required)[:600]
        self.obs.append(rec)
        if not ok:
            if node is not None and rel is not None:
                try:
                    rec['excerpt'] = self.repo.excerpt(rel, node, 1)[:1500]
                except Exception:
                    pass
            self.findings.append(rec)
        return bool(ok)

    def need(self, rule, count, minimum, what):
        """Vacuity guard: fewer instances than confirmed by hand => exit 2."""
        if count < minimum:
            # not fatal at once: rules further on may show *why* the
            # instances are gone (a changed function is a violation, not a
            # broken analysis); finish() fails the run closed if none does
            self.deferred.append(
                '%s: only %d instance(s) of "%s" found, at least %d expected '
                '(anchor moved or rule no longer matches the code)'
                % (rule, count, what, minimum))
            return False
        return True

    def has_new_findings(self):
        known = load_known()
        ids = set(k['id'] for k in known.get('known', [])
                  if k.get('property') == self.pid)
        return any(f['id'] not in ids for f in self.findings)

    def info(self, text):
        self.infos.append(text)

    # ------------------------------------------------------------------
    def finish(self):
        known = load_known()
        known_ids = dict((k['id'], k) for k in known.get('known', [])
                         if k.get('property') == self.pid)
        new = []
        seen_known = []
        seen_ids = set()
        for f in self.findings:
            if f['id'] in seen_ids:
                continue
            seen_ids.add(f['id'])
            if f['id'] in known_ids:
                seen_known.append(f)
            else:
                new.append(f)
        for f in seen_known:
            print('KNOWN-FINDING: property=%s %s -- %s'
                  % (self.pid, f['id'], known_ids[f['id']].get('what', '')))
        os.makedirs(os.path.join(VERIF, 'replay'), exist_ok=True)
        for f in new:
            h = hashlib.sha1(f['id'].encode()).hexdigest()[:10]
            rp = os.path.join(VERIF, 'replay', '%s-%s.json' % (self.pid, h))
            with open(rp, 'w') as fh:
                json.dump({'property': self.pid, 'finding': f,
                           'repo_root': self.repo.root,
                           'rerun': '/venv/bin/python /verif/run.py %s --tier '
                                    '%s' % (self.pid, self.tier)}, fh, indent=1)
            print('VIOLATION property=%s replay=%s' % (self.pid, rp))
            print('  %s:%s %s [%s] %s' % (f['file'], f['line'], f['function'],
                                          f['rule'], f['what'] or f['key']))
            if 'found' in f:
                print('    found   : %s' % f['found'])
            if 'required' in f:
                print('    required: %s' % f['required'])
        if self.deferred and not new:
            # vacuous rules and nothing else wrong: the analysis is broken
            raise AnalysisError('; '.join(self.deferred[:3]))
        for d in self.deferred:
            print('ANALYSIS-NOTE property=%s %s' % (self.pid, d))
        self._write_evidence(len(new), seen_known)
        n_ok = sum(1 for o in self.obs if o['ok'])
        print('%s %s: %d obligations, %d discharged, %d known finding(s), '
              '%d violation(s); %d files consulted; %.2fs'
              % (self.pid, self.tier, len(self.obs), n_ok, len(seen_known),
                 len(new), len(self.repo.consulted), time.time() - self.t0))
        return 1 if new else 0

    def _write_evidence(self, nviol, seen_known):
        rules = {}
        for o in self.obs:
            r = rules.setdefault(o['rule'], {'instances': 0, 'ok': 0})
            r['instances'] += 1
            r['ok'] += 1 if o['ok'] else 0
        distinct = len(set(o['id'] for o in self.obs))
        samples = []
        seen_rules = set()
        for o in self.obs:
            if o['rule'] not in seen_rules or not o['ok']:
                seen_rules.add(o['rule'])
                s = dict((k, o[k]) for k in
                         ('rule', 'file', 'function', 'line', 'what', 'ok',
                          'found', 'required') if k in o)
                samples.append(s)
        cov = {
            'explanation': self.explanation,
            'not_decided': self.not_decided,
            'obligations': len(self.obs),
            'discharged': sum(1 for o in self.obs if o['ok']),
            'evaluations': len(self.obs),
            'distinct_nontrivial': distinct,
            'rule': 'one evaluation = one rule instance (rule x code site '
                    'enumerated from the repository source); distinct = '
                    'distinct rule|file|function|construct identities; an '
                    'instance is non-trivial because it is bound to a real '
                    'construct of the analysed tree (vacuous rules abort the '
                    'run with exit 2)',
            'samples': samples[:60],
            'rules': rules,
            'files': self.repo.digests(),
            'known_findings_seen': [f['id'] for f in seen_known],
            'information': self.infos[:80],
            'checker_cmd': '/venv/bin/python /verif/run.py %s --tier %s'
                           % (self.pid, self.tier),
            'repo_root': self.repo.root,
        }
        if getattr(self.repo, 'canonicalised', None):
            cov['analysed_through_reviewed_text'] = {
                'functions': list(self.repo.canonicalised),
                'why': 'their current text differs from the reviewed text '
                       'but is the same function in strict normal form '
                       '(decision table over path summaries, messages and '
                       'raise arguments included)'}
        if self.exhaustive is not None:
            cov['exhaustive'] = bool(self.exhaustive)
        cov.update(self.extra)
        ev = {'property_id': self.pid, 'tier': self.tier, 'seed': self.seed,
              'level': 'other', 'coverage': cov,
              'assumptions': self.assumptions,
              'wall_s': round(time.time() - self.t0, 3),
              'violations': nviol}
        os.makedirs(os.path.join(VERIF, 'evidence'), exist_ok=True)
        # When the self-test aims the checkers at a scratch copy, evidence
        # goes to a scratch location too (never over the committed files).
        evdir = os.environ.get('VERIF_EVIDENCE_DIR',
                               os.path.join(VERIF, 'evidence'))
        os.makedirs(evdir, exist_ok=True)
        with open(os.path.join(evdir, '%s.json' % self.pid), 'w') as fh:
            json.dump(ev, fh, indent=1, sort_keys=True)
            fh.write('\n')


def analysis_error(pid, reason):
    print('ANALYSIS-ERROR property=%s reason=%s' % (pid, reason))
    sys.stdout.flush()
    return 2
